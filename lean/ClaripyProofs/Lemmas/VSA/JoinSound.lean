import ClaripyProofs.Lemmas.VSA.JoinLemmas
/-! `pseudo_join` contains both arguments (all widths, both `smart_join` settings). -/
namespace Claripy.VSA

/-- `v` lies on the arc of `a` -/
def sur (a : SI) (v : Nat) : Prop := cd (2 ^ a.bits) a.lb v ≤ cd (2 ^ a.bits) a.lb a.ub

/-- the general clause of `_is_surrounded` -/
def G (a b : SI) : Prop :=
  sur b a.lb ∧ sur b a.ub ∧ ((b.lb = a.lb ∧ b.ub = a.ub) ∨ ¬ sur a b.lb ∨ ¬ sur a b.ub)

theorem surrounds_sur (a : SI) (v : Nat) (hw : a.WF) (hv : v < 2 ^ a.bits) :
    a.surroundsMember (v : Int) = true ↔ sur a v := surrounds_iff a v hw.2.1 hw.2.2.1 hv

theorem isSurrounded_true (a b : SI) (ha : a.WF) (hb : b.WF) (hbits : a.bits = b.bits) (hab : a.bottom = false)
    (h : a.isSurrounded b = true) : b.isTop = true ∨ G a b := by
  unfold SI.isSurrounded at h
  rw [hab] at h
  simp only [Bool.false_eq_true, if_false] at h
  by_cases h1 : (a.isTop && b.isTop) = true
  · left; simp only [Bool.and_eq_true] at h1; exact h1.2
  · rw [if_neg h1] at h
    by_cases h2 : a.isTop = true
    · rw [if_pos h2] at h; cases h
    · rw [if_neg h2] at h
      by_cases h3 : b.isTop = true
      · left; exact h3
      · rw [if_neg h3] at h
        right
        have hal : a.lb < 2 ^ b.bits := by rw [← hbits]; exact ha.2.1
        have hau : a.ub < 2 ^ b.bits := by rw [← hbits]; exact ha.2.2.1
        have hbl : b.lb < 2 ^ a.bits := by rw [hbits]; exact hb.2.1
        have hbu : b.ub < 2 ^ a.bits := by rw [hbits]; exact hb.2.2.1
        simp only [Bool.and_eq_true, Bool.or_eq_true, Bool.not_eq_true', beq_iff_eq] at h
        obtain ⟨⟨h4, h5⟩, h6⟩ := h
        refine ⟨(surrounds_sur b a.lb hb hal).1 h4, (surrounds_sur b a.ub hb hau).1 h5, ?_⟩
        rcases h6 with (⟨e1, e2⟩ | h7) | h8
        · exact Or.inl ⟨e1, e2⟩
        · right; left
          intro hc
          have := (surrounds_sur a b.lb ha hbl).2 hc
          rw [this] at h7; cases h7
        · right; right
          intro hc
          have := (surrounds_sur a b.ub ha hbu).2 hc
          rw [this] at h8; cases h8

theorem isSurrounded_false (a b : SI) (ha : a.WF) (hb : b.WF) (hbits : a.bits = b.bits) (hab : a.bottom = false)
    (h : ¬ a.isSurrounded b = true) : b.isTop = false ∧ (a.isTop = true ∨ ¬ G a b) := by
  unfold SI.isSurrounded at h
  rw [hab] at h
  simp only [Bool.false_eq_true, if_false] at h
  by_cases h1 : (a.isTop && b.isTop) = true
  · rw [if_pos h1] at h; exact absurd rfl h
  · rw [if_neg h1] at h
    by_cases h2 : a.isTop = true
    · have hb' : b.isTop = false := by
        cases hbt : b.isTop with
        | false => rfl
        | true => exfalso; apply h1; simp [h2, hbt]
      exact ⟨hb', Or.inl h2⟩
    · rw [if_neg h2] at h
      by_cases h3 : b.isTop = true
      · rw [if_pos h3] at h; exact absurd rfl h
      · rw [if_neg h3] at h
        refine ⟨by simpa using h3, Or.inr ?_⟩
        intro hG
        apply h
        obtain ⟨g1, g2, g3⟩ := hG
        have hal : a.lb < 2 ^ b.bits := by rw [← hbits]; exact ha.2.1
        have hau : a.ub < 2 ^ b.bits := by rw [← hbits]; exact ha.2.2.1
        have hbl : b.lb < 2 ^ a.bits := by rw [hbits]; exact hb.2.1
        have hbu : b.ub < 2 ^ a.bits := by rw [hbits]; exact hb.2.2.1
        simp only [Bool.and_eq_true, Bool.or_eq_true, Bool.not_eq_true', beq_iff_eq]
        refine ⟨⟨(surrounds_sur b a.lb hb hal).2 g1, (surrounds_sur b a.ub hb hau).2 g2⟩, ?_⟩
        rcases g3 with ⟨e1, e2⟩ | g4 | g5
        · exact Or.inl (Or.inl ⟨e1, e2⟩)
        · left; right
          cases hh : a.surroundsMember (b.lb : Int) with
          | false => rfl
          | true => exact absurd ((surrounds_sur a b.lb ha hbl).1 hh) g4
        · right
          cases hh : a.surroundsMember (b.ub : Int) with
          | false => rfl
          | true => exact absurd ((surrounds_sur a b.ub ha hbu).1 hh) g5

/-- a TOP interval: stride 1 and the arc covers the whole circle -/
theorem isTop_facts (b : SI) (hb : b.WF) (h : b.isTop = true) :
    b.stride = 1 ∧ cd (2 ^ b.bits) b.lb b.ub = 2 ^ b.bits - 1 := by
  unfold SI.isTop at h
  simp only [Bool.and_eq_true, beq_iff_eq] at h
  obtain ⟨h1, h2⟩ := h
  obtain ⟨_, hl, hu, hs⟩ := hb
  have hne : b.lb ≠ b.ub := by
    intro he
    have := hs.2 he
    omega
  have h3 : b.lb = (b.ub + 1) % 2 ^ b.bits := by
    rw [h2]
    have : ((b.ub : Int) + 1) = ((b.ub + 1 : Nat) : Int) := by push_cast; rfl
    unfold modAdd
    rw [this, imod_nat]
  exact ⟨h1, cd_succ _ _ _ hl hu h3 hne⟩

theorem gcd3_dvd_a (a b c : Nat) : Nat.gcd (Nat.gcd a b) c ∣ a :=
  Nat.dvd_trans (Nat.gcd_dvd_left _ _) (Nat.gcd_dvd_left _ _)
theorem gcd3_dvd_b (a b c : Nat) : Nat.gcd (Nat.gcd a b) c ∣ b :=
  Nat.dvd_trans (Nat.gcd_dvd_left _ _) (Nat.gcd_dvd_right _ _)
theorem gcd3_dvd_c (a b c : Nat) : Nat.gcd (Nat.gcd a b) c ∣ c := Nat.gcd_dvd_right _ _

/-- result `[lo, hi]` with stride `g`: membership of a point `x` on the arc whose offset from `lo` is `off + d`,
`g ∣ off`, `g ∣ d` -/
theorem mem_new_sum (w g lo hi x off d : Nat) (hlo : lo < 2 ^ w) (hhi : hi < 2 ^ w) (hx : x < 2 ^ w)
    (hle : cd (2 ^ w) lo x ≤ cd (2 ^ w) lo hi) (heq : cd (2 ^ w) lo x = off + d) (h1 : g ∣ off) (h2 : g ∣ d)
    (h0 : g = 0 → off = 0 ∧ d = 0) : (SI.new w g (lo : Int) (hi : Int)).mem x := by
  apply mem_new_of w g lo hi x hlo hhi hx hle
  · rw [heq]; exact Nat.dvd_add h1 h2
  · intro hg; rw [heq]; have := h0 hg; omega

/-- union of two arcs as one arc `[sl, bu]` with stride `g`: membership from the geometric facts and divisibility -/
theorem arcUnion_mem (w g sl su bl bu x ss bs : Nat) (hsl : sl < 2 ^ w) (hbu : bu < 2 ^ w) (hx : x < 2 ^ w)
    (hxm : (cd (2 ^ w) sl x ≤ cd (2 ^ w) sl su ∧ ss ∣ cd (2 ^ w) sl x) ∨
           (cd (2 ^ w) bl x ≤ cd (2 ^ w) bl bu ∧ bs ∣ cd (2 ^ w) bl x))
    (hgeo : (cd (2 ^ w) sl x ≤ cd (2 ^ w) sl su → cd (2 ^ w) sl x ≤ cd (2 ^ w) sl bu) ∧
            (cd (2 ^ w) bl x ≤ cd (2 ^ w) bl bu →
              cd (2 ^ w) sl x ≤ cd (2 ^ w) sl bu ∧ cd (2 ^ w) sl x = cd (2 ^ w) sl bl + cd (2 ^ w) bl x))
    (hg_s : ss ∣ cd (2 ^ w) sl x → cd (2 ^ w) sl x ≤ cd (2 ^ w) sl su → g ∣ cd (2 ^ w) sl x)
    (hg_c : g ∣ cd (2 ^ w) sl bl) (hg_b : bs ∣ cd (2 ^ w) bl x → cd (2 ^ w) bl x ≤ cd (2 ^ w) bl bu → g ∣ cd (2 ^ w) bl x)
    (hg0 : g ≠ 0) : (SI.new w g (sl : Int) (bu : Int)).mem x := by
  rcases hxm with ⟨h1, h2⟩ | ⟨h1, h2⟩
  · exact mem_new_of w g sl bu x hsl hbu hx (hgeo.1 h1) (hg_s h2 h1) (fun h => absurd h hg0)
  · obtain ⟨h3, h4⟩ := hgeo.2 h1
    exact mem_new_of w g sl bu x hsl hbu hx h3 (by rw [h4]; exact Nat.dvd_add hg_c (hg_b h2 h1)) (fun h => absurd h hg0)

set_option maxHeartbeats 2000000 in
/-- **`pseudo_join` contains both arguments.** -/
theorem pseudoJoin_sup (s b : SI) (smart : Bool) (hs : s.WF) (hb : b.WF) (hbits : s.bits = b.bits) (x : Nat)
    (hx : s.mem x ∨ b.mem x) : (pseudoJoin s b smart).mem x := by
  have hm := two_pow_pos' s.bits
  obtain ⟨hs0, hsl, hsu, hss⟩ := hs
  obtain ⟨hb0, hbl, hbu, hbs⟩ := hb
  have hs' : s.WF := ⟨hs0, hsl, hsu, hss⟩
  have hb' : b.WF := ⟨hb0, hbl, hbu, hbs⟩
  rw [← hbits] at hbl hbu
  unfold pseudoJoin
  by_cases hsb : s.bottom = true
  · rw [if_pos hsb]
    cases hx with
    | inl h => exact absurd h.1 (by rw [hsb]; decide)
    | inr h => exact h
  · rw [if_neg hsb]
    by_cases hbb : b.bottom = true
    · rw [if_pos hbb]
      cases hx with
      | inl h => exact h
      | inr h => exact absurd h.1 (by rw [hbb]; decide)
    · rw [if_neg hbb]
      have hsbf : s.bottom = false := by simpa using hsb
      have hbbf : b.bottom = false := by simpa using hbb
      -- facts about x
      have hxfacts : x < 2 ^ s.bits ∧
          ((cd (2 ^ s.bits) s.lb x ≤ cd (2 ^ s.bits) s.lb s.ub ∧ s.stride ∣ cd (2 ^ s.bits) s.lb x) ∨
           (cd (2 ^ s.bits) b.lb x ≤ cd (2 ^ s.bits) b.lb b.ub ∧ b.stride ∣ cd (2 ^ s.bits) b.lb x)) := by
        cases hx with
        | inl h => have := mem_facts s x hs' h; exact ⟨this.2.1, Or.inl ⟨this.2.2.1, this.2.2.2⟩⟩
        | inr h => have := mem_facts b x hb' h; rw [← hbits] at this; exact ⟨this.2.1, Or.inr ⟨this.2.2.1, this.2.2.2⟩⟩
      obtain ⟨hxl, hxm⟩ := hxfacts
      by_cases hint : (s.isInteger && b.isInteger) = true
      · -- two integers
        rw [if_pos hint]
        have hi : s.lb = s.ub ∧ b.lb = b.ub := by simpa [SI.isInteger] using hint
        have hxe : x = s.lb ∨ x = b.lb := by
          rcases hxm with ⟨h1, _⟩ | ⟨h1, _⟩
          · left; rw [← hi.1, cd_self] at h1
            exact ((cd_eq_zero _ _ _ hsl hxl).1 (by omega)).symm
          · right; rw [← hi.2, cd_self] at h1
            exact ((cd_eq_zero _ _ _ hbl hxl).1 (by omega)).symm
        cases smart with
        | true =>
          simp only [if_true]
          rw [← hi.1, ← hi.2]
          -- the join of two integers p, q is [min, max] with stride max - min
          have key : ∀ (p q : Nat), p < 2 ^ s.bits → q < 2 ^ s.bits → p ≤ q → (x = p ∨ x = q) →
              (SI.new s.bits (imod ((q : Int) - (p : Int)) s.bits) (p : Int) (q : Int)).mem x := by
            intro p q hp hq hpq hxe'
            rw [imod_sub q p s.bits hq hp]
            apply mem_new_of _ _ _ _ x hp hq hxl
            · rcases hxe' with h | h
              · subst h; rw [cd_self]; omega
              · subst h; omega
            · rcases hxe' with h | h
              · subst h; rw [cd_self]; exact Nat.dvd_zero _
              · subst h; exact Nat.dvd_refl _
            · intro h0
              rcases hxe' with h | h
              · subst h; exact cd_self _ _
              · subst h; exact h0
          by_cases hpq : s.lb ≤ b.lb
          · simp only [Nat.max_def, Nat.min_def, if_pos hpq]
            exact key s.lb b.lb hsl hbl hpq hxe
          · have hqp : b.lb ≤ s.lb := by omega
            simp only [Nat.max_def, Nat.min_def, if_neg hpq]
            exact key b.lb s.lb hbl hsl hqp (Or.symm hxe)
        | false =>
          simp only [Bool.false_eq_true, if_false]
          have hst : imod ((b.ub : Int) - (s.lb : Int)) s.bits = cd (2 ^ s.bits) s.lb b.ub := imod_sub _ _ _ hbu hsl
          rw [hst]
          apply mem_new_of _ _ _ _ x hsl hbu hxl
          · rcases hxe with h | h
            · subst h; rw [cd_self]; omega
            · subst h; rw [hi.2]; omega
          · rcases hxe with h | h
            · subst h; rw [cd_self]; exact Nat.dvd_zero _
            · subst h; rw [hi.2]; exact Nat.dvd_refl _
          · intro h0
            rcases hxe with h | h
            · subst h; exact cd_self _ _
            · subst h; rw [hi.2]; exact h0
      · rw [if_neg hint]
        -- not both integers: at least one stride is non-zero
        have hnotboth : ¬ (s.lb = s.ub ∧ b.lb = b.ub) := by
          intro h; apply hint; simp [SI.isInteger, h.1, h.2]
        have hsint : s.isInteger = true ↔ s.lb = s.ub := isInteger_iff s
        have hbint : b.isInteger = true ↔ b.lb = b.ub := isInteger_iff b
        -- an integer operand contributes offset 0
        have hs_int_x : s.lb = s.ub → cd (2 ^ s.bits) s.lb x ≤ cd (2 ^ s.bits) s.lb s.ub → cd (2 ^ s.bits) s.lb x = 0 := by
          intro he h; rw [← he, cd_self] at h; omega
        have hb_int_x : b.lb = b.ub → cd (2 ^ s.bits) b.lb x ≤ cd (2 ^ s.bits) b.lb b.ub → cd (2 ^ s.bits) b.lb x = 0 := by
          intro he h; rw [← he, cd_self] at h; omega
        have Gsb_unf : G s b ↔ (cd (2 ^ s.bits) b.lb s.lb ≤ cd (2 ^ s.bits) b.lb b.ub ∧
            cd (2 ^ s.bits) b.lb s.ub ≤ cd (2 ^ s.bits) b.lb b.ub ∧
            ((b.lb = s.lb ∧ b.ub = s.ub) ∨ ¬ cd (2 ^ s.bits) s.lb b.lb ≤ cd (2 ^ s.bits) s.lb s.ub ∨
              ¬ cd (2 ^ s.bits) s.lb b.ub ≤ cd (2 ^ s.bits) s.lb s.ub)) := by
          unfold G sur; rw [← hbits]
        have Gbs_unf : G b s ↔ (cd (2 ^ s.bits) s.lb b.lb ≤ cd (2 ^ s.bits) s.lb s.ub ∧
            cd (2 ^ s.bits) s.lb b.ub ≤ cd (2 ^ s.bits) s.lb s.ub ∧
            ((s.lb = b.lb ∧ s.ub = b.ub) ∨ ¬ cd (2 ^ s.bits) b.lb s.lb ≤ cd (2 ^ s.bits) b.lb b.ub ∨
              ¬ cd (2 ^ s.bits) b.lb s.ub ≤ cd (2 ^ s.bits) b.lb b.ub)) := by
          unfold G sur; rw [← hbits]
        by_cases h2 : s.isSurrounded b = true
        · -- containment: s inside b
          rw [if_pos h2, modSub_nat s.lb b.lb s.bits hsl hbl]
          simp only []
          have hg0 : Nat.gcd (if (!s.isInteger) = true then Nat.gcd s.stride b.stride else b.stride)
              (cd (2 ^ s.bits) b.lb s.lb) ≠ 0 := by
            intro h0
            have h1 := Nat.eq_zero_of_gcd_eq_zero_left h0
            by_cases hsi : s.lb = s.ub
            · have : (!s.isInteger) = false := by simp [SI.isInteger, hsi]
              rw [this] at h1; simp only [Bool.false_eq_true, if_false] at h1
              exact hnotboth ⟨hsi, hbs.1 h1⟩
            · have : (!s.isInteger) = true := by simp [SI.isInteger, hsi]
              rw [this] at h1; simp only [if_true] at h1
              exact hsi (hss.1 (Nat.eq_zero_of_gcd_eq_zero_left h1))
          have hns_b : (if (!s.isInteger) = true then Nat.gcd s.stride b.stride else b.stride) ∣ b.stride := by
            split_ifs
            · exact Nat.gcd_dvd_right _ _
            · exact Nat.dvd_refl _
          rcases isSurrounded_true s b hs' hb' hbits hsbf h2 with htop | hG
          · obtain ⟨hst, hspan⟩ := isTop_facts b hb' htop
            rw [← hbits] at hspan
            have hone : Nat.gcd (if (!s.isInteger) = true then Nat.gcd s.stride b.stride else b.stride)
                (cd (2 ^ s.bits) b.lb s.lb) = 1 := by
              have : (if (!s.isInteger) = true then Nat.gcd s.stride b.stride else b.stride) = 1 := by
                rw [hst]; split_ifs <;> simp
              rw [this]; simp
            rw [hone]
            have := cd_lt _ _ _ hbl hxl
            exact mem_new_of _ 1 _ _ x hbl hbu hxl (by omega) (Nat.one_dvd _) (by intro h; cases h)
          · obtain ⟨c1, c2, c3⟩ := Gsb_unf.1 hG
            rcases hxm with ⟨h1, h3⟩ | ⟨h1, h3⟩
            · obtain ⟨k1, k2⟩ := contain_abs _ _ _ _ _ x hsl hsu hbl hbu hxl c1 c2 c3 h1
              apply mem_new_of _ _ _ _ x hbl hbu hxl k1
              · rw [k2]
                apply Nat.dvd_add (Nat.gcd_dvd_right _ _)
                by_cases hsi : s.lb = s.ub
                · rw [hs_int_x hsi h1]; exact Nat.dvd_zero _
                · have : (!s.isInteger) = true := by simp [SI.isInteger, hsi]
                  rw [this]; simp only [if_true]
                  exact Nat.dvd_trans (gcd3_dvd_a _ _ _) h3
              · intro h; exact absurd h hg0
            · apply mem_new_of _ _ _ _ x hbl hbu hxl h1
              · exact Nat.dvd_trans (Nat.dvd_trans (Nat.gcd_dvd_left _ _) hns_b) h3
              · intro h; exact absurd h hg0
        · rw [if_neg h2]
          by_cases h3 : b.isSurrounded s = true
          · -- containment: b inside s
            rw [if_pos h3, modSub_nat b.lb s.lb s.bits hbl hsl]
            simp only []
            have hg0 : Nat.gcd (if (!b.isInteger) = true then Nat.gcd s.stride b.stride else s.stride)
                (cd (2 ^ s.bits) s.lb b.lb) ≠ 0 := by
              intro h0
              have h1 := Nat.eq_zero_of_gcd_eq_zero_left h0
              by_cases hbi : b.lb = b.ub
              · have : (!b.isInteger) = false := by simp [SI.isInteger, hbi]
                rw [this] at h1; simp only [Bool.false_eq_true, if_false] at h1
                exact hnotboth ⟨hss.1 h1, hbi⟩
              · have : (!b.isInteger) = true := by simp [SI.isInteger, hbi]
                rw [this] at h1; simp only [if_true] at h1
                exact hbi (hbs.1 (Nat.eq_zero_of_gcd_eq_zero_right h1))
            have hns_s : (if (!b.isInteger) = true then Nat.gcd s.stride b.stride else s.stride) ∣ s.stride := by
              split_ifs
              · exact Nat.gcd_dvd_left _ _
              · exact Nat.dvd_refl _
            rcases isSurrounded_true b s hb' hs' hbits.symm hbbf h3 with htop | hG
            · obtain ⟨hst, hspan⟩ := isTop_facts s hs' htop
              have hone : Nat.gcd (if (!b.isInteger) = true then Nat.gcd s.stride b.stride else s.stride)
                  (cd (2 ^ s.bits) s.lb b.lb) = 1 := by
                have : (if (!b.isInteger) = true then Nat.gcd s.stride b.stride else s.stride) = 1 := by
                  rw [hst]; split_ifs <;> simp
                rw [this]; simp
              rw [hone]
              have := cd_lt _ _ _ hsl hxl
              exact mem_new_of _ 1 _ _ x hsl hsu hxl (by omega) (Nat.one_dvd _) (by intro h; cases h)
            · obtain ⟨c1, c2, c3⟩ := Gbs_unf.1 hG
              rcases hxm with ⟨h1, h4⟩ | ⟨h1, h4⟩
              · apply mem_new_of _ _ _ _ x hsl hsu hxl h1
                · exact Nat.dvd_trans (Nat.dvd_trans (Nat.gcd_dvd_left _ _) hns_s) h4
                · intro h; exact absurd h hg0
              · obtain ⟨k1, k2⟩ := contain_abs _ _ _ _ _ x hbl hbu hsl hsu hxl c1 c2 c3 h1
                apply mem_new_of _ _ _ _ x hsl hsu hxl k1
                · rw [k2]
                  apply Nat.dvd_add (Nat.gcd_dvd_right _ _)
                  by_cases hbi : b.lb = b.ub
                  · rw [hb_int_x hbi h1]; exact Nat.dvd_zero _
                  · have : (!b.isInteger) = true := by simp [SI.isInteger, hbi]
                    rw [this]; simp only [if_true]
                    exact Nat.dvd_trans (gcd3_dvd_b _ _ _) h4
                · intro h; exact absurd h hg0
          · rw [if_neg h3]
            -- neither contains the other: neither is TOP and the general clauses fail
            obtain ⟨hbt, hA⟩ := isSurrounded_false s b hs' hb' hbits hsbf h2
            obtain ⟨hstt, hB⟩ := isSurrounded_false b s hb' hs' hbits.symm hbbf h3
            have nGsb : ¬ G s b := by
              rcases hA with h | h
              · rw [hstt] at h; cases h
              · exact h
            have nGbs : ¬ G b s := by
              rcases hB with h | h
              · rw [hbt] at h; cases h
              · exact h
            rw [Gsb_unf] at nGsb
            rw [Gbs_unf] at nGbs
            -- the four membership tests of the bounds, as propositions
            have e1 := surrounds_sur s b.lb hs' hbl
            have e2 := surrounds_sur s b.ub hs' hbu
            have e3 := surrounds_sur b s.lb hb' (by rw [← hbits]; exact hsl)
            have e4 := surrounds_sur b s.ub hb' (by rw [← hbits]; exact hsu)
            unfold sur at e1 e2 e3 e4
            rw [← hbits] at e3 e4
            -- strides: not both zero
            have hgg : Nat.gcd s.stride b.stride ≠ 0 := by
              intro h0
              exact hnotboth ⟨hss.1 (Nat.eq_zero_of_gcd_eq_zero_left h0), hbs.1 (Nat.eq_zero_of_gcd_eq_zero_right h0)⟩
            by_cases h4 : (s.surroundsMember (b.lb : Int) && s.surroundsMember (b.ub : Int) &&
                b.surroundsMember (s.lb : Int) && b.surroundsMember (s.ub : Int)) = true
            · rw [if_pos h4]; exact (mem_top _ _).2 hxl
            · rw [if_neg h4]
              have n4 : ¬ (cd (2 ^ s.bits) s.lb b.lb ≤ cd (2 ^ s.bits) s.lb s.ub ∧
                  cd (2 ^ s.bits) s.lb b.ub ≤ cd (2 ^ s.bits) s.lb s.ub ∧
                  cd (2 ^ s.bits) b.lb s.lb ≤ cd (2 ^ s.bits) b.lb b.ub ∧
                  cd (2 ^ s.bits) b.lb s.ub ≤ cd (2 ^ s.bits) b.lb b.ub) := by
                intro ⟨a1, a2, a3, a4⟩
                apply h4
                simp only [Bool.and_eq_true]
                exact ⟨⟨⟨e1.2 a1, e2.2 a2⟩, e3.2 a3⟩, e4.2 a4⟩
              by_cases h5 : s.surroundsMember (b.lb : Int) = true
              · -- overlap: [s.lb, b.ub]
                rw [if_pos h5, modSub_nat b.lb s.lb s.bits hbl hsl]
                have geo := overlap_abs _ _ _ _ _ x hsl hsu hbl hbu hxl (e1.1 h5) nGsb nGbs n4
                apply arcUnion_mem s.bits _ s.lb s.ub b.lb b.ub x s.stride b.stride hsl hbu hxl hxm geo
                · intro hd _; exact Nat.dvd_trans (gcd3_dvd_a _ _ _) hd
                · exact gcd3_dvd_c _ _ _
                · intro hd _; exact Nat.dvd_trans (gcd3_dvd_b _ _ _) hd
                · intro h0; exact hgg (Nat.eq_zero_of_gcd_eq_zero_left h0)
              · rw [if_neg h5]
                by_cases h6 : b.surroundsMember (s.lb : Int) = true
                · -- overlap the other way round: [b.lb, s.ub]
                  rw [if_pos h6, modSub_nat s.lb b.lb s.bits hsl hbl]
                  have n4' : ¬ (cd (2 ^ s.bits) b.lb s.lb ≤ cd (2 ^ s.bits) b.lb b.ub ∧
                      cd (2 ^ s.bits) b.lb s.ub ≤ cd (2 ^ s.bits) b.lb b.ub ∧
                      cd (2 ^ s.bits) s.lb b.lb ≤ cd (2 ^ s.bits) s.lb s.ub ∧
                      cd (2 ^ s.bits) s.lb b.ub ≤ cd (2 ^ s.bits) s.lb s.ub) := by
                    intro ⟨a1, a2, a3, a4⟩; exact n4 ⟨a3, a4, a1, a2⟩
                  have geo := overlap_abs _ _ _ _ _ x hbl hbu hsl hsu hxl (e3.1 h6) nGbs nGsb n4'
                  apply arcUnion_mem s.bits _ b.lb b.ub s.lb s.ub x b.stride s.stride hbl hsu hxl (Or.symm hxm) geo
                  · intro hd _; exact Nat.dvd_trans (gcd3_dvd_b _ _ _) hd
                  · exact gcd3_dvd_c _ _ _
                  · intro hd _; exact Nat.dvd_trans (gcd3_dvd_a _ _ _) hd
                  · intro h0; exact hgg (Nat.eq_zero_of_gcd_eq_zero_left h0)
                · rw [if_neg h6]
                  -- disjoint arcs
                  have d1 : ¬ cd (2 ^ s.bits) s.lb b.lb ≤ cd (2 ^ s.bits) s.lb s.ub := fun h => h5 (e1.2 h)
                  have d2 : ¬ cd (2 ^ s.bits) b.lb s.lb ≤ cd (2 ^ s.bits) b.lb b.ub := fun h => h6 (e3.2 h)
                  have geo := disjoint_abs _ _ _ _ _ x hsl hsu hbl hbu hxl d1 d2
                  have geo' := disjoint_abs _ _ _ _ _ x hbl hbu hsl hsu hxl d2 d1
                  have wc1 : wrappedCard (s.lb : Int) (b.lb : Int) s.bits - 1 = cd (2 ^ s.bits) s.lb b.lb := by
                    rw [wrappedCard_nat _ _ _ hsl hbl]; omega
                  have wc2 : wrappedCard (b.lb : Int) (s.lb : Int) s.bits - 1 = cd (2 ^ s.bits) b.lb s.lb := by
                    rw [wrappedCard_nat _ _ _ hbl hsl]; omega
                  -- [s.lb, b.ub] with any stride dividing the offset and the strides of the non-integer operands
                  have memR : ∀ g, g ≠ 0 → g ∣ cd (2 ^ s.bits) s.lb b.lb → (s.lb ≠ s.ub → g ∣ s.stride) →
                      (b.lb ≠ b.ub → g ∣ b.stride) → (SI.new s.bits g (s.lb : Int) (b.ub : Int)).mem x := by
                    intro g hg0 hgc hgs hgb
                    apply arcUnion_mem s.bits g s.lb s.ub b.lb b.ub x s.stride b.stride hsl hbu hxl hxm geo
                    · intro hd hr
                      by_cases hsi : s.lb = s.ub
                      · rw [hs_int_x hsi hr]; exact Nat.dvd_zero _
                      · exact Nat.dvd_trans (hgs hsi) hd
                    · exact hgc
                    · intro hd hr
                      by_cases hbi : b.lb = b.ub
                      · rw [hb_int_x hbi hr]; exact Nat.dvd_zero _
                      · exact Nat.dvd_trans (hgb hbi) hd
                    · exact hg0
                  have memL : ∀ g, g ≠ 0 → g ∣ cd (2 ^ s.bits) b.lb s.lb → (s.lb ≠ s.ub → g ∣ s.stride) →
                      (b.lb ≠ b.ub → g ∣ b.stride) → (SI.new s.bits g (b.lb : Int) (s.ub : Int)).mem x := by
                    intro g hg0 hgc hgs hgb
                    apply arcUnion_mem s.bits g b.lb b.ub s.lb s.ub x b.stride s.stride hbl hsu hxl (Or.symm hxm) geo'
                    · intro hd hr
                      by_cases hbi : b.lb = b.ub
                      · rw [hb_int_x hbi hr]; exact Nat.dvd_zero _
                      · exact Nat.dvd_trans (hgb hbi) hd
                    · exact hgc
                    · intro hd hr
                      by_cases hsi : s.lb = s.ub
                      · rw [hs_int_x hsi hr]; exact Nat.dvd_zero _
                      · exact Nat.dvd_trans (hgs hsi) hd
                    · exact hg0
                  -- the base stride of the two cases
                  have base : ∀ (ns : Nat), (ns = if s.isInteger = true then b.stride else if b.isInteger = true then s.stride
                      else Nat.gcd s.stride b.stride) → ns ≠ 0 ∧ (s.lb ≠ s.ub → ns ∣ s.stride) ∧ (b.lb ≠ b.ub → ns ∣ b.stride) := by
                    intro ns hns
                    by_cases hsi : s.lb = s.ub
                    · have hbi : b.lb ≠ b.ub := fun h => hnotboth ⟨hsi, h⟩
                      rw [if_pos (hsint.2 hsi)] at hns
                      subst hns
                      exact ⟨fun h => hbi (hbs.1 h), fun h => absurd hsi h, fun _ => Nat.dvd_refl _⟩
                    · rw [if_neg (fun h => hsi (hsint.1 h))] at hns
                      by_cases hbi : b.lb = b.ub
                      · rw [if_pos (hbint.2 hbi)] at hns
                        subst hns
                        exact ⟨fun h => hsi (hss.1 h), fun _ => Nat.dvd_refl _, fun h => absurd hbi h⟩
                      · rw [if_neg (fun h => hbi (hbint.1 h))] at hns
                        subst hns
                        exact ⟨hgg, fun _ => Nat.gcd_dvd_left _ _, fun _ => Nat.gcd_dvd_right _ _⟩
                  cases smart with
                  | false =>
                    simp only [Bool.not_false, if_true]
                    rw [modSub_nat b.lb s.lb s.bits hbl hsl, wc1]
                    by_cases hsi : s.lb = s.ub
                    · have hbi : b.lb ≠ b.ub := fun h => hnotboth ⟨hsi, h⟩
                      rw [if_pos (hsint.2 hsi)]
                      exact memR _ (fun h => hbi (hbs.1 (Nat.eq_zero_of_gcd_eq_zero_left h))) (Nat.gcd_dvd_right _ _)
                        (fun h => absurd hsi h) (fun _ => Nat.gcd_dvd_left _ _)
                    · rw [if_neg (fun h => hsi (hsint.1 h))]
                      by_cases hbi : b.lb = b.ub
                      · rw [if_pos (hbint.2 hbi)]
                        exact memR _ (fun h => hsi (hss.1 (Nat.eq_zero_of_gcd_eq_zero_left h))) (Nat.gcd_dvd_right _ _)
                          (fun _ => Nat.gcd_dvd_left _ _) (fun h => absurd hbi h)
                      · rw [if_neg (fun h => hbi (hbint.1 h))]
                        exact memR _ (fun h => hgg (Nat.eq_zero_of_gcd_eq_zero_left h)) (gcd3_dvd_c _ _ _)
                          (fun _ => gcd3_dvd_a _ _ _) (fun _ => gcd3_dvd_b _ _ _)
                  | true =>
                    simp only [Bool.not_true, Bool.false_eq_true, if_false]
                    rw [wc1, wc2]
                    generalize hns : (if s.isInteger = true then b.stride else if b.isInteger = true then s.stride
                      else Nat.gcd s.stride b.stride) = ns
                    obtain ⟨b0, b1, b2⟩ := base ns hns.symm
                    split
                    · exact memL _ (fun h => b0 (Nat.eq_zero_of_gcd_eq_zero_left h)) (Nat.gcd_dvd_right _ _)
                        (fun h => Nat.dvd_trans (Nat.gcd_dvd_left _ _) (b1 h)) (fun h => Nat.dvd_trans (Nat.gcd_dvd_left _ _) (b2 h))
                    · exact memR _ (fun h => b0 (Nat.eq_zero_of_gcd_eq_zero_left h)) (Nat.gcd_dvd_right _ _)
                        (fun h => Nat.dvd_trans (Nat.gcd_dvd_left _ _) (b1 h)) (fun h => Nat.dvd_trans (Nat.gcd_dvd_left _ _) (b2 h))

theorem new_WF_nz (w g : Nat) (l u : Int) (hw : 0 < w) (hg : g ≠ 0) :
    (SI.new w g l u).WF ∧ (SI.new w g l u).bits = w :=
  ⟨new_WF w g l u hw (fun h => absurd h hg), new_bits w g l u⟩

/-- `pseudo_join` is closed under well-formedness and keeps the width. -/
theorem pseudoJoin_WF (s b : SI) (smart : Bool) (hs : s.WF) (hb : b.WF) (hbits : s.bits = b.bits) :
    (pseudoJoin s b smart).WF ∧ (pseudoJoin s b smart).bits = s.bits := by
  obtain ⟨hs0, hsl, hsu, hss⟩ := hs
  obtain ⟨hb0, hbl, hbu, hbs⟩ := hb
  have hs' : s.WF := ⟨hs0, hsl, hsu, hss⟩
  have hb' : b.WF := ⟨hb0, hbl, hbu, hbs⟩
  rw [← hbits] at hbl hbu
  unfold pseudoJoin
  by_cases hsb : s.bottom = true
  · rw [if_pos hsb]; exact ⟨hb', hbits.symm⟩
  · rw [if_neg hsb]
    by_cases hbb : b.bottom = true
    · rw [if_pos hbb]; exact ⟨hs', rfl⟩
    · rw [if_neg hbb]
      have hsint : s.isInteger = true ↔ s.lb = s.ub := isInteger_iff s
      have hbint : b.isInteger = true ↔ b.lb = b.ub := isInteger_iff b
      by_cases hint : (s.isInteger && b.isInteger) = true
      · rw [if_pos hint]
        have hi : s.lb = s.ub ∧ b.lb = b.ub := by simpa [SI.isInteger] using hint
        -- stride = distance between the two bounds: zero exactly when they coincide
        have key : ∀ (p q : Nat), p < 2 ^ s.bits → q < 2 ^ s.bits →
            (SI.new s.bits (imod ((q : Int) - (p : Int)) s.bits) (p : Int) (q : Int)).WF := by
          intro p q hp hq
          apply new_WF _ _ _ _ hs0
          rw [imod_sub q p s.bits hq hp, imod_of_lt p _ hp, imod_of_lt q _ hq]
          intro h0
          exact (cd_eq_zero _ _ _ hp hq).1 h0
        refine ⟨?_, new_bits _ _ _ _⟩
        cases smart with
        | true =>
          simp only [if_true]
          exact key _ _ (Nat.lt_of_le_of_lt (Nat.min_le_left _ _) hsl) (Nat.max_lt.2 ⟨hsu, hbu⟩)
        | false =>
          simp only [Bool.false_eq_true, if_false]
          exact key _ _ hsl hbu
      · rw [if_neg hint]
        have hnotboth : ¬ (s.lb = s.ub ∧ b.lb = b.ub) := by
          intro h; apply hint; simp [SI.isInteger, h.1, h.2]
        have hgg : Nat.gcd s.stride b.stride ≠ 0 := by
          intro h0
          exact hnotboth ⟨hss.1 (Nat.eq_zero_of_gcd_eq_zero_left h0), hbs.1 (Nat.eq_zero_of_gcd_eq_zero_right h0)⟩
        have base : ∀ (ns : Nat), (ns = if s.isInteger = true then b.stride else if b.isInteger = true then s.stride
            else Nat.gcd s.stride b.stride) → ns ≠ 0 := by
          intro ns hns
          by_cases hsi : s.lb = s.ub
          · have hbi : b.lb ≠ b.ub := fun h => hnotboth ⟨hsi, h⟩
            rw [if_pos (hsint.2 hsi)] at hns; subst hns; exact fun h => hbi (hbs.1 h)
          · rw [if_neg (fun h => hsi (hsint.1 h))] at hns
            by_cases hbi : b.lb = b.ub
            · rw [if_pos (hbint.2 hbi)] at hns; subst hns; exact fun h => hsi (hss.1 h)
            · rw [if_neg (fun h => hbi (hbint.1 h))] at hns; subst hns; exact hgg
        by_cases h2 : s.isSurrounded b = true
        · rw [if_pos h2]
          simp only []
          apply new_WF_nz _ _ _ _ hs0
          intro h0
          have h1 := Nat.eq_zero_of_gcd_eq_zero_left h0
          by_cases hsi : s.lb = s.ub
          · have : (!s.isInteger) = false := by simp [SI.isInteger, hsi]
            rw [this] at h1; simp only [Bool.false_eq_true, if_false] at h1
            exact hnotboth ⟨hsi, hbs.1 h1⟩
          · have : (!s.isInteger) = true := by simp [SI.isInteger, hsi]
            rw [this] at h1; simp only [if_true] at h1
            exact hsi (hss.1 (Nat.eq_zero_of_gcd_eq_zero_left h1))
        · rw [if_neg h2]
          by_cases h3 : b.isSurrounded s = true
          · rw [if_pos h3]
            simp only []
            apply new_WF_nz _ _ _ _ hs0
            intro h0
            have h1 := Nat.eq_zero_of_gcd_eq_zero_left h0
            by_cases hbi : b.lb = b.ub
            · have : (!b.isInteger) = false := by simp [SI.isInteger, hbi]
              rw [this] at h1; simp only [Bool.false_eq_true, if_false] at h1
              exact hnotboth ⟨hss.1 h1, hbi⟩
            · have : (!b.isInteger) = true := by simp [SI.isInteger, hbi]
              rw [this] at h1; simp only [if_true] at h1
              exact hbi (hbs.1 (Nat.eq_zero_of_gcd_eq_zero_right h1))
          · rw [if_neg h3]
            split
            · exact ⟨top_WF _ hs0, top_bits _⟩
            · split
              · exact new_WF_nz _ _ _ _ hs0 (fun h => hgg (Nat.eq_zero_of_gcd_eq_zero_left h))
              · split
                · exact new_WF_nz _ _ _ _ hs0 (fun h => hgg (Nat.eq_zero_of_gcd_eq_zero_left h))
                · cases smart with
                  | false =>
                    simp only [Bool.not_false, if_true]
                    apply new_WF_nz _ _ _ _ hs0
                    by_cases hsi : s.lb = s.ub
                    · have hbi : b.lb ≠ b.ub := fun h => hnotboth ⟨hsi, h⟩
                      rw [if_pos (hsint.2 hsi)]
                      exact fun h => hbi (hbs.1 (Nat.eq_zero_of_gcd_eq_zero_left h))
                    · rw [if_neg (fun h => hsi (hsint.1 h))]
                      by_cases hbi : b.lb = b.ub
                      · rw [if_pos (hbint.2 hbi)]
                        exact fun h => hsi (hss.1 (Nat.eq_zero_of_gcd_eq_zero_left h))
                      · rw [if_neg (fun h => hbi (hbint.1 h))]
                        exact fun h => hgg (Nat.eq_zero_of_gcd_eq_zero_left h)
                  | true =>
                    simp only [Bool.not_true, Bool.false_eq_true, if_false]
                    generalize hns : (if s.isInteger = true then b.stride else if b.isInteger = true then s.stride
                      else Nat.gcd s.stride b.stride) = ns
                    have b0 := base ns hns.symm
                    split
                    · exact new_WF_nz _ _ _ _ hs0 (fun h => b0 (Nat.eq_zero_of_gcd_eq_zero_left h))
                    · exact new_WF_nz _ _ _ _ hs0 (fun h => b0 (Nat.eq_zero_of_gcd_eq_zero_left h))

/-- `pseudo_join` satisfies the obligation `collapse`/`union`/`If` rely on -/
theorem pseudoJoin_ok (w : Nat) (a b : SI) (ha : a.WF ∧ a.bits = w) (hb : b.WF ∧ b.bits = w) (smart : Bool) :
    ((pseudoJoin a b smart).WF ∧ (pseudoJoin a b smart).bits = w) ∧
      ∀ x, (a.mem x ∨ b.mem x) → (pseudoJoin a b smart).mem x := by
  have hbits : a.bits = b.bits := by rw [ha.2, hb.2]
  obtain ⟨h1, h2⟩ := pseudoJoin_WF a b smart ha.1 hb.1 hbits
  exact ⟨⟨h1, by rw [h2, ha.2]⟩, fun x hx => pseudoJoin_sup a b smart ha.1 hb.1 hbits x hx⟩

end Claripy.VSA
