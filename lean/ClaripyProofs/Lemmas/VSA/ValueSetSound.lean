import ClaripyProofs.Lemmas.VSA.SetOpsSound3
import ClaripyProofs.Lemmas.VSA.AlignedMul
/-! `ValueSet.union` / `intersection` (with an interval, with a value set) are sound region by region. -/
namespace Claripy.VSA

/-- every region of the result of `mapRegions` is the image of the region with the same name -/
theorem mapRegions_entry (v v' : VS) (op : SI → R SI) (h : v.mapRegions op = .ok v') (p : String × SI) (hp : p ∈ v.regions) :
    ∃ r, op p.2 = .ok r ∧ (p.1, r) ∈ v'.regions := by
  unfold VS.mapRegions at h
  cases hm : v.regions.mapM (onRegion op) with
  | error e => rw [hm] at h; cases h
  | ok regs =>
    rw [hm] at h
    simp only [] at h
    cases hs : op v.si with
    | error e => rw [hs] at h; cases h
    | ok s' =>
      rw [hs] at h
      simp only [] at h
      have hv : v' = { v with regions := regs, si := s' } := by injection h with h3; exact h3.symm
      subst hv
      obtain ⟨q, hq, hqo⟩ := mapM_ok_mem _ _ _ hm p hp
      unfold onRegion at hqo
      cases hop2 : op p.2 with
      | error e => rw [hop2] at hqo; cases hqo
      | ok r =>
        rw [hop2] at hqo
        simp only [] at hqo
        have hqe : q = (p.1, r) := by injection hqo with h3; exact h3.symm
        subst hqe
        exact ⟨r, rfl, hq⟩

/-- **`valueset.union(interval)`**: every region contains its old offsets and the interval -/
theorem vs_unionSI (w : Nat) (v v' : VS) (b : SI) (hv : ∀ p, p ∈ v.regions → WFw w p.2) (hb : WFw w b)
    (h : v.unionSI b = .ok v') (region : String) (x : Nat)
    (hx : v.memAt region x ∨ ((∃ p, p ∈ v.regions ∧ p.1 = region) ∧ b.mem x)) : v'.memAt region x := by
  unfold VS.unionSI at h
  rcases hx with ⟨p, hp, hreg, hm⟩ | ⟨⟨p, hp, hreg⟩, hm⟩
  · obtain ⟨r, hr, hin⟩ := mapRegions_entry v v' _ h p hp
    exact ⟨(p.1, r), hin, hreg, (union_sup w p.2 b r (hv p hp) hb hr).2 x (Or.inl hm)⟩
  · obtain ⟨r, hr, hin⟩ := mapRegions_entry v v' _ h p hp
    exact ⟨(p.1, r), hin, hreg, (union_sup w p.2 b r (hv p hp) hb hr).2 x (Or.inr hm)⟩

/-- **`valueset.intersection(interval)`**: every region keeps the offsets that are also in the interval (aligned, normal
operands: the guard of the interval meet) -/
theorem vs_meetSI (w : Nat) (v v' : VS) (b : SI) (hv : ∀ p, p ∈ v.regions → NEa w p.2) (hb : NEa w b)
    (h : v.meetSI b = .ok v') (region : String) (x : Nat) (hx : v.memAt region x) (hbx : b.mem x) : v'.memAt region x := by
  unfold VS.meetSI at h
  obtain ⟨regs, hregs, h⟩ := bind_ok' h
  obtain ⟨si, _, h⟩ := bind_ok' h
  have hv' := pure_ok' h
  subst hv'
  obtain ⟨p, hp, hreg, hm⟩ := hx
  obtain ⟨q, hq, hqo⟩ := mapM_ok_mem _ _ _ hregs p hp
  unfold onRegion at hqo
  simp only [] at hqo
  cases hop2 : p.2.intersection b with
  | error e => rw [hop2] at hqo; cases hqo
  | ok r =>
    rw [hop2] at hqo
    simp only [] at hqo
    have hqe : q = (p.1, r) := by injection hqo with h3; exact h3.symm
    subst hqe
    have hr := (meet_sound w p.2 b r (NE_WFw (hv p hp).1) (NE_WFw hb.1) (hv p hp).1.nb hb.1.nb (hv p hp).2.2 hb.2.2
      (hv p hp).2.1 hb.2.1 hop2).2 x hm hbx
    refine ⟨(p.1, r), ?_, hreg, hr⟩
    show (p.1, r) ∈ regs.filter (fun p => !p.2.bottom)
    rw [List.mem_filter]
    exact ⟨hq, by simp [hr.1]⟩

/-! ### dict lemmas -/

theorem dictGet_none (l : List (String × SI)) (k : String) (h : dictGet l k = none) : ∀ p, p ∈ l → p.1 ≠ k := by
  unfold dictGet at h
  have hf : l.find? (fun p => p.1 == k) = none := by
    cases hfi : l.find? (fun p => p.1 == k) with
    | none => rfl
    | some q => rw [hfi] at h; cases h
  intro p hp he
  have := List.find?_eq_none.1 hf p hp
  simp [he] at this

theorem dictSet_new : ∀ (l : List (String × SI)) (k : String) (s : SI), (k, s) ∈ dictSet l k s
  | [], k, s => by simp [dictSet]
  | p :: ps, k, s => by
    unfold dictSet
    split
    · exact List.mem_cons_self
    · exact List.mem_cons_of_mem _ (dictSet_new ps k s)

/-- assignment keeps every entry except the first one with that key -/
theorem dictSet_keep : ∀ (l : List (String × SI)) (k : String) (s : SI) (q : String × SI), q ∈ l →
    q ∈ dictSet l k s ∨ (q.1 = k ∧ dictGet l k = some q.2)
  | [], _, _, q, hq => by cases hq
  | p :: ps, k, s, q, hq => by
    unfold dictSet
    by_cases hpk : (p.1 == k) = true
    · rw [if_pos hpk]
      rcases List.mem_cons.1 hq with he | he
      · right
        subst he
        refine ⟨by simpa using hpk, ?_⟩
        unfold dictGet
        simp only [List.find?_cons, hpk]; rfl
      · left; exact List.mem_cons_of_mem _ he
    · rw [if_neg hpk]
      rcases List.mem_cons.1 hq with he | he
      · left; subst he; exact List.mem_cons_self
      · rcases dictSet_keep ps k s q he with h1 | ⟨h1, h2⟩
        · left; exact List.mem_cons_of_mem _ h1
        · right
          refine ⟨h1, ?_⟩
          unfold dictGet at h2 ⊢
          have hf : (p.1 == k) = false := by simpa using hpk
          simp only [List.find?_cons, hf]; exact h2

theorem dictSet_sub : ∀ (l : List (String × SI)) (k : String) (s : SI) (q : String × SI), q ∈ dictSet l k s →
    q ∈ l ∨ q = (k, s)
  | [], k, s, q, hq => by simp [dictSet] at hq; exact Or.inr hq
  | p :: ps, k, s, q, hq => by
    unfold dictSet at hq
    split at hq
    · rcases List.mem_cons.1 hq with he | he
      · exact Or.inr he
      · exact Or.inl (List.mem_cons_of_mem _ he)
    · rcases List.mem_cons.1 hq with he | he
      · left; rw [he]; exact List.mem_cons_self
      · rcases dictSet_sub ps k s q he with h1 | h1
        · exact Or.inl (List.mem_cons_of_mem _ h1)
        · exact Or.inr h1

theorem dictGet_mem (l : List (String × SI)) (k : String) (s : SI) (h : dictGet l k = some s) : (k, s) ∈ l := by
  unfold dictGet at h
  cases hf : l.find? (fun p => p.1 == k) with
  | none => rw [hf] at h; cases h
  | some q =>
    rw [hf] at h
    have hq := List.mem_of_find?_eq_some hf
    have hk := List.find?_some hf
    have e1 : q.1 = k := by simpa using hk
    have e2 : q.2 = s := by simpa using h
    have : q = (k, s) := by cases q; simp_all
    rw [← this]; exact hq

/-! ### union of two value sets -/

theorem vsUnionStep_sound (w : Nat) (bsi : SI) (acc acc' : VS) (p : String × SI)
    (hacc : ∀ q, q ∈ acc.regions → WFw w q.2) (hp : WFw w p.2)
    (h : vsCombineStep SI.union bsi acc p = .ok acc') :
    (∀ q, q ∈ acc'.regions → WFw w q.2) ∧
    (∀ region x, acc.memAt region x → acc'.memAt region x) ∧ ∀ x, p.2.mem x → acc'.memAt p.1 x := by
  unfold vsCombineStep at h
  obtain ⟨regs, hregs, h⟩ := bind_ok' h
  obtain ⟨si, _, h⟩ := bind_ok' h
  have hv := pure_ok' h
  subst hv
  cases hg : dictGet acc.regions p.1 with
  | none =>
    rw [hg] at hregs
    have hr := pure_ok' hregs
    subst hr
    refine ⟨?_, ?_, ?_⟩
    · intro q hq
      rcases dictSet_sub _ _ _ q hq with h1 | h1
      · exact hacc q h1
      · rw [h1]; exact hp
    · intro region x ⟨q, hq, hreg, hm⟩
      rcases dictSet_keep acc.regions p.1 p.2 q hq with h1 | ⟨_, h2⟩
      · exact ⟨q, h1, hreg, hm⟩
      · rw [hg] at h2; cases h2
    · intro x hx
      exact ⟨(p.1, p.2), dictSet_new _ _ _, rfl, hx⟩
  | some s =>
    rw [hg] at hregs
    obtain ⟨u, hu, hregs⟩ := bind_ok' hregs
    have hr := pure_ok' hregs
    subst hr
    have hs : WFw w s := hacc (p.1, s) (dictGet_mem _ _ _ hg)
    obtain ⟨g1, g2⟩ := union_sup w s p.2 u hs hp hu
    refine ⟨?_, ?_, ?_⟩
    · intro q hq
      rcases dictSet_sub _ _ _ q hq with h1 | h1
      · exact hacc q h1
      · rw [h1]; exact g1
    · intro region x ⟨q, hq, hreg, hm⟩
      rcases dictSet_keep acc.regions p.1 u q hq with h1 | ⟨h1, h2⟩
      · exact ⟨q, h1, hreg, hm⟩
      · rw [hg] at h2
        have e : s = q.2 := by injection h2
        exact ⟨(p.1, u), dictSet_new _ _ _, by rw [← hreg, h1], g2 x (Or.inl (by rw [e]; exact hm))⟩
    · intro x hx
      exact ⟨(p.1, u), dictSet_new _ _ _, rfl, g2 x (Or.inr hx)⟩

/-- **`valueset.union(valueset)`**: every region of either operand is contained in the region of the result -/
theorem vs_unionVS (w : Nat) (v b r : VS) (hv : ∀ q, q ∈ v.regions → WFw w q.2) (hb : ∀ q, q ∈ b.regions → WFw w q.2)
    (h : v.unionVS b = .ok r) (region : String) (x : Nat) (hx : v.memAt region x ∨ b.memAt region x) : r.memAt region x := by
  unfold VS.unionVS at h
  have key : ∀ (ps : List (String × SI)) (acc r : VS), (∀ q, q ∈ acc.regions → WFw w q.2) → (∀ q, q ∈ ps → WFw w q.2) →
      vsFold (vsCombineStep SI.union b.si) acc ps = .ok r →
      ∀ region x, (acc.memAt region x ∨ ∃ p, p ∈ ps ∧ p.1 = region ∧ p.2.mem x) → r.memAt region x := by
    intro ps
    induction ps with
    | nil =>
      intro acc r _ _ h region x hx
      unfold vsFold at h
      have := pure_ok' h
      subst this
      rcases hx with hx | ⟨p, hp, _⟩
      · exact hx
      · cases hp
    | cons p ps ih =>
      intro acc r hacc hps h region x hx
      unfold vsFold at h
      obtain ⟨acc', hacc', h⟩ := bind_ok' h
      obtain ⟨g1, g2, g3⟩ := vsUnionStep_sound w b.si acc acc' p hacc (hps p List.mem_cons_self) hacc'
      apply ih acc' r g1 (fun q hq => hps q (List.mem_cons_of_mem _ hq)) h region x
      rcases hx with hx | ⟨q, hq, hreg, hm⟩
      · exact Or.inl (g2 region x hx)
      · rcases List.mem_cons.1 hq with he | he
        · subst he; left; rw [← hreg]; exact g3 x hm
        · exact Or.inr ⟨q, he, hreg, hm⟩
  exact key b.regions v r hv hb h region x (by
    rcases hx with hx | ⟨p, hp, hreg, hm⟩
    · exact Or.inl hx
    · exact Or.inr ⟨p, hp, hreg, hm⟩)

end Claripy.VSA
