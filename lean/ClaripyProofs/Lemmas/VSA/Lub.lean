import ClaripyProofs.Lemmas.VSA.JoinSound
import ClaripyProofs.Lemmas.VSA.Lift
/-! `least_upper_bound` and `union` contain every argument; `JoinOK` holds for `pseudo_join`. -/
namespace Claripy.VSA

/-- the invariant carried through joins: well formed, of width `w` -/
def WFw (w : Nat) (s : SI) : Prop := s.WF ∧ s.bits = w

/-- the C22 obligation used by C23 (`collapse`, `normalize`) is discharged -/
theorem joinOK (w : Nat) : JoinOK (WFw w) := fun a b ha hb => pseudoJoin_ok w a b ha hb true

theorem renorm_mem (s : SI) (hs : s.WF) (x : Nat) : s.renorm.mem x ↔ s.mem x := by
  unfold SI.renorm
  by_cases hb : s.bottom = true
  · rw [if_pos hb]
  · rw [if_neg hb]
    obtain ⟨_, hl, hu, _⟩ := hs
    rw [mem_new, mem_iff _ _ hl hu, imod_of_lt _ _ hl, imod_of_lt _ _ hu]
    simp [hb]

theorem renorm_WFw (w : Nat) (s : SI) (hs : WFw w s) : WFw w s.renorm := by
  unfold SI.renorm
  by_cases hb : s.bottom = true
  · rw [if_pos hb]; exact hs
  · rw [if_neg hb]
    obtain ⟨⟨h0, hl, hu, hst⟩, hbits⟩ := hs
    refine ⟨new_WF _ _ _ _ h0 ?_, by rw [new_bits]; exact hbits⟩
    intro h
    rw [imod_of_lt _ _ hl, imod_of_lt _ _ hu]
    exact hst.1 h

/-! ### sorting and rotating keep the elements -/

theorem mem_insertByLb (x y : SI) : ∀ l : List SI, y ∈ insertByLb x l ↔ (y = x ∨ y ∈ l) := by
  intro l
  induction l with
  | nil => simp [insertByLb]
  | cons a t ih =>
    unfold insertByLb
    split
    · simp
    · simp only [List.mem_cons, ih]
      constructor
      · rintro (h | h | h)
        · exact Or.inr (Or.inl h)
        · exact Or.inl h
        · exact Or.inr (Or.inr h)
      · rintro (h | h | h)
        · exact Or.inr (Or.inl h)
        · exact Or.inl h
        · exact Or.inr (Or.inr h)

theorem mem_foldl_insert (l : List SI) : ∀ (acc : List SI) (y : SI),
    y ∈ l.foldl (fun acc x => insertByLb x acc) acc ↔ (y ∈ acc ∨ y ∈ l) := by
  induction l with
  | nil => intro acc y; simp
  | cons a t ih =>
    intro acc y
    rw [List.foldl_cons, ih, mem_insertByLb]
    simp only [List.mem_cons]
    constructor
    · rintro ((h | h) | h)
      · exact Or.inr (Or.inl h)
      · exact Or.inl h
      · exact Or.inr (Or.inr h)
    · rintro (h | h | h)
      · exact Or.inl (Or.inr h)
      · exact Or.inl (Or.inl h)
      · exact Or.inr h

theorem mem_sortByLb (l : List SI) (y : SI) : y ∈ sortByLb l ↔ y ∈ l := by
  unfold sortByLb
  rw [mem_foldl_insert]
  simp

theorem mem_rotate (l : List SI) (i : Nat) (y : SI) : y ∈ l.drop i ++ l.take i ↔ y ∈ l := by
  rw [List.mem_append]
  constructor
  · rintro (h | h)
    · exact List.mem_of_mem_drop h
    · exact List.mem_of_mem_take h
  · intro h
    rw [← List.take_append_drop i l] at h
    rcases List.mem_append.1 h with h | h
    · exact Or.inr h
    · exact Or.inl h

/-- a fold of the ordered join over a non-empty list contains every element's members -/
theorem reduceJoin_sup (w : Nat) (l : List SI) (r : SI) (hP : ∀ s, s ∈ l → WFw w s) (h : reduceJoin l = some r) :
    WFw w r ∧ ∀ x, memL l x → r.mem x := by
  cases l with
  | nil => cases h
  | cons a t =>
    unfold reduceJoin at h
    have hr : r = t.foldl (fun acc y => pseudoJoin acc y false) a := by injection h with h'; exact h'.symm
    subst hr
    have hJ : ∀ p q, WFw w p → WFw w q → WFw w (pseudoJoin p q false) ∧ ∀ x, (p.mem x ∨ q.mem x) → (pseudoJoin p q false).mem x :=
      fun p q hp hq => pseudoJoin_ok w p q hp hq false
    obtain ⟨h1, h2⟩ := foldl_join_sup (fun acc y => pseudoJoin acc y false) (WFw w) hJ t a
      (hP a List.mem_cons_self) (fun s hs => hP s (List.mem_cons_of_mem _ hs))
    refine ⟨h1, ?_⟩
    intro x ⟨s, hs, hm⟩
    apply h2
    cases hs with
    | head => exact Or.inl hm
    | tail _ hs' => exact Or.inr ⟨s, hs', hm⟩

/-- picking by `n_values` returns one of the candidates -/
theorem pick_mem (c : SI) (cs : List SI) :
    cs.foldl (fun ret si => if ret.nValues > si.nValues then si else ret) c ∈ c :: cs := by
  induction cs generalizing c with
  | nil => simp
  | cons a t ih =>
    rw [List.foldl_cons]
    have := ih (if c.nValues > a.nValues then a else c)
    rcases List.mem_cons.1 this with h | h
    · rw [h]
      split
      · exact List.mem_cons_of_mem _ List.mem_cons_self
      · exact List.mem_cons_self
    · exact List.mem_cons_of_mem _ (List.mem_cons_of_mem _ h)

/-- **`least_upper_bound` contains every argument** (any number of arguments, all widths) -/
theorem lub_sup (w : Nat) (l : List SI) (r : SI) (hP : ∀ s, s ∈ l → WFw w s) (h : leastUpperBound l = .ok r) :
    WFw w r ∧ ∀ x, memL l x → r.mem x := by
  unfold leastUpperBound at h
  match l, hP, h with
  | [], _, h => cases h
  | [a], hP, h =>
    have hr : r = a.renorm := by injection h with h'; exact h'.symm
    subst hr
    have ha := hP a List.mem_cons_self
    refine ⟨renorm_WFw w a ha, ?_⟩
    intro x ⟨s, hs, hm⟩
    cases hs with
    | head => exact (renorm_mem a ha.1 x).2 hm
    | tail _ h' => cases h'
  | [a, b], hP, h =>
    have hr : r = pseudoJoin a b true := by injection h with h'; exact h'.symm
    subst hr
    have ha := hP a List.mem_cons_self
    have hb := hP b (List.mem_cons_of_mem _ List.mem_cons_self)
    obtain ⟨h1, h2⟩ := pseudoJoin_ok w a b ha hb true
    refine ⟨h1, ?_⟩
    intro x ⟨s, hs, hm⟩
    apply h2
    cases hs with
    | head => exact Or.inl hm
    | tail _ h' =>
      cases h' with
      | head => exact Or.inr hm
      | tail _ h'' => cases h''
  | a :: b :: c :: t, hP, h =>
    simp only [] at h
    generalize hl : (a :: b :: c :: t) = l at *
    -- every candidate is the ordered join of a rotation of the sorted list
    have hcand : ∀ cand, cand ∈ (List.range (sortByLb l).length).filterMap
        (fun i => reduceJoin ((sortByLb l).drop i ++ (sortByLb l).take i)) →
        WFw w cand ∧ ∀ x, memL l x → cand.mem x := by
      intro cand hc
      obtain ⟨i, _, hi⟩ := List.mem_filterMap.1 hc
      have hP' : ∀ s, s ∈ (sortByLb l).drop i ++ (sortByLb l).take i → WFw w s := by
        intro s hs
        exact hP s ((mem_sortByLb l s).1 ((mem_rotate _ i s).1 hs))
      obtain ⟨h1, h2⟩ := reduceJoin_sup w _ cand hP' hi
      refine ⟨h1, ?_⟩
      intro x ⟨s, hs, hm⟩
      exact h2 x ⟨s, (mem_rotate _ i s).2 ((mem_sortByLb l s).2 hs), hm⟩
    split at h
    · cases h
    · rename_i c0 cs hcs
      have hr : r = cs.foldl (fun ret si => if ret.nValues > si.nValues then si else ret) c0 := by
        injection h with h'; exact h'.symm
      subst hr
      have := pick_mem c0 cs
      rw [← hcs] at this
      exact hcand _ this

/-- `union` (with DSIS disabled, the default) contains both operands -/
theorem union_sup (w : Nat) (a b r : SI) (ha : WFw w a) (hb : WFw w b) (h : a.union b = .ok r) :
    WFw w r ∧ ∀ x, (a.mem x ∨ b.mem x) → r.mem x := by
  unfold SI.union at h
  have hP : ∀ s, s ∈ [a, b] → WFw w s := by
    intro s hs
    cases hs with
    | head => exact ha
    | tail _ h' =>
      cases h' with
      | head => exact hb
      | tail _ h'' => cases h''
  obtain ⟨h1, h2⟩ := lub_sup w [a, b] r hP h
  refine ⟨h1, ?_⟩
  intro x hx
  apply h2
  cases hx with
  | inl hm => exact ⟨a, List.mem_cons_self, hm⟩
  | inr hm => exact ⟨b, List.mem_cons_of_mem _ List.mem_cons_self, hm⟩

end Claripy.VSA
