import ClaripyProofs.Lemmas.VSA.BalancerLoop
/-!
The loop `_balance` (model `balLoop`): an invariant that every arm keeps is kept by the loop.  Instances: the truism still
HOLDS (arms other than `+` / `-`; every arm for `==` / `!=`), and the truism is a ROTATION of the original one (only `+` / `-`).
-/
set_option linter.unusedSectionVars false
namespace Claripy.VSA.Bal
open Claripy.VSA

/-! ### a symbolic result comes from a symbolic input -/

theorem foldBV_sym_back (e : BV) (h : symBV (foldBV e) = true) : symBV e = true := by
  unfold foldBV asConst at h
  by_cases hs : symBV e = true
  · exact hs
  · rw [if_neg hs] at h
    cases he : evalBV (fun _ => 0) e with
    | none => rw [he] at h; exact h
    | some v => rw [he] at h; simp [symBV] at h

theorem alignBV_sym_back (anno : Nat → SI) (e l' : BV) (h : alignBV anno e = .ok l') (hs : symBV l' = true) : symBV e = true := by
  unfold alignBV at h
  split at h
  · rename_i a b
    obtain ⟨ca, _, h⟩ := bindM_ok h
    obtain ⟨cb, _, h⟩ := bindM_ok h
    by_cases hle : cb ≤ ca
    · rw [if_pos hle] at h; have := pureM_ok h; subst this; exact hs
    · rw [if_neg hle] at h
      obtain ⟨cnb, _, h⟩ := bindM_ok h
      obtain ⟨ca', _, h⟩ := bindM_ok h
      have hres := pureM_ok h
      have key : ∀ x y, (symBV (foldBV (.bin .add x y)) = true) → (symBV x = true ∨ symBV y = true) := by
        intro x y hxy
        have := foldBV_sym_back _ hxy
        simpa [symBV] using this
      have hnb : symBV (foldBV (.neg b)) = true → symBV b = true := fun hh => by
        have := foldBV_sym_back _ hh; simpa [symBV] using this
      by_cases hgt : ca' > cnb
      · rw [if_pos hgt] at hres; subst hres
        rcases key _ _ hs with h1 | h1
        · simp [symBV, h1]
        · simp [symBV, hnb h1]
      · rw [if_neg hgt] at hres; subst hres
        rcases key _ _ hs with h1 | h1
        · simp [symBV, hnb h1]
        · simp [symBV, h1]
  · rename_i op a b _
    by_cases hc : isCommutative op = true
    · rw [if_pos hc] at h
      obtain ⟨ca, _, h⟩ := bindM_ok h
      obtain ⟨cb, _, h⟩ := bindM_ok h
      have hres := pureM_ok h
      by_cases hgt : cb > ca
      · rw [if_pos hgt] at hres; subst hres
        have := foldBV_sym_back _ hs
        simp only [symBV] at this ⊢; rw [Bool.or_comm]; exact this
      · rw [if_neg hgt] at hres; subst hres; exact hs
    · rw [if_neg hc] at h; have := pureM_ok h; subst this; exact hs
  · have := pureM_ok h; subst this; exact hs

theorem alignTru_sym_back (anno : Nat → SI) (t ta : Tru) (h : alignTru anno t = .ok ta) (hs : symBV ta.lhs = true) :
    symBV t.lhs = true := by
  unfold alignTru at h
  obtain ⟨_, _, h⟩ := bindM_ok h
  obtain ⟨l', hl', h⟩ := bindM_ok h
  obtain ⟨b', _, h⟩ := bindM_ok h
  obtain ⟨b, _, h⟩ := bindM_ok h
  have hres := pureM_ok h
  by_cases hbb : b' = b
  · rw [if_pos hbb] at hres; subst hres
    exact alignBV_sym_back anno t.lhs l' hl' hs
  · rw [if_neg hbb] at hres; subst hres; exact hs

/-- every arm returns the truism, or one whose left side is an operand of the old left side (or a literal) -/
theorem balStep_sym_back (anno : Nat → SI) (t t' : Tru) (h : balStep anno t = .ok t') (hs : symBV t'.lhs = true) :
    symBV t.lhs = true := by
  unfold balStep at h
  split at h
  · -- add
    rename_i a b hl
    rw [hl]; simp only [symBV, Bool.or_eq_true]
    unfold balAdd at h
    split_ifs at h
    · obtain ⟨_, _, h⟩ := bindM_ok h; have := pureM_ok h; subst this; exact Or.inl hs
    · have := pureM_ok h; subst this; rw [hl] at hs; simpa [symBV] using hs
    · obtain ⟨_, _, h⟩ := bindM_ok h; have := pureM_ok h; subst this; exact Or.inl hs
    · obtain ⟨_, _, h⟩ := bindM_ok h; have := pureM_ok h; subst this; exact Or.inr hs
  · rename_i a b hl
    rw [hl]; simp only [symBV, Bool.or_eq_true]
    unfold balSub at h
    split_ifs at h
    · have := pureM_ok h; subst this; rw [hl] at hs; simpa [symBV] using hs
    · obtain ⟨_, _, h⟩ := bindM_ok h; have := pureM_ok h; subst this; exact Or.inl hs
  · rename_i k e hl
    rw [hl]; simp only [symBV]
    have := pureM_ok h; subst this
    unfold balZext at hs
    split_ifs at hs
    · exact hs
    · rw [hl] at hs; simpa [symBV] using hs
  · rename_i k e hl
    rw [hl]; simp only [symBV]
    unfold balSext at h
    obtain ⟨_, _, h⟩ := bindM_ok h
    have := pureM_ok h; subst this
    split_ifs at hs
    · exact hs
    · rw [hl] at hs; simpa [symBV] using hs
  · rename_i hi lo e hl
    rw [hl]; simp only [symBV]
    unfold balExtract at h
    obtain ⟨_, _, h⟩ := bindM_ok h
    obtain ⟨_, _, h⟩ := bindM_ok h
    dsimp only at h
    split_ifs at h <;> (have := pureM_ok h; subst this) <;> first | exact hs | (rw [hl] at hs; simpa [symBV] using hs)
  · rename_i a b hl
    rw [hl]; simp only [symBV, Bool.or_eq_true]
    have := pureM_ok h; subst this
    rcases balAnd_cases t a b with h1 | h1 | ⟨_, _, _, _, _, _, _, _, _, h1⟩
    · rw [h1, hl] at hs; simpa [symBV] using hs
    · rw [h1] at hs; cases hs
    · rw [h1] at hs; exact Or.inl hs
  · rename_i a b hl
    rw [hl]; simp only [symBV, Bool.or_eq_true]
    unfold balConcat at h
    obtain ⟨_, _, h⟩ := bindM_ok h
    have := pureM_ok h; subst this
    split_ifs at hs
    · exact Or.inr hs
    · rw [hl] at hs; simpa [symBV] using hs
  · rename_i e amt hl
    rw [hl]; simp only [symBV, Bool.or_eq_true]
    have back : symBV t.lhs = true → symBV e = true ∨ symBV amt = true := fun hh => by rw [hl] at hh; simpa [symBV] using hh
    unfold balShl at h
    obtain ⟨vals, _, h⟩ := bindM_ok h
    rcases vals with _ | ⟨n0, _ | ⟨n1, rest⟩⟩
    · have := pureM_ok h; subst this; exact back hs
    · dsimp only at h
      by_cases h0 : n0.toNat = 0
      · rw [if_pos h0] at h; have := pureM_ok h; subst this; exact Or.inl hs
      · rw [if_neg h0] at h
        by_cases h1 : n0.toNat ≥ wd e ∨ isSigned t.op = true
        · rw [if_pos h1] at h; have := pureM_ok h; subst this; exact back hs
        · rw [if_neg h1] at h
          obtain ⟨ok, _, h⟩ := bindM_ok h
          cases ok
          · simp only [Bool.not_false, if_true] at h; have := pureM_ok h; subst this; exact back hs
          · simp only [Bool.not_true, Bool.false_eq_true, if_false] at h
            by_cases h2 : Conc.extract (n0.toNat - 1) 0 t.r = 0
            · rw [if_pos h2] at h; have := pureM_ok h; subst this; exact Or.inl hs
            · rw [if_neg h2] at h; have := pureM_ok h; subst this; exact back hs
    · have := pureM_ok h; subst this; exact back hs
  · have := pureM_ok h; subst this; exact hs

theorem balLoop_sym_back (anno : Nat → SI) : ∀ (fuel : Nat) (t : Tru) (um up : Bool) (out : BalOut),
    balLoop anno fuel t um up = .ok out → symBV out.t.lhs = true → symBV t.lhs = true
  | 0, _, _, _, _, h, _ => by cases h
  | n + 1, t, um, up, out, h, hs => by
    unfold balLoop at h
    obtain ⟨ta, hta, h⟩ := bindM_ok h
    by_cases harm : (!hasArm ta.lhs) = true
    · rw [if_pos harm] at h
      have := pureM_ok h; subst this; exact hs
    · rw [if_neg harm] at h
      obtain ⟨t', ht', h⟩ := bindM_ok h
      by_cases heq : t' = ta
      · rw [if_pos heq] at h
        have := pureM_ok h; subst this
        exact alignTru_sym_back anno t ta hta hs
      · rw [if_neg heq] at h
        have h1 := balLoop_sym_back anno n t' _ _ out h hs
        have h2 := balStep_sym_back anno ta t' ht' h1
        exact alignTru_sym_back anno t ta hta h2

/-- the flags only grow -/
theorem balLoop_flags (anno : Nat → SI) : ∀ (fuel : Nat) (t : Tru) (um up : Bool) (out : BalOut),
    balLoop anno fuel t um up = .ok out → (um = true → out.usedMod = true) ∧ (up = true → out.usedPt = true)
  | 0, _, _, _, _, h => by cases h
  | n + 1, t, um, up, out, h => by
    unfold balLoop at h
    obtain ⟨ta, _, h⟩ := bindM_ok h
    by_cases harm : (!hasArm ta.lhs) = true
    · rw [if_pos harm] at h
      have := pureM_ok h; subst this; exact ⟨id, id⟩
    · rw [if_neg harm] at h
      obtain ⟨t', _, h⟩ := bindM_ok h
      by_cases heq : t' = ta
      · rw [if_pos heq] at h
        have := pureM_ok h; subst this; exact ⟨id, id⟩
      · rw [if_neg heq] at h
        obtain ⟨h1, h2⟩ := balLoop_flags anno n t' _ _ out h
        exact ⟨fun hh => h1 (by simp [hh]), fun hh => h2 (by simp [hh])⟩

section
variable (anno : Nat → SI) (env : Nat → Nat)

/-- **the loop keeps every invariant that the alignment and the permitted arms keep** -/
theorem balLoop_inv (Inv : Tru → Prop) (allowMod allowPt : Prop)
    (h_align : ∀ t ta, TruOK anno env t → Inv t → alignTru anno t = .ok ta → Inv ta ∧ TruOK anno env ta ∧
        ∃ p, convBV anno ta.lhs [] = .ok p)
    (h_step : ∀ ta t', TruOK anno env ta → (∃ p, convBV anno ta.lhs [] = .ok p) → Inv ta → balStep anno ta = .ok t' →
        symBV t'.lhs = true → (if isModLhs ta.lhs = true then allowMod else allowPt) → TruOK anno env t' ∧ Inv t') :
    ∀ (fuel : Nat) (t : Tru) (um up : Bool) (out : BalOut), TruOK anno env t → Inv t →
      balLoop anno fuel t um up = .ok out → symBV out.t.lhs = true →
      (out.usedMod = true → allowMod) → (out.usedPt = true → allowPt) → TruOK anno env out.t ∧ Inv out.t
  | 0, _, _, _, _, _, _, h, _, _, _ => by cases h
  | n + 1, t, um, up, out, hok, hinv, h, hs, hM, hP => by
    unfold balLoop at h
    obtain ⟨ta, hta, h⟩ := bindM_ok h
    obtain ⟨hinva, hoka, hconv⟩ := h_align t ta hok hinv hta
    by_cases harm : (!hasArm ta.lhs) = true
    · rw [if_pos harm] at h
      have := pureM_ok h; subst this; exact ⟨hok, hinv⟩
    · rw [if_neg harm] at h
      obtain ⟨t', ht', h⟩ := bindM_ok h
      by_cases heq : t' = ta
      · rw [if_pos heq] at h
        have := pureM_ok h; subst this; exact ⟨hoka, hinva⟩
      · rw [if_neg heq] at h
        have hs' := balLoop_sym_back anno n t' _ _ out h hs
        obtain ⟨f1, f2⟩ := balLoop_flags anno n t' _ _ out h
        have hallow : if isModLhs ta.lhs = true then allowMod else allowPt := by
          by_cases hm : isModLhs ta.lhs = true
          · rw [if_pos hm]; exact hM (f1 (by simp [hm]))
          · rw [if_neg hm]
            have hm' : isModLhs ta.lhs = false := by simpa using hm
            exact hP (f2 (by simp [hm']))
        obtain ⟨hok', hinv'⟩ := h_step ta t' hoka hconv hinva ht' hs' hallow
        exact balLoop_inv Inv allowMod allowPt h_align h_step n t' _ _ out hok' hinv' h hs hM hP

end


theorem isModLhs_cases (e : BV) (h : isModLhs e = true) :
    (∃ a b, e = .bin .add a b) ∨ (∃ a b, e = .bin .sub a b) := by
  cases e with
  | bin op a b => cases op <;> simp [isModLhs] at h <;> first | exact Or.inl ⟨a, b, rfl⟩ | exact Or.inr ⟨a, b, rfl⟩
  | _ => simp [isModLhs] at h

theorem balStep_add (anno : Nat → SI) (t : Tru) (a b : BV) (h : t.lhs = .bin .add a b) : balStep anno t = balAdd t a b := by
  unfold balStep; rw [h]
theorem balStep_sub (anno : Nat → SI) (t : Tru) (a b : BV) (h : t.lhs = .bin .sub a b) : balStep anno t = balSub t a b := by
  unfold balStep; rw [h]

theorem eqne_uns (op : CmpOp) (h : op = .eq ∨ op = .ne) : unsOp op = true := by rcases h with h | h <;> rw [h] <;> rfl

section
variable (anno : Nat → SI) (env : Nat → Nat) (hctx : ∀ i, (anno i).WF ∧ (anno i).mem (env i)) (hnrm : ∀ i, Nrm (anno i))
include hctx hnrm

/-- one arm other than `+` / `-` keeps "the truism holds" (unsigned orderings, `==`, `!=`) -/
theorem balStep_holds (ta t' : Tru) (hok : TruOK anno env ta) (hconv : ∃ p, convBV anno ta.lhs [] = .ok p)
    (hop : unsOp ta.op = true) (hh : ta.holds env) (h : balStep anno ta = .ok t') (hs : symBV t'.lhs = true)
    (hallow : if isModLhs ta.lhs = true then (ta.op = .eq ∨ ta.op = .ne) else True) :
    TruOK anno env t' ∧ t'.op = ta.op ∧ t'.holds env := by
  have opz : ∀ k e, (balZext ta k e).op = ta.op := by intro k e; unfold balZext; split_ifs <;> rfl
  unfold balStep at h
  split at h
  · rename_i a b hl
    rw [hl] at hallow
    simp only [isModLhs, if_true] at hallow
    rcases balAdd_rot anno env hctx hnrm ta t' a b hl hok hconv h hs with h1 | ⟨h1, h2, h3⟩
    · subst h1; exact ⟨hok, rfl, hh⟩
    · obtain ⟨v', hv'⟩ := exprOK_val anno env _ h1.ok
      exact ⟨h1, h2.1, Rot_eq_holds env ta t' hallow hok.r_lt h2 hh v' hv' (h3 v' hv')⟩
  · rename_i a b hl
    rw [hl] at hallow
    simp only [isModLhs, if_true] at hallow
    rcases balSub_rot anno env hctx hnrm ta t' a b hl hok hconv h hs with h1 | ⟨h1, h2, h3⟩
    · subst h1; exact ⟨hok, rfl, hh⟩
    · obtain ⟨v', hv'⟩ := exprOK_val anno env _ h1.ok
      exact ⟨h1, h2.1, Rot_eq_holds env ta t' hallow hok.r_lt h2 hh v' hv' (h3 v' hv')⟩
  · rename_i k e hl
    have := pureM_ok h; subst this
    obtain ⟨h1, h2⟩ := balZext_pt anno env hctx hnrm ta k e hl hok hop hh hs
    exact ⟨h1, opz k e, h2⟩
  · rename_i k e hl
    obtain ⟨h1, h2⟩ := balSext_pt anno env hctx hnrm ta t' k e hl hok hop hh h hs
    refine ⟨h1, ?_, h2⟩
    unfold balSext at h
    obtain ⟨_, _, h⟩ := bindM_ok h
    have := pureM_ok h; subst this
    split_ifs <;> rfl
  · rename_i hi lo e hl
    obtain ⟨h1, h2⟩ := balExtract_pt anno env hctx hnrm ta t' hi lo e hl hok hop hconv hh h hs
    refine ⟨h1, ?_, h2⟩
    unfold balExtract at h
    obtain ⟨_, _, h⟩ := bindM_ok h
    obtain ⟨_, _, h⟩ := bindM_ok h
    dsimp only at h
    split_ifs at h <;> (have := pureM_ok h; subst this; rfl)
  · rename_i a b hl
    have := pureM_ok h; subst this
    obtain ⟨h1, h2⟩ := balAnd_pt anno env hctx hnrm ta a b hl hok hconv hh hs
    refine ⟨h1, ?_, h2⟩
    rcases balAnd_cases ta a b with h3 | h3 | ⟨_, _, _, _, _, _, _, _, _, h3⟩
    · rw [h3]
    · rw [h3] at hs; cases hs
    · rw [h3]
  · rename_i a b hl
    obtain ⟨h1, h2⟩ := balConcat_pt anno env hctx hnrm ta t' a b hl hok hop hh h hs
    refine ⟨h1, ?_, h2⟩
    unfold balConcat at h
    obtain ⟨_, _, h⟩ := bindM_ok h
    have := pureM_ok h; subst this
    split_ifs <;> rfl
  · rename_i e amt hl
    obtain ⟨h1, h2⟩ := balShl_pt anno env hctx hnrm ta t' e amt hl hok hop hconv hh h hs
    refine ⟨h1, ?_, h2⟩
    unfold balShl at h
    obtain ⟨vals, _, h⟩ := bindM_ok h
    rcases vals with _ | ⟨n0, _ | ⟨n1, rest⟩⟩
    · have := pureM_ok h; subst this; rfl
    · dsimp only at h
      by_cases h0 : n0.toNat = 0
      · rw [if_pos h0] at h; have := pureM_ok h; subst this; rfl
      · rw [if_neg h0] at h
        by_cases h1 : n0.toNat ≥ wd e ∨ isSigned ta.op = true
        · rw [if_pos h1] at h; have := pureM_ok h; subst this; rfl
        · rw [if_neg h1] at h
          obtain ⟨ok, _, h⟩ := bindM_ok h
          cases ok
          · simp only [Bool.not_false, if_true] at h; have := pureM_ok h; subst this; rfl
          · simp only [Bool.not_true, Bool.false_eq_true, if_false] at h
            by_cases h2 : Conc.extract (n0.toNat - 1) 0 ta.r = 0
            · rw [if_pos h2] at h; have := pureM_ok h; subst this; rfl
            · rw [if_neg h2] at h; have := pureM_ok h; subst this; rfl
    · have := pureM_ok h; subst this; rfl
  · have := pureM_ok h; subst this
    exact ⟨hok, rfl, hh⟩

/-- **`_balance` keeps "the truism holds"** when no constant is moved across `+` / `-` (unsigned orderings), and always
for `==` / `!=` -/
theorem balance1_holds (t : Tru) (out : BalOut) (hok : TruOK anno env t) (hop : unsOp t.op = true) (hh : t.holds env)
    (h : balance1 anno t = .ok out) (hs : symBV out.t.lhs = true)
    (hcov : out.usedMod = true → (t.op = .eq ∨ t.op = .ne)) :
    TruOK anno env out.t ∧ out.t.op = t.op ∧ out.t.holds env := by
  unfold balance1 at h
  have := balLoop_inv anno env (fun u => u.op = t.op ∧ u.holds env) (t.op = .eq ∨ t.op = .ne) True
    (by
      intro u ua hoku ⟨ho, hhu⟩ hal
      obtain ⟨h1, h2, h3, h4, h5, h6⟩ := alignTru_spec anno env u ua hoku hal
      refine ⟨⟨by rw [h1, ho], ?_⟩, h5, h6⟩
      obtain ⟨v, hv, hc⟩ := hhu
      exact ⟨v, by rw [h4]; exact hv, by rw [h1, h2, h3]; exact hc⟩)
    (by
      intro ua u' hoku hconv ⟨ho, hhu⟩ hst hsu hallow
      have hallow' : if isModLhs ua.lhs = true then (ua.op = .eq ∨ ua.op = .ne) else True := by
        by_cases hm : isModLhs ua.lhs = true
        · rw [if_pos hm] at hallow ⊢; rw [ho]; exact hallow
        · rw [if_neg hm]; trivial
      obtain ⟨h1, h2, h3⟩ := balStep_holds anno env hctx hnrm ua u' hoku hconv (by rw [ho]; exact hop) hhu hst hsu hallow'
      exact ⟨h1, by rw [h2, ho], h3⟩)
    _ t false false out hok ⟨rfl, hh⟩ h hs hcov (fun _ => trivial)
  exact ⟨this.1, this.2.1, this.2.2⟩

/-- **`_balance` that only moves constants across `+` / `-` rotates the truism** -/
theorem balance1_rot (t : Tru) (out : BalOut) (hok : TruOK anno env t)
    (hrange : ∀ v, evalBV env t.lhs = some v → v < 2 ^ t.w)
    (h : balance1 anno t = .ok out) (hs : symBV out.t.lhs = true) (hcov : out.usedPt = false) :
    TruOK anno env out.t ∧ Rot env t out.t ∧ ∀ v, evalBV env out.t.lhs = some v → v < 2 ^ t.w := by
  unfold balance1 at h
  exact balLoop_inv anno env (fun u => Rot env t u ∧ ∀ v, evalBV env u.lhs = some v → v < 2 ^ t.w) True False
    (by
      intro u ua hoku ⟨hrot, hrg⟩ hal
      obtain ⟨h1, h2, h3, h4, h5, h6⟩ := alignTru_spec anno env u ua hoku hal
      refine ⟨⟨?_, fun v hv => hrg v (by rw [← h4]; exact hv)⟩, h5, h6⟩
      obtain ⟨r1, r2, c, hc, r3, r4⟩ := hrot
      exact ⟨by rw [h1, r1], by rw [h3, r2], c, hc, by rw [h2, r3], fun v' hv' hlt => r4 v' (by rw [← h4]; exact hv') hlt⟩)
    (by
      intro ua u' hoku hconv ⟨hrot, hrg⟩ hst hsu hallow
      by_cases hm : isModLhs ua.lhs = true
      · have hwu : ua.w = t.w := hrot.2.1
        have key : u' = ua ∨ (TruOK anno env u' ∧ Rot env ua u' ∧ ∀ v', evalBV env u'.lhs = some v' → v' < 2 ^ ua.w) := by
          rcases isModLhs_cases ua.lhs hm with ⟨a, b, hl⟩ | ⟨a, b, hl⟩
          · rw [balStep_add anno ua a b hl] at hst
            exact balAdd_rot anno env hctx hnrm ua u' a b hl hoku hconv hst hsu
          · rw [balStep_sub anno ua a b hl] at hst
            exact balSub_rot anno env hctx hnrm ua u' a b hl hoku hconv hst hsu
        rcases key with h1 | ⟨h1, h2, h3⟩
        · subst h1; exact ⟨hoku, hrot, hrg⟩
        · refine ⟨h1, Rot_trans env t ua u' hok.r_lt hrot h2 ?_, fun v hv => by rw [← hwu]; exact h3 v hv⟩
          intro v'' _ _
          obtain ⟨v', hv'⟩ := exprOK_val anno env _ hoku.ok
          exact ⟨v', hv', hrg v' hv'⟩
      · rw [if_neg hm] at hallow; exact hallow.elim)
    _ t false false out hok ⟨Rot_refl env t hok.r_lt, hrange⟩ h hs (fun _ => trivial) (fun hh => by rw [hcov] at hh; cases hh)

end

end Claripy.VSA.Bal
