import ClaripyProofs.Lemmas.VSA.Cmp
/-! `udiv` is sound (division by zero exempt) and closed, for every iteration order of its set of partial results. -/
namespace Claripy.VSA

theorem empty_WFw (w : Nat) (hw : 0 < w) : WFw w (SI.empty w) := by
  have : 2 ≤ 2 ^ w := by
    have : 2 ^ 1 ≤ 2 ^ w := Nat.pow_le_pow_right (by omega) hw
    simpa using this
  refine ⟨⟨hw, ?_, ?_, ?_⟩, rfl⟩
  · show 0 < 2 ^ w; omega
  · show maxInt w < 2 ^ w; unfold maxInt; omega
  · show (1 = 0 ↔ 0 = maxInt w); unfold maxInt; constructor <;> intro h <;> omega

/-- `_wrapped_unsigned_div` on two non-wrapping pieces -/
theorem wudiv_piece (w : Nat) (p q : SI) (hp : WFw w p) (hq : WFw w q) (hw : 0 < w) (hple : p.lb ≤ p.ub) (hqle : q.lb ≤ q.ub) :
    WFw w (wrappedUnsignedDiv p q) ∧
      ∀ x y, p.mem x → q.mem y → y ≠ 0 → (wrappedUnsignedDiv p q).mem (x / y) := by
  have hbits : Nat.max p.bits q.bits = w := by rw [hp.2, hq.2]; exact Nat.max_self _
  unfold wrappedUnsignedDiv
  simp only [hbits]
  by_cases hz : q.lb = 0 ∧ q.ub = 0
  · rw [if_pos hz]
    refine ⟨empty_WFw w hw, ?_⟩
    intro x y _ hy hy0
    obtain ⟨h1, h2⟩ := mem_between q w hq hqle y hy
    omega
  · rw [if_neg hz]
    refine ⟨⟨new_WF _ _ _ _ hw (by intro h; cases h), new_bits _ _ _ _⟩, ?_⟩
    intro x y hx hy hy0
    obtain ⟨hx1, hx2⟩ := mem_between p w hp hple x hx
    obtain ⟨hy1, hy2⟩ := mem_between q w hq hqle y hy
    have hpu : p.ub < 2 ^ w := by have := hp.1.2.2.1; rw [hp.2] at this; exact this
    have hqu : q.ub < 2 ^ w := by have := hq.1.2.2.1; rw [hq.2] at this; exact this
    have hqub : q.ub ≠ 0 := by omega
    have hdub : (if q.ub = 0 then maxInt w else q.ub) = q.ub := by rw [if_neg hqub]
    rw [hdub]
    have hlo : p.lb / q.ub ≤ x / y := Nat.div_le_div hx1 hy2 hy0
    have hdlb : (if q.lb = 0 then 1 else q.lb) ≤ y ∧ (if q.lb = 0 then 1 else q.lb) ≠ 0 := by
      split_ifs <;> omega
    have hhi : x / y ≤ p.ub / (if q.lb = 0 then 1 else q.lb) := Nat.div_le_div hx2 hdlb.1 hdlb.2
    have hhilt : p.ub / (if q.lb = 0 then 1 else q.lb) < 2 ^ w := Nat.lt_of_le_of_lt (Nat.div_le_self _ _) hpu
    generalize hlo' : p.lb / q.ub = lo at hlo
    generalize hhi' : p.ub / (if q.lb = 0 then 1 else q.lb) = hi at hhi hhilt
    generalize hz' : x / y = z at hlo hhi
    apply mem_new_of w 1 lo hi z (by omega) hhilt (by omega)
    · unfold cd; split_ifs <;> omega
    · exact Nat.one_dvd _
    · intro h; cases h

/-- **`udiv` is sound and closed** -/
theorem udiv_sound (s o r : SI) (order : List Nat) (hs : s.WF) (ho : o.WF) (hbits : s.bits = o.bits)
    (hsb : s.bottom = false) (hob : o.bottom = false) (h : s.udiv o order = .ok r) :
    WFw s.bits r ∧ ∀ x y, s.mem x → o.mem y → y ≠ 0 → r.mem (x / y) := by
  obtain ⟨ds, hds, hdp, hdc, _⟩ := ssplit_spec s hs hsb
  obtain ⟨vs, hvs, hvp, hvc, _⟩ := ssplit_spec o ho hob
  unfold SI.udiv at h
  rw [hds, hvs] at h
  simp only [bind, Except.bind] at h
  generalize hrs : (ds.map fun d => vs.map fun v => wrappedUnsignedDiv d v).flatten = rs at h
  cases hperm : permute (dedupe rs) order with
  | none => rw [hperm] at h; cases h
  | some l =>
    rw [hperm] at h
    simp only [] at h
    cases hlub : leastUpperBound l with
    | error e => rw [hlub] at h; cases h
    | ok u =>
      rw [hlub] at h
      have hr : r = u.renorm := by cases h; rfl
      subst hr
      -- every partial result is well formed
      have hrsP : ∀ t, t ∈ rs → WFw s.bits t := by
        intro t ht
        rw [← hrs, List.mem_flatten] at ht
        obtain ⟨row, hrow, htr⟩ := ht
        obtain ⟨d, hd, hde⟩ := List.mem_map.1 hrow
        subst hde
        obtain ⟨v, hv, hve⟩ := List.mem_map.1 htr
        subst hve
        obtain ⟨hdw, _, hdle, _⟩ := hdp d hd
        obtain ⟨hvw, _, hvle, _⟩ := hvp v hv
        rw [← hbits] at hvw
        exact (wudiv_piece s.bits d v hdw hvw hs.1 hdle hvle).1
      have hlP : ∀ t, t ∈ l → WFw s.bits t := by
        intro t ht
        unfold permute at hperm
        split at hperm
        · cases hperm
        · have hl' : l = order.filterMap fun i => (dedupe rs)[i]? := by cases hperm; rfl
          subst hl'
          obtain ⟨i, _, hi⟩ := List.mem_filterMap.1 ht
          exact hrsP t (dedupe_subset _ t (List.mem_of_getElem? hi))
      obtain ⟨hu1, hu2⟩ := lub_sup s.bits l u hlP hlub
      refine ⟨renorm_WFw _ u hu1, ?_⟩
      intro x y hx hy hy0
      obtain ⟨d, hd, hdx⟩ := hdc x hx
      obtain ⟨v, hv, hvy⟩ := hvc y hy
      obtain ⟨hdw, _, hdle, _⟩ := hdp d hd
      obtain ⟨hvw, _, hvle, _⟩ := hvp v hv
      rw [← hbits] at hvw
      have hmem := (wudiv_piece s.bits d v hdw hvw hs.1 hdle hvle).2 x y hdx hvy hy0
      apply (renorm_mem u hu1.1 _).2
      apply hu2
      refine ⟨wrappedUnsignedDiv d v, ?_, hmem⟩
      apply permute_mem _ _ _ hperm
      apply dedupe_mem
      rw [← hrs, List.mem_flatten]
      exact ⟨_, List.mem_map.2 ⟨d, hd, rfl⟩, List.mem_map.2 ⟨v, hv, rfl⟩⟩

end Claripy.VSA
