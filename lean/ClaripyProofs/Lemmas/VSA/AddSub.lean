import ClaripyProofs.Lemmas.VSA.Mem
/-! Soundness and closure of `add`, `sub`, `neg`. -/
namespace Claripy.VSA

theorem wrappedCard_nat (x y w : Nat) (hx : x < 2 ^ w) (hy : y < 2 ^ w) :
    wrappedCard (x : Int) (y : Int) w = cd (2 ^ w) x y + 1 := by
  have hm := two_pow_pos' w
  unfold wrappedCard
  have hcast : ((y : Int) + 1) % ((2 ^ w : Nat) : Int) = (((y + 1) % 2 ^ w : Nat) : Int) := by
    rw [Int.natCast_emod]; push_cast; rfl
  rw [hcast]
  have h2 : imod ((y : Int) - x + 1) w = (cd (2 ^ w) x y + 1) % 2 ^ w := by
    have : (y : Int) - x + 1 = (y : Int) - x + ((1 : Nat) : Int) := by push_cast; rfl
    unfold imod
    rw [this, ← Int.emod_add_emod]
    have h3 := imod_sub y x w hy hx
    unfold imod at h3
    have h4 : ((y : Int) - x) % ((2 ^ w : Nat) : Int) = ((cd (2 ^ w) x y : Nat) : Int) := by
      have hnn : 0 ≤ ((y : Int) - x) % ((2 ^ w : Nat) : Int) := Int.emod_nonneg _ (by omega)
      omega
    rw [h4]
    have : ((cd (2 ^ w) x y : Nat) : Int) + ((1 : Nat) : Int) = ((cd (2 ^ w) x y + 1 : Nat) : Int) := by push_cast; rfl
    rw [this, ← Int.natCast_emod]
    exact Int.toNat_natCast _
  rw [h2, succ_mod_cases _ _ hy]
  have hlt := cd_lt _ _ _ hx hy
  unfold cd at *
  split_ifs at * <;> first | omega | (rw [Nat.mod_eq_of_lt (by omega)])

/-- the cardinality `_wrapped_overflow_add` counts for one operand -/
theorem overflow_false (a b : SI) (ha : a.WF) (hb : b.WF) (hbits : a.bits = b.bits)
    (h : wrappedOverflowAdd a b = false) :
    cd (2 ^ a.bits) a.lb a.ub + cd (2 ^ a.bits) b.lb b.ub < 2 ^ a.bits := by
  obtain ⟨ha0, hal, hau, has⟩ := ha
  obtain ⟨hb0, hbl, hbu, hbs⟩ := hb
  rw [← hbits] at hbl hbu
  have hm := two_pow_pos' a.bits
  unfold wrappedOverflowAdd at h
  simp only [decide_eq_false_iff_not, Nat.not_lt] at h
  rw [← hbits, wrappedCard_nat _ _ _ hal hau, wrappedCard_nat _ _ _ hbl hbu] at h
  unfold maxInt at h
  have e1 : (a.isInteger && a.lb == 0) = true ↔ (a.lb = a.ub ∧ a.lb = 0) := by simp [SI.isInteger]
  have e2 : (b.isInteger && b.lb == 0) = true ↔ (b.lb = b.ub ∧ b.lb = 0) := by simp [SI.isInteger]
  have ca := (cd_eq_zero (2 ^ a.bits) a.lb a.ub hal hau)
  have cb := (cd_eq_zero (2 ^ a.bits) b.lb b.ub hbl hbu)
  by_cases h1 : (a.isInteger && a.lb == 0) = true <;> by_cases h2 : (b.isInteger && b.lb == 0) = true
  · have := ca.2 (e1.1 h1).1; have := cb.2 (e2.1 h2).1; omega
  · rw [if_pos h1, if_neg h2] at h; have := ca.2 (e1.1 h1).1; omega
  · rw [if_neg h1, if_pos h2] at h; have := cb.2 (e2.1 h2).1; omega
  · rw [if_neg h1, if_neg h2] at h; omega

theorem dvd_of_stride (s d : Nat) (g : Nat) (hg : g ∣ s) (h : if s = 0 then d = 0 else d % s = 0) : g ∣ d := by
  split_ifs at h with h0
  · subst h; exact Nat.dvd_zero _
  · exact Nat.dvd_trans hg (Nat.dvd_of_mod_eq_zero h)

theorem stride_cond_of_dvd (g d : Nat) (h : g ∣ d) (h0 : g = 0 → d = 0) : if g = 0 then d = 0 else d % g = 0 := by
  split_ifs with hg
  · exact h0 hg
  · exact Nat.mod_eq_zero_of_dvd h

/-- distances add up on the circle as long as their sum stays below the circumference -/
theorem cd_add (m l1 l2 x y : Nat) (h1 : l1 < m) (h2 : l2 < m) (hx : x < m) (hy : y < m)
    (hs : cd m l1 x + cd m l2 y < m) :
    cd m ((l1 + l2) % m) ((x + y) % m) = cd m l1 x + cd m l2 y := by
  rw [add_mod_cases _ _ _ h1 h2, add_mod_cases _ _ _ hx hy]
  unfold cd at hs ⊢
  split_ifs at hs ⊢ <;> omega

/-- `add` is sound: the sum of members is a member of the abstract sum. -/
theorem add_sound (a b : SI) (x y : Nat) (hbits : a.bits = b.bits) (ha : a.WF) (hb : b.WF)
    (hx : a.mem x) (hy : b.mem y) : (a.add b).mem ((x + y) % 2 ^ a.bits) := by
  have hm := two_pow_pos' a.bits
  unfold SI.add
  by_cases ov : wrappedOverflowAdd a b = true
  · simp only [ov, if_true]
    rw [mem_top]; exact Nat.mod_lt _ hm
  · have ov' : wrappedOverflowAdd a b = false := by simpa using ov
    have hsum := overflow_false a b ha hb hbits ov'
    simp only [ov', Bool.false_eq_true, if_false, ← hbits, Nat.max_self]
    obtain ⟨ha0, hal, hau, has⟩ := ha
    obtain ⟨hb0, hbl, hbu, hbs⟩ := hb
    rw [← hbits] at hbl hbu
    rw [mem_iff _ _ hal hau] at hx
    rw [mem_iff _ _ (by rw [← hbits]; exact hbl) (by rw [← hbits]; exact hbu), ← hbits] at hy
    obtain ⟨_, hxl, hx1, hx2⟩ := hx
    obtain ⟨_, hyl, hy1, hy2⟩ := hy
    rw [mem_new, modAdd_nat, modAdd_nat, imod_of_lt _ _ (Nat.mod_lt _ hm), imod_of_lt _ _ (Nat.mod_lt _ hm)]
    have key1 := cd_add _ _ _ _ _ hal hbl hxl hyl (by omega)
    have key2 := cd_add _ _ _ _ _ hal hbl hau hbu (by omega)
    refine ⟨Nat.mod_lt _ hm, ?_, ?_⟩
    · rw [key1, key2]; omega
    · rw [key1]
      apply stride_cond_of_dvd
      · exact Nat.dvd_add (dvd_of_stride _ _ _ (Nat.gcd_dvd_left _ _) hx2) (dvd_of_stride _ _ _ (Nat.gcd_dvd_right _ _) hy2)
      · intro hg
        have h1 := Nat.eq_zero_of_gcd_eq_zero_left hg
        have h2 := Nat.eq_zero_of_gcd_eq_zero_right hg
        rw [if_pos h1] at hx2; rw [if_pos h2] at hy2
        omega

/-- closure: `add` returns a well-formed interval of the same width -/
theorem add_WF (a b : SI) (ha : a.WF) (hb : b.WF) (hbits : a.bits = b.bits) :
    (a.add b).WF ∧ (a.add b).bits = a.bits := by
  unfold SI.add
  by_cases ov : wrappedOverflowAdd a b = true
  · simp only [ov, if_true]; exact ⟨top_WF _ ha.1, top_bits _⟩
  · have ov' : wrappedOverflowAdd a b = false := by simpa using ov
    simp only [ov', Bool.false_eq_true, if_false, ← hbits, Nat.max_self]
    refine ⟨new_WF _ _ _ _ ha.1 ?_, new_bits _ _ _ _⟩
    intro hg
    have h1 := ha.2.2.2.1 (Nat.eq_zero_of_gcd_eq_zero_left hg)
    have h2 := hb.2.2.2.1 (Nat.eq_zero_of_gcd_eq_zero_right hg)
    rw [h1, h2]

/-! ### sub -/

theorem sub_mod_cases (a b m : Nat) (ha : a < m) (hb : b < m) :
    (a + m - b) % m = if b ≤ a then a - b else a + m - b := by
  split
  · have : a + m - b = (a - b) + m := by omega
    rw [this, Nat.add_mod_right, Nat.mod_eq_of_lt (by omega)]
  · exact Nat.mod_eq_of_lt (by omega)

theorem modSub_nat' (a b w : Nat) (ha : a < 2 ^ w) (hb : b < 2 ^ w) :
    modSub (a : Int) (b : Int) w = (a + 2 ^ w - b) % 2 ^ w := by
  rw [modSub_nat a b w ha hb, sub_mod_cases a b _ ha hb]
  unfold cd
  split_ifs <;> omega

/-- distances under subtraction: `(x − y) − (l1 − l2) = (x − l1) + (l2 − y)` while the sum stays below `m` -/
theorem cd_sub (m l1 x y l2 : Nat) (h1 : l1 < m) (hx : x < m) (hy : y < m) (h2 : l2 < m)
    (hs : cd m l1 x + cd m y l2 < m) :
    cd m ((l1 + m - l2) % m) ((x + m - y) % m) = cd m l1 x + cd m y l2 := by
  rw [sub_mod_cases _ _ _ h1 h2, sub_mod_cases _ _ _ hx hy]
  unfold cd at hs ⊢
  split_ifs at hs ⊢ <;> omega

theorem cd_between (m o y z : Nat) (ho : o < m) (hy : y < m) (hz : z < m) (h : cd m o y ≤ cd m o z) :
    cd m y z = cd m o z - cd m o y := by
  unfold cd at h ⊢
  split_ifs at h ⊢ <;> omega

theorem cd_add_right (m l k : Nat) (hl : l < m) (hk : k < m) : cd m l ((l + k) % m) = k := by
  rw [add_mod_cases _ _ _ hl hk]
  unfold cd
  split_ifs <;> omega

/-- the last member: at distance `span / stride * stride` from the lower bound -/
theorem lastMember_facts (b : SI) (hb : b.WF) :
    b.lastMember < 2 ^ b.bits ∧
    cd (2 ^ b.bits) b.lb b.lastMember = (if b.stride = 0 then 0 else cd (2 ^ b.bits) b.lb b.ub / b.stride * b.stride) := by
  obtain ⟨h0, hl, hu, hs⟩ := hb
  have hm := two_pow_pos' b.bits
  unfold SI.lastMember
  by_cases hz : b.stride = 0
  · simp only [hz, if_true]; exact ⟨hl, cd_self _ _⟩
  · simp only [hz, if_false]
    rw [modSub_nat _ _ _ hu hl, modAdd_nat]
    have hL : cd (2 ^ b.bits) b.lb b.ub / b.stride * b.stride < 2 ^ b.bits := by
      have := Nat.div_mul_le_self (cd (2 ^ b.bits) b.lb b.ub) b.stride
      have := cd_lt _ _ _ hl hu
      omega
    exact ⟨Nat.mod_lt _ hm, cd_add_right _ _ _ hl hL⟩

/-- a member of `b` is at most as far from the lower bound as the last member -/
theorem mem_le_last (span s d : Nat) (h1 : d ≤ span) (h2 : if s = 0 then d = 0 else d % s = 0) :
    d ≤ (if s = 0 then 0 else span / s * s) ∧ s ∣ (if s = 0 then 0 else span / s * s) - d := by
  by_cases hz : s = 0
  · simp only [hz, if_true] at h2 ⊢; subst h2; simp
  · simp only [hz, if_false] at h2 ⊢
    have hsp : 0 < s := Nat.pos_of_ne_zero hz
    obtain ⟨k, hk⟩ := Nat.dvd_of_mod_eq_zero h2
    subst hk
    have hkle : k ≤ span / s := by
      rw [Nat.le_div_iff_mul_le hsp]; rw [Nat.mul_comm]; exact h1
    constructor
    · calc s * k = k * s := Nat.mul_comm _ _
        _ ≤ span / s * s := Nat.mul_le_mul_right _ hkle
    · refine ⟨span / s - k, ?_⟩
      rw [Nat.mul_sub, Nat.mul_comm s (span / s)]

/-- **`sub` is sound** (the subtrahend need not be aligned: its last member anchors the result) -/
theorem sub_sound (a b : SI) (x y : Nat) (hbits : a.bits = b.bits) (ha : a.WF) (hb : b.WF)
    (hx : a.mem x) (hy : b.mem y) : (a.sub b).mem ((x + 2 ^ a.bits - y) % 2 ^ a.bits) := by
  have hm := two_pow_pos' a.bits
  unfold SI.sub
  by_cases ov : wrappedOverflowAdd a b = true
  · simp only [ov, if_true]
    rw [mem_top]; exact Nat.mod_lt _ hm
  · have ov' : wrappedOverflowAdd a b = false := by simpa using ov
    have hsum := overflow_false a b ha hb hbits ov'
    simp only [ov', Bool.false_eq_true, if_false, ← hbits, Nat.max_self]
    obtain ⟨hlastlt, hlastcd⟩ := lastMember_facts b hb
    rw [← hbits] at hlastlt hlastcd
    obtain ⟨ha0, hal, hau, has⟩ := ha
    obtain ⟨hb0, hbl, hbu, hbs⟩ := hb
    rw [← hbits] at hbl hbu
    rw [mem_iff _ _ hal hau] at hx
    rw [mem_iff _ _ (by rw [← hbits]; exact hbl) (by rw [← hbits]; exact hbu), ← hbits] at hy
    obtain ⟨_, hxl, hx1, hx2⟩ := hx
    obtain ⟨_, hyl, hy1, hy2⟩ := hy
    obtain ⟨hle, hdv⟩ := mem_le_last _ _ _ hy1 hy2
    rw [← hlastcd] at hle hdv
    have hLle : cd (2 ^ a.bits) b.lb b.lastMember ≤ cd (2 ^ a.bits) b.lb b.ub := by
      rw [hlastcd]; split_ifs
      · omega
      · exact Nat.div_mul_le_self _ _
    have hbtw := cd_between _ _ _ _ hbl hyl hlastlt hle
    have hbtw0 := cd_between _ _ _ _ hbl hbl hlastlt (by rw [cd_self]; omega)
    rw [cd_self] at hbtw0
    rw [mem_new, modSub_nat' _ _ _ hal hlastlt, modSub_nat' _ _ _ hau hbl,
      imod_of_lt _ _ (Nat.mod_lt _ hm), imod_of_lt _ _ (Nat.mod_lt _ hm)]
    have key1 := cd_sub _ _ _ _ _ hal hxl hyl hlastlt (by omega)
    have key2 := cd_sub _ _ _ _ _ hal hau hbl hlastlt (by omega)
    refine ⟨Nat.mod_lt _ hm, ?_, ?_⟩
    · rw [key1, key2]; omega
    · rw [key1, hbtw]
      apply stride_cond_of_dvd
      · exact Nat.dvd_add (dvd_of_stride _ _ _ (Nat.gcd_dvd_left _ _) hx2) (Nat.dvd_trans (Nat.gcd_dvd_right _ _) hdv)
      · intro hg
        have h1 := Nat.eq_zero_of_gcd_eq_zero_left hg
        have h2 := Nat.eq_zero_of_gcd_eq_zero_right hg
        rw [if_pos h1] at hx2; rw [if_pos h2] at hy2
        have : cd (2 ^ a.bits) b.lb b.lastMember = 0 := by rw [hlastcd, if_pos h2]
        omega

theorem sub_WF (a b : SI) (ha : a.WF) (hb : b.WF) (hbits : a.bits = b.bits) :
    (a.sub b).WF ∧ (a.sub b).bits = a.bits := by
  unfold SI.sub
  by_cases ov : wrappedOverflowAdd a b = true
  · simp only [ov, if_true]; exact ⟨top_WF _ ha.1, top_bits _⟩
  · have ov' : wrappedOverflowAdd a b = false := by simpa using ov
    simp only [ov', Bool.false_eq_true, if_false, ← hbits, Nat.max_self]
    refine ⟨new_WF _ _ _ _ ha.1 ?_, new_bits _ _ _ _⟩
    intro hg
    have h1 := ha.2.2.2.1 (Nat.eq_zero_of_gcd_eq_zero_left hg)
    have h2z := Nat.eq_zero_of_gcd_eq_zero_right hg
    have h2 := hb.2.2.2.1 h2z
    have hlast : b.lastMember = b.lb := by unfold SI.lastMember; simp [h2z]
    rw [hlast, h1, h2]

/-- **`neg` (and, since the repair, unary minus) is sound**: `0 − x` -/
theorem neg_sound (a : SI) (x : Nat) (ha : a.WF) (hx : a.mem x) : a.neg.mem ((2 ^ a.bits - x) % 2 ^ a.bits) := by
  unfold SI.neg
  have hz : (SI.new a.bits 0 0 0).WF := new_WF _ _ _ _ ha.1 (fun _ => rfl)
  have hzb : (SI.new a.bits 0 0 0).bits = a.bits := new_bits _ _ _ _
  have hzm : (SI.new a.bits 0 0 0).mem 0 := by
    rw [mem_new, imod_zero]; simp [cd_self, two_pow_pos']
  have := sub_sound (SI.new a.bits 0 0 0) a 0 x hzb hz ha hzm hx
  rw [hzb] at this
  simpa using this

theorem neg_WF (a : SI) (ha : a.WF) : a.neg.WF ∧ a.neg.bits = a.bits := by
  unfold SI.neg
  have hz : (SI.new a.bits 0 0 0).WF := new_WF _ _ _ _ ha.1 (fun _ => rfl)
  have hzb : (SI.new a.bits 0 0 0).bits = a.bits := new_bits _ _ _ _
  have := sub_WF (SI.new a.bits 0 0 0) a hz ha hzb
  rw [hzb] at this
  exact this

end Claripy.VSA
