import ClaripyProofs.Lemmas.VSA.Mem
/-! Soundness and closure of `add`, `sub`, `neg`. -/
namespace Claripy.VSA

theorem wrappedCard_nat (x y w : Nat) (hx : x < 2 ^ w) (hy : y < 2 ^ w) :
    wrappedCard (x : Int) (y : Int) w = cd (2 ^ w) x y + 1 := by
  have hm := two_pow_pos' w
  unfold wrappedCard
  have hcast : ((y : Int) + 1) % ((2 ^ w : Nat) : Int) = (((y + 1) % 2 ^ w : Nat) : Int) := by
    rw [Int.natCast_emod]; push_cast; rfl
  rw [hcast]
  have h2 : imod ((y : Int) - x + 1) w = (cd (2 ^ w) x y + 1) % 2 ^ w := by
    have : (y : Int) - x + 1 = (y : Int) - x + ((1 : Nat) : Int) := by push_cast; rfl
    unfold imod
    rw [this, ← Int.emod_add_emod]
    have h3 := imod_sub y x w hy hx
    unfold imod at h3
    have h4 : ((y : Int) - x) % ((2 ^ w : Nat) : Int) = ((cd (2 ^ w) x y : Nat) : Int) := by
      have hnn : 0 ≤ ((y : Int) - x) % ((2 ^ w : Nat) : Int) := Int.emod_nonneg _ (by omega)
      omega
    rw [h4]
    have : ((cd (2 ^ w) x y : Nat) : Int) + ((1 : Nat) : Int) = ((cd (2 ^ w) x y + 1 : Nat) : Int) := by push_cast; rfl
    rw [this, ← Int.natCast_emod]
    exact Int.toNat_natCast _
  rw [h2, succ_mod_cases _ _ hy]
  have hlt := cd_lt _ _ _ hx hy
  unfold cd at *
  split_ifs at * <;> first | omega | (rw [Nat.mod_eq_of_lt (by omega)])

/-- the cardinality `_wrapped_overflow_add` counts for one operand -/
theorem overflow_false (a b : SI) (ha : a.WF) (hb : b.WF) (hbits : a.bits = b.bits)
    (h : wrappedOverflowAdd a b = false) :
    cd (2 ^ a.bits) a.lb a.ub + cd (2 ^ a.bits) b.lb b.ub < 2 ^ a.bits := by
  obtain ⟨ha0, hal, hau, has⟩ := ha
  obtain ⟨hb0, hbl, hbu, hbs⟩ := hb
  rw [← hbits] at hbl hbu
  have hm := two_pow_pos' a.bits
  unfold wrappedOverflowAdd at h
  simp only [decide_eq_false_iff_not, Nat.not_lt] at h
  rw [← hbits, wrappedCard_nat _ _ _ hal hau, wrappedCard_nat _ _ _ hbl hbu] at h
  unfold maxInt at h
  have e1 : (a.isInteger && a.lb == 0) = true ↔ (a.lb = a.ub ∧ a.lb = 0) := by simp [SI.isInteger]
  have e2 : (b.isInteger && b.lb == 0) = true ↔ (b.lb = b.ub ∧ b.lb = 0) := by simp [SI.isInteger]
  have ca := (cd_eq_zero (2 ^ a.bits) a.lb a.ub hal hau)
  have cb := (cd_eq_zero (2 ^ a.bits) b.lb b.ub hbl hbu)
  by_cases h1 : (a.isInteger && a.lb == 0) = true <;> by_cases h2 : (b.isInteger && b.lb == 0) = true
  · have := ca.2 (e1.1 h1).1; have := cb.2 (e2.1 h2).1; omega
  · rw [if_pos h1, if_neg h2] at h; have := ca.2 (e1.1 h1).1; omega
  · rw [if_neg h1, if_pos h2] at h; have := cb.2 (e2.1 h2).1; omega
  · rw [if_neg h1, if_neg h2] at h; omega

theorem dvd_of_stride (s d : Nat) (g : Nat) (hg : g ∣ s) (h : if s = 0 then d = 0 else d % s = 0) : g ∣ d := by
  split_ifs at h with h0
  · subst h; exact Nat.dvd_zero _
  · exact Nat.dvd_trans hg (Nat.dvd_of_mod_eq_zero h)

theorem stride_cond_of_dvd (g d : Nat) (h : g ∣ d) (h0 : g = 0 → d = 0) : if g = 0 then d = 0 else d % g = 0 := by
  split_ifs with hg
  · exact h0 hg
  · exact Nat.mod_eq_zero_of_dvd h

/-- distances add up on the circle as long as their sum stays below the circumference -/
theorem cd_add (m l1 l2 x y : Nat) (h1 : l1 < m) (h2 : l2 < m) (hx : x < m) (hy : y < m)
    (hs : cd m l1 x + cd m l2 y < m) :
    cd m ((l1 + l2) % m) ((x + y) % m) = cd m l1 x + cd m l2 y := by
  rw [add_mod_cases _ _ _ h1 h2, add_mod_cases _ _ _ hx hy]
  unfold cd at hs ⊢
  split_ifs at hs ⊢ <;> omega

/-- `add` is sound: the sum of members is a member of the abstract sum. -/
theorem add_sound (a b : SI) (x y : Nat) (hbits : a.bits = b.bits) (ha : a.WF) (hb : b.WF)
    (hx : a.mem x) (hy : b.mem y) : (a.add b).mem ((x + y) % 2 ^ a.bits) := by
  have hm := two_pow_pos' a.bits
  unfold SI.add
  by_cases ov : wrappedOverflowAdd a b = true
  · simp only [ov, if_true]
    rw [mem_top]; exact Nat.mod_lt _ hm
  · have ov' : wrappedOverflowAdd a b = false := by simpa using ov
    have hsum := overflow_false a b ha hb hbits ov'
    simp only [ov', Bool.false_eq_true, if_false, ← hbits, Nat.max_self]
    obtain ⟨ha0, hal, hau, has⟩ := ha
    obtain ⟨hb0, hbl, hbu, hbs⟩ := hb
    rw [← hbits] at hbl hbu
    rw [mem_iff _ _ hal hau] at hx
    rw [mem_iff _ _ (by rw [← hbits]; exact hbl) (by rw [← hbits]; exact hbu), ← hbits] at hy
    obtain ⟨_, hxl, hx1, hx2⟩ := hx
    obtain ⟨_, hyl, hy1, hy2⟩ := hy
    rw [mem_new, modAdd_nat, modAdd_nat, imod_of_lt _ _ (Nat.mod_lt _ hm), imod_of_lt _ _ (Nat.mod_lt _ hm)]
    have key1 := cd_add _ _ _ _ _ hal hbl hxl hyl (by omega)
    have key2 := cd_add _ _ _ _ _ hal hbl hau hbu (by omega)
    refine ⟨Nat.mod_lt _ hm, ?_, ?_⟩
    · rw [key1, key2]; omega
    · rw [key1]
      apply stride_cond_of_dvd
      · exact Nat.dvd_add (dvd_of_stride _ _ _ (Nat.gcd_dvd_left _ _) hx2) (dvd_of_stride _ _ _ (Nat.gcd_dvd_right _ _) hy2)
      · intro hg
        have h1 := Nat.eq_zero_of_gcd_eq_zero_left hg
        have h2 := Nat.eq_zero_of_gcd_eq_zero_right hg
        rw [if_pos h1] at hx2; rw [if_pos h2] at hy2
        omega

end Claripy.VSA
