import ClaripyProofs.Lemmas.VSA.BalancerPair
/-!
The satisfiable flag of the balancer model: `_doit` reports "unsatisfiable" (the `is_false` test on the truism or on its
implicit assumption) only for a comparison no assignment satisfies — unsigned orderings.
-/
set_option linter.unusedSectionVars false
namespace Claripy.VSA.Bal
open Claripy.VSA

theorem extract_zero (hi lo : Nat) : Conc.extract hi lo 0 = 0 := by unfold Conc.extract; simp

/-- `x >= 0` through `ge_simplifier` never becomes a literal when the left side is symbolic -/
theorem mkUGE_zero_tru (e : BV) (r w : Nat) : r = 0 → symBV e = true → ∀ b, mkUGE e r w ≠ .lit b := by
  fun_induction mkUGE e r w with
  | case1 k a r w hg ih =>
    intro hr hs b
    subst hr
    exact ih (extract_zero _ _) (by simpa [symBV] using hs) b
  | case2 k a r w hg =>
    intro hr hs b
    subst hr; exact absurd (extract_zero _ _) hg
  | case3 k a r w hg ih =>
    intro hr hs b
    subst hr
    exact ih (extract_zero _ _) (by simpa [symBV] using hs) b
  | case4 k a r w hg =>
    intro hr hs b
    subst hr; exact absurd (extract_zero _ _) hg
  | case5 e r w h1 h2 =>
    intro hr hs b
    rw [mkCmpT_sym _ _ _ _ hs]
    intro h; cases h

section
variable (anno : Nat → SI) (env : Nat → Nat) (hctx : ∀ i, (anno i).WF ∧ (anno i).mem (env i)) (hnrm : ∀ i, Nrm (anno i))
include hctx hnrm

/-- `is_false(lhs OP rhs)` (an unsigned ordering) excludes every assignment that satisfies the comparison -/
theorem truth_f_sound (op : CmpOp) (a b : BV) (hoa : ExprOK anno env a) (hob : ExprOK anno env b) (hwab : wd a = wd b)
    (hord : uOrd op) (h : truth anno (.cmp op a b) = .ok .f) : evalB env (.cmp op a b) ≠ some true := by
  intro hsat
  unfold truth at h
  have h := liftR_ok h
  obtain ⟨p, hp, h⟩ := bind_ok _ _ _ h
  have hpf := pure_ok _ _ h
  have hrest : restCmp op = false := by rcases hord with h | h | h | h <;> rw [h] <;> rfl
  have hal : alB anno (.cmp op a b) [] := by
    simp only [alB]
    refine ⟨alBV_of_noEq anno a [] hoa.2.2, fun p1 _ => ⟨alBV_of_noEq anno b p1.2 hob.2.2, fun hh => ?_⟩⟩
    rw [hrest] at hh; cases hh
  have hgood := convB_rest_good anno env hctx hnrm (.cmp op a b) [] p.1 p.2
    (fun hh => by rw [usesRestB_false] at hh; cases hh) hal
    (by simp only [DefB]; exact ⟨hoa.2.1, hob.2.1⟩) (by simp only [WTB]; exact ⟨hoa.1, hob.1, hwab⟩) hp true hsat
  rw [← hpf] at hgood
  simp [BoolRes.has, BoolRes.hasTrue] at hgood

/-- **the satisfiable flag**: if the model of `_doit` answers "unsatisfiable" for an unsigned ordering `a OP b`, no
assignment (respecting the annotations) satisfies it -/
theorem doit_unsat_sound (op : CmpOp) (a b : BV) (hoa : ExprOK anno env a) (hob : ExprOK anno env b) (hwab : wd a = wd b)
    (hord : uOrd op) (hsym : ∀ r w, b = .const r w → symBV a = true)
    (h : doit anno (.cmp op a b) = .ok .unsat) : evalB env (.cmp op a b) ≠ some true := by
  intro hsat
  unfold doit at h
  obtain ⟨tv, htv', h⟩ := bindM_ok h
  by_cases htv : tv = .f
  · subst htv
    exact truth_f_sound anno env hctx hnrm op a b hoa hob hwab hord htv' hsat
  · rw [if_neg htv] at h
    obtain ⟨ca, hca, h⟩ := bindM_ok h
    obtain ⟨cb, hcb, h⟩ := bindM_ok h
    by_cases hboth : ca > 1 ∧ cb > 1
    · rw [if_pos hboth] at h; cases h
    · rw [if_neg hboth] at h
      obtain ⟨T, hT, h⟩ := bindM_ok h
      cases T with
      | lit _ => cases h
      | tru t =>
        dsimp only at h
        obtain ⟨p1, hp1, h⟩ := bindM_ok h
        -- the adjusted truism: what `doit_pt` establishes, here only its typing
        obtain ⟨x, hx⟩ := exprOK_val anno env a hoa
        obtain ⟨y, hy⟩ := exprOK_val anno env b hob
        have hcmp : concCmp op (wd a) x y = true := by
          simp only [evalB, hx, hy, Option.bind_eq_bind, Option.bind_some, Option.some.injEq] at hsat; exact hsat
        have conv_of_card : ∀ e c, symBV e = true → cardNE anno e = .ok c → ∃ o p, convBV anno e o = .ok p := by
          intro e c hs hc
          unfold cardNE at hc
          obtain ⟨c', hc', _⟩ := bindM_ok hc
          obtain ⟨p, hp, _⟩ := card_conv e hs c' hc'
          exact ⟨[], p, hp⟩
        have main : TruOK anno env t ∧ uOrd t.op ∧ ∃ o p, convBV anno t.lhs o = .ok p := by
          unfold adjust at hT
          by_cases hrev : ca = 1 ∧ cb > 1
          · rw [if_pos hrev] at hT
            have hsb : symBV b = true := card_gt_one_sym anno b cb hcb hrev.2
            cases a with
            | const r w =>
              have hTT := pureM_ok hT
              have hrw : r < 2 ^ w ∧ 0 < w := by have := hoa.1; simp only [WTBV] at this; exact ⟨this.2, this.1⟩
              have hxr : x = r := by simp only [evalBV, Option.some.injEq] at hx; exact hx.symm
              subst hxr
              have hwb : wd b = w := by rw [← hwab]; rfl
              have hcmp' : concCmp (opposite op) w y x = true := by rw [concCmp_opposite]; exact hcmp
              have hopne : ¬ (op = .eq ∨ op = .ne) := by
                intro hh; rcases hh with hh | hh <;> rcases hord with h | h | h | h <;> rw [hh] at h <;> cases h
              by_cases huge : opposite op = .uge
              · rw [huge] at hTT hcmp'
                unfold mkCmp at hTT
                have hge : x ≤ y := by simpa [concCmp] using hcmp'
                obtain ⟨h1, _, h3, _, hconvt⟩ := mkUGE_spec anno env hctx hnrm b x w y hob hsb hwb hrw.1
                  (conv_of_card b cb hsb hcb) hy hge t hTT.symm
                exact ⟨h1, by rw [h3]; exact Or.inr (Or.inr (Or.inr rfl)), hconvt⟩
              · have hTT' : Tr.tru t = mkCmpT (opposite op) b x w := by
                  rw [hTT]; unfold mkCmp; cases hop' : opposite op <;> simp_all
                rw [mkCmpT_sym _ _ _ _ hsb] at hTT'
                cases hTT'
                exact ⟨⟨hob, hsb, hwb, hrw.1⟩, opposite_uOrd op (opposite_uns op (uOrd_uns op hord)) hopne,
                  conv_of_card b cb hsb hcb⟩
            | _ => cases hT
          · rw [if_neg hrev] at hT
            cases b with
            | const r w =>
              have hTT := pureM_ok hT
              have hsa : symBV a = true := hsym r w rfl
              have hrw : r < 2 ^ w ∧ 0 < w := by have := hob.1; simp only [WTBV] at this; exact ⟨this.2, this.1⟩
              cases hTT
              exact ⟨⟨hoa, hsa, hwab, hrw.1⟩, hord, conv_of_card a ca hsa hca⟩
            | _ => cases hT
        obtain ⟨hokt, hordt, hconvt⟩ := main
        cases hA : assumption t with
        | none => rw [hA] at h; cases h
        | some A =>
          rw [hA] at h
          dsimp only at h
          by_cases hAc : A.toB = BExp.cmp op a b
          · rw [if_pos hAc] at h; cases h
          · rw [if_neg hAc] at h
            obtain ⟨av, hav', h⟩ := bindM_ok h
            by_cases hav : av = .f
            · subst hav
              cases A with
              | lit bb =>
                -- the assumption of a symbolic left side is never a literal
                exfalso
                unfold assumption at hA
                have hl : ∀ bb', mkCmp .uge t.lhs 0 (wd t.lhs) ≠ .lit bb' := fun bb' =>
                  mkUGE_zero_tru t.lhs 0 (wd t.lhs) rfl hokt.sym bb'
                have hh : ∀ bb', mkCmp .ule t.lhs (2 ^ wd t.lhs - 1) (wd t.lhs) ≠ .lit bb' := fun bb' => by
                  unfold mkCmp; rw [mkCmpT_sym _ _ _ _ hokt.sym]; intro hc; cases hc
                rcases hordt with ho | ho | ho | ho <;> rw [ho] at hA <;> simp only [Option.some.injEq] at hA
                · exact hl bb hA
                · exact hl bb hA
                · exact hh bb hA
                · exact hh bb hA
              | tru ta =>
                obtain ⟨a1, a2, a3, _, _⟩ := assumption_spec anno env hctx hnrm t hokt hordt hconvt _ hA ta rfl
                have hev : evalB env ta.toB = some true := (holds_iff_evalB env ta a1.wd_eq).1 a2
                have hcw : ExprOK anno env (.const ta.r ta.w) := by
                  have hwpos : 0 < ta.w := by rw [← a1.wd_eq]; exact wd_pos anno env (fun i => (hctx i).1) _ a1.ok.1
                  exact ⟨by simp only [WTBV]; exact ⟨hwpos, a1.r_lt⟩, by simp only [DefBV], by simp only [usesEqBV]⟩
                exact truth_f_sound anno env hctx hnrm ta.op ta.lhs (.const ta.r ta.w) a1.ok hcw (by rw [a1.wd_eq]; rfl) a3 hav' hev
            · rw [if_neg hav] at h
              cases A with
              | lit _ => cases h
              | tru ta =>
                dsimp only at h
                obtain ⟨_, _, h⟩ := bindM_ok h
                obtain ⟨p2, _, h⟩ := bindM_ok h
                cases h


omit hctx hnrm in
theorem mkUGE_mod (e : BV) (r w : Nat) (h : isModLhs e = true) : mkUGE e r w = mkCmpT .uge e r w := by
  rcases isModLhs_cases e h with ⟨a, b, rfl⟩ | ⟨a, b, rfl⟩ <;> unfold mkUGE <;> rfl

/-- **`_doit` on an ordering of a sum / difference against a literal**: when the truism and its implicit assumption are
both balanced only across `+` / `-` and end at the same expression, the recorded bounds are sound (wrapped interval) -/
theorem doit_pair (op : CmpOp) (a b : BV) (bs : Bounds) (oT oA : BalOut) (hoa : ExprOK anno env a) (hob : ExprOK anno env b)
    (hwab : wd a = wd b) (hord : uOrd op) (hsym : ∀ r w, b = .const r w → symBV a = true)
    (hma : ∀ r w, b = .const r w → isModLhs a = true) (hmb : ∀ r w, a = .const r w → isModLhs b = true)
    (h : doit anno (.cmp op a b) = .ok (.sat bs ⟨some oT, some oA⟩))
    (hptT : oT.usedPt = false) (hptA : oA.usedPt = false) (hsame : oT.t.lhs = oA.t.lhs)
    (hsat : evalB env (.cmp op a b) = some true) : Sound env bs := by
  unfold doit at h
  obtain ⟨tv, _, h⟩ := bindM_ok h
  by_cases htv : tv = .f
  · rw [if_pos htv] at h; cases h
  · rw [if_neg htv] at h
    obtain ⟨ca, hca, h⟩ := bindM_ok h
    obtain ⟨cb, hcb, h⟩ := bindM_ok h
    by_cases hboth : ca > 1 ∧ cb > 1
    · rw [if_pos hboth] at h; have := pureM_ok h; cases this
    · rw [if_neg hboth] at h
      obtain ⟨T, hT, h⟩ := bindM_ok h
      cases T with
      | lit _ => have := pureM_ok h; cases this
      | tru t =>
        dsimp only at h
        obtain ⟨p1, hp1, h⟩ := bindM_ok h
        obtain ⟨x, hx⟩ := exprOK_val anno env a hoa
        obtain ⟨y, hy⟩ := exprOK_val anno env b hob
        have hcmp : concCmp op (wd a) x y = true := by
          simp only [evalB, hx, hy, Option.bind_eq_bind, Option.bind_some, Option.some.injEq] at hsat; exact hsat
        have conv_of_card : ∀ e c, symBV e = true → cardNE anno e = .ok c → ∃ o p, convBV anno e o = .ok p := by
          intro e c hs hc
          unfold cardNE at hc
          obtain ⟨c', hc', _⟩ := bindM_ok hc
          obtain ⟨p, hp, _⟩ := card_conv e hs c' hc'
          exact ⟨[], p, hp⟩
        have main : TruOK anno env t ∧ uOrd t.op ∧ t.holds env ∧ isModLhs t.lhs = true ∧ ∃ o p, convBV anno t.lhs o = .ok p := by
          unfold adjust at hT
          by_cases hrev : ca = 1 ∧ cb > 1
          · rw [if_pos hrev] at hT
            have hsb : symBV b = true := card_gt_one_sym anno b cb hcb hrev.2
            cases a with
            | const r w =>
              have hTT := pureM_ok hT
              have hmodb := hmb r w rfl
              have hrw : r < 2 ^ w ∧ 0 < w := by have := hoa.1; simp only [WTBV] at this; exact ⟨this.2, this.1⟩
              have hxr : x = r := by simp only [evalBV, Option.some.injEq] at hx; exact hx.symm
              subst hxr
              have hwb : wd b = w := by rw [← hwab]; rfl
              have hcmp' : concCmp (opposite op) w y x = true := by rw [concCmp_opposite]; exact hcmp
              have hopne : ¬ (op = .eq ∨ op = .ne) := by
                intro hh; rcases hh with hh | hh <;> rcases hord with h | h | h | h <;> rw [hh] at h <;> cases h
              have hTT' : Tr.tru t = mkCmpT (opposite op) b x w := by
                rw [hTT]; unfold mkCmp
                cases hop' : opposite op <;> simp only [] <;> first | rfl | exact mkUGE_mod b x w hmodb
              rw [mkCmpT_sym _ _ _ _ hsb] at hTT'
              cases hTT'
              exact ⟨⟨hob, hsb, hwb, hrw.1⟩, opposite_uOrd op (opposite_uns op (uOrd_uns op hord)) hopne, ⟨y, hy, hcmp'⟩, hmodb,
                conv_of_card b cb hsb hcb⟩
            | _ => cases hT
          · rw [if_neg hrev] at hT
            cases b with
            | const r w =>
              have hTT := pureM_ok hT
              have hsa : symBV a = true := hsym r w rfl
              have hmoda := hma r w rfl
              have hrw : r < 2 ^ w ∧ 0 < w := by have := hob.1; simp only [WTBV] at this; exact ⟨this.2, this.1⟩
              have hyr : y = r := by simp only [evalBV, Option.some.injEq] at hy; exact hy.symm
              subst hyr
              cases hTT
              exact ⟨⟨hoa, hsa, hwab, hrw.1⟩, hord, ⟨x, hx, by simp only; rw [← show wd a = w from hwab]; exact hcmp⟩, hmoda,
                conv_of_card a ca hsa hca⟩
            | _ => cases hT
        obtain ⟨hokt, hordt, hht, hmodt, hconvt⟩ := main
        cases hA : assumption t with
        | none => rw [hA] at h; have := pureM_ok h; cases this
        | some A =>
          rw [hA] at h
          dsimp only at h
          by_cases hAc : A.toB = BExp.cmp op a b
          · rw [if_pos hAc] at h; have := pureM_ok h; cases this
          · rw [if_neg hAc] at h
            obtain ⟨av, _, h⟩ := bindM_ok h
            by_cases hav : av = .f
            · rw [if_pos hav] at h; cases h
            · rw [if_neg hav] at h
              cases A with
              | lit _ => have := pureM_ok h; cases this
              | tru ta =>
                dsimp only at h
                obtain ⟨_, _, h⟩ := bindM_ok h
                obtain ⟨p2, hp2, h⟩ := bindM_ok h
                have := pureM_ok h; cases this
                unfold processTru at hp1 hp2
                obtain ⟨o1, hb1, hp1⟩ := bindM_ok hp1
                obtain ⟨bs1, hh1, hp1⟩ := bindM_ok hp1
                have := pureM_ok hp1; subst this
                obtain ⟨o2, hb2, hp2⟩ := bindM_ok hp2
                obtain ⟨bs2, hh2, hp2⟩ := bindM_ok hp2
                have := pureM_ok hp2; subst this
                exact pair_sound anno env hctx hnrm t ta o1 o2 bs1 bs2 hokt hordt hmodt hconvt hht hA hb1 hb2 hptT hptA hsame hh1 hh2

end

end Claripy.VSA.Bal
