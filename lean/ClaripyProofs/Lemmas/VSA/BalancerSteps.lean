import ClaripyProofs.Lemmas.VSA.BalancerArith
import ClaripyProofs.Lemmas.VSA.ConvertProved
/-!
Soundness of the single steps of the balancer model (`Claripy/VSA/BalancerModel.lean`) against the concrete meaning of
the ASTs (`evalBV`): `_align_truism` keeps the value of the left side; every arm other than `+` / `-` turns a truism that
holds into one that holds (unsigned orderings, `==`, `!=`); `+` / `-` rotate the left side by the constant they move.
The abstract guards (`is_true(e == 0)`, cardinalities) are discharged through the soundness of the abstract evaluation
(C24: `convBV_rest_good`).
-/
namespace Claripy.VSA.Bal
open Claripy.VSA

/-! ### the `M` monad -/

theorem bindM_ok {α β : Type} {x : M α} {f : α → M β} {r : β} (h : (x >>= f) = .ok r) : ∃ a, x = .ok a ∧ f a = .ok r := by
  cases x with
  | error e => cases h
  | ok a => exact ⟨a, rfl, h⟩

theorem pureM_ok {α : Type} {a r : α} (h : (pure a : M α) = .ok r) : r = a := by cases h; rfl

theorem liftR_ok {α : Type} {x : R α} {a : α} (h : liftR x = .ok a) : x = .ok a := by
  cases x with
  | error e => cases h
  | ok b => cases h; rfl

/-! ### expressions the theorems speak about -/

/-- well typed, with a value at every node, without `==` / `!=` / `*` / `%` nodes (the operations whose abstract
counterpart needs an alignment guard) -/
def ExprOK (anno : Nat → SI) (env : Nat → Nat) (e : BV) : Prop := WTBV anno env e ∧ DefBV env e ∧ usesEqBV e = false

section
variable (anno : Nat → SI) (env : Nat → Nat) (hctx : ∀ i, (anno i).WF ∧ (anno i).mem (env i)) (hnrm : ∀ i, Nrm (anno i))
include hctx hnrm

/-- C24 on these expressions: the abstract value is well formed, normal, of the right width and contains the value -/
theorem conv_good (e : BV) (hok : ExprOK anno env e) (o o' : Orders) (av : AV) (h : convBV anno e o = .ok (av, o')) :
    GoodBV env e av ∧ Nrm av.si :=
  convBV_rest_good anno env hctx hnrm e o av o' (fun hh => by rw [usesRestBV_false e] at hh; cases hh)
    (alBV_of_noEq anno e o hok.2.2) hok.2.1 hok.1 h

theorem conv_val (e : BV) (hok : ExprOK anno env e) (o : Orders) (p : AV × Orders) (h : convBV anno e o = .ok p)
    (v : Nat) (hv : evalBV env e = some v) : p.1.si.WF ∧ p.1.si.bits = wd e ∧ p.1.si.mem v ∧ v < 2 ^ wd e ∧ 0 < wd e := by
  obtain ⟨⟨⟨hw, hb⟩, hm⟩, _⟩ := conv_good anno env hctx hnrm e hok o p.2 p.1 h
  have hmem := (hm v hv).1
  refine ⟨hw, hb, hmem, ?_, ?_⟩
  · have := hmem.2.1; rwa [hb] at this
  · have := hw.1; rwa [hb] at this

end

theorem exprOK_val (anno : Nat → SI) (env : Nat → Nat) (e : BV) (h : ExprOK anno env e) : ∃ v, evalBV env e = some v :=
  defBV_some env e h.2.1

/-! sub-expressions -/
theorem ok_zext {anno env k e} (h : ExprOK anno env (.zext k e)) : ExprOK anno env e := by
  obtain ⟨h1, h2, h3⟩ := h
  simp only [WTBV, DefBV, usesEqBV] at h1 h2 h3
  exact ⟨h1, h2, h3⟩
theorem ok_sext {anno env k e} (h : ExprOK anno env (.sext k e)) : ExprOK anno env e := by
  obtain ⟨h1, h2, h3⟩ := h
  simp only [WTBV, DefBV, usesEqBV] at h1 h2 h3
  exact ⟨h1, h2, h3⟩
theorem ok_extract {anno env hi lo e} (h : ExprOK anno env (.extract hi lo e)) : ExprOK anno env e ∧ lo ≤ hi ∧ hi < wd e := by
  obtain ⟨h1, h2, h3⟩ := h
  simp only [WTBV, DefBV, usesEqBV] at h1 h2 h3
  exact ⟨⟨h1.1, h2, h3⟩, h1.2⟩
theorem ok_concat {anno env a b} (h : ExprOK anno env (.concat a b)) : ExprOK anno env a ∧ ExprOK anno env b := by
  obtain ⟨h1, h2, h3⟩ := h
  simp only [WTBV, DefBV, usesEqBV, Bool.or_eq_false_iff] at h1 h2 h3
  exact ⟨⟨h1.1, h2.1, h3.1⟩, ⟨h1.2, h2.2, h3.2⟩⟩
theorem ok_bin {anno env op a b} (h : ExprOK anno env (.bin op a b)) :
    ExprOK anno env a ∧ ExprOK anno env b ∧ wd a = wd b := by
  obtain ⟨h1, h2, h3⟩ := h
  simp only [WTBV, DefBV, usesEqBV, Bool.or_eq_false_iff] at h1 h2 h3
  exact ⟨⟨h1.1, h2.1, h3.1.2⟩, ⟨h1.2.1, h2.2.1, h3.2⟩, h1.2.2⟩
/-- … and the extractions the guards look at -/
theorem ok_mk_extract {anno env hi lo e} (h : ExprOK anno env e) (h1 : lo ≤ hi) (h2 : hi < wd e) :
    ExprOK anno env (.extract hi lo e) := by
  obtain ⟨a, b, c⟩ := h
  refine ⟨?_, ?_, ?_⟩
  · simp only [WTBV]; exact ⟨a, h1, h2⟩
  · simp only [DefBV]; exact b
  · simp only [usesEqBV]; exact c

/-- a symbolic node is not evaluated at construction -/
theorem foldBV_sym (e : BV) (h : symBV e = true) : foldBV e = e := by
  unfold foldBV asConst
  rw [if_pos h]

/-! ### truisms -/

/-- the truism holds under the assignment -/
def Tru.holds (env : Nat → Nat) (t : Tru) : Prop := ∃ v, evalBV env t.lhs = some v ∧ concCmp t.op t.w v t.r = true

structure TruOK (anno : Nat → SI) (env : Nat → Nat) (t : Tru) : Prop where
  ok : ExprOK anno env t.lhs
  sym : symBV t.lhs = true
  wd_eq : wd t.lhs = t.w
  r_lt : t.r < 2 ^ t.w

theorem holds_iff_evalB (env : Nat → Nat) (t : Tru) (hw : wd t.lhs = t.w) :
    t.holds env ↔ evalB env t.toB = some true := by
  unfold Tru.holds Tru.toB
  simp only [evalB, evalBV, hw]
  cases evalBV env t.lhs with
  | none => simp
  | some v => simp

section
variable (anno : Nat → SI) (env : Nat → Nat) (hctx : ∀ i, (anno i).WF ∧ (anno i).mem (env i)) (hnrm : ∀ i, Nrm (anno i))
include hctx hnrm

/-! ### the abstract guards -/

/-- `is_true(e == 0)`: every value of `e` is 0 -/
theorem isZero_sound (e : BV) (hok : ExprOK anno env e) (h : isZero anno e = .ok true) (v : Nat)
    (hv : evalBV env e = some v) : v = 0 := by
  unfold isZero truth at h
  obtain ⟨b, hb, h⟩ := bindM_ok h
  have hbt : b = .t := by have := pureM_ok h; simpa using this.symm
  subst hbt
  have hb := liftR_ok hb
  obtain ⟨p, hp, hb⟩ := bind_ok _ _ _ hb
  have hp2 := pure_ok _ _ hb
  simp only [convB] at hp
  obtain ⟨p1, h1, hp⟩ := bind_ok _ _ _ hp
  obtain ⟨q, hq, hp⟩ := bind_ok _ _ _ hp
  obtain ⟨r, hr, hp⟩ := bind_ok _ _ _ hp
  have := pure_ok _ _ hp
  subst this
  simp only at hp2
  subst hp2
  simp only [convBV] at hq
  have := pure_ok _ _ hq
  subst this
  obtain ⟨hw, _, hm, hlt, hpos⟩ := conv_val anno env hctx hnrm e hok [] p1 h1 v hv
  simp only [applyCmp, eqNamed] at hr
  have hz : SI.new (wd e) 0 ((0 : Nat) : Int) ((0 : Nat) : Int) = SI.new (wd e) 0 0 0 := rfl
  rw [hz] at hr
  by_cases hi : (p1.1.si.isInteger && (SI.new (wd e) 0 0 0).isInteger) = true
  · rw [if_pos hi] at hr
    have hr := pure_ok _ _ hr
    simp only [Bool.and_eq_true] at hi
    have hlb : p1.1.si.lb = (SI.new (wd e) 0 0 0).lb := by
      by_contra hne
      have : (if p1.1.si.lb = (SI.new (wd e) 0 0 0).lb then BoolRes.t else BoolRes.f) = BoolRes.f := by
        rw [if_neg]; simpa using hne
      rw [this] at hr; cases hr
    have h0 : (SI.new (wd e) 0 0 0).lb = 0 := by
      rw [new_eq]; simp [imod_zero]
    have hint : p1.1.si.lb = p1.1.si.ub := by simpa [SI.isInteger] using hi.1
    have := mem_integer p1.1.si v hw hint hm
    rw [this, hlb]; exact h0
  · rw [if_neg hi] at hr
    by_cases hn : (p1.1.name.isSome && p1.1.name == some (NameKey.node (.const 0 (wd e)))) = true
    · -- the name of the constant's own node: then `e` has the constant's value
      have hn' : p1.1.name = some (NameKey.node (.const 0 (wd e))) := by
        have : p1.1.name.isSome = true ∧ p1.1.name = some (NameKey.node (.const 0 (wd e))) := by simpa using hn
        exact this.2
      have hnm := ((conv_good anno env hctx hnrm e hok [] p1.2 p1.1 h1).1.2 v hv).2
      rw [hn'] at hnm
      simp only [NameOK, evalBV] at hnm
      exact (Option.some.inj hnm).symm
    · rw [if_neg hn] at hr
      obtain ⟨u, _, hr⟩ := bind_ok _ _ _ hr
      have := pure_ok _ _ hr
      split at this <;> cases this

end

/-- a cardinality the model obtained for a symbolic node comes with a successful abstract evaluation -/
theorem card_conv (e : BV) (hs : symBV e = true) (c : Nat) (h : card anno e = .ok c) :
    ∃ p, convBV anno e [] = .ok p ∧ p.1.si.cardinality = .ok c := by
  unfold card at h
  rw [if_pos hs] at h
  have h := liftR_ok h
  obtain ⟨p, hp, h⟩ := bind_ok _ _ _ h
  exact ⟨p, hp, h⟩


/-! ### values do not depend on the assignment when there is no symbolic leaf -/
mutual
theorem evalBV_nosym (env env' : Nat → Nat) : ∀ e : BV, symBV e = false → evalBV env e = evalBV env' e
  | .var _ _, h => by simp [symBV] at h
  | .free _ _, h => by simp [symBV] at h
  | .const _ _, _ => by simp [evalBV]
  | .bin op a b, h => by
    simp only [symBV, Bool.or_eq_false_iff] at h
    simp only [evalBV, evalBV_nosym env env' a h.1, evalBV_nosym env env' b h.2]
  | .neg a, h => by
    simp only [symBV] at h
    simp only [evalBV, evalBV_nosym env env' a h]
  | .not a, h => by
    simp only [symBV] at h
    simp only [evalBV, evalBV_nosym env env' a h]
  | .zext _ a, h => by
    simp only [symBV] at h
    simp only [evalBV, evalBV_nosym env env' a h]
  | .sext _ a, h => by
    simp only [symBV] at h
    simp only [evalBV, evalBV_nosym env env' a h]
  | .extract _ _ a, h => by
    simp only [symBV] at h
    simp only [evalBV, evalBV_nosym env env' a h]
  | .concat a b, h => by
    simp only [symBV, Bool.or_eq_false_iff] at h
    simp only [evalBV, evalBV_nosym env env' a h.1, evalBV_nosym env env' b h.2]
  | .ite c a b, h => by
    simp only [symBV, Bool.or_eq_false_iff] at h
    simp only [evalBV, evalB_nosym env env' c h.1.1, evalBV_nosym env env' a h.1.2, evalBV_nosym env env' b h.2]
theorem evalB_nosym (env env' : Nat → Nat) : ∀ c : BExp, symB c = false → evalB env c = evalB env' c
  | .lit _, _ => by simp [evalB]
  | .cmp _ a b, h => by
    simp only [symB, Bool.or_eq_false_iff] at h
    simp only [evalB, evalBV_nosym env env' a h.1, evalBV_nosym env env' b h.2]
  | .not c, h => by
    simp only [symB] at h
    simp only [evalB, evalB_nosym env env' c h]
  | .and c d, h => by
    simp only [symB, Bool.or_eq_false_iff] at h
    simp only [evalB, evalB_nosym env env' c h.1, evalB_nosym env env' d h.2]
  | .or c d, h => by
    simp only [symB, Bool.or_eq_false_iff] at h
    simp only [evalB, evalB_nosym env env' c h.1, evalB_nosym env env' d h.2]
  | .ite c a b, h => by
    simp only [symB, Bool.or_eq_false_iff] at h
    simp only [evalB, evalB_nosym env env' c h.1.1, evalB_nosym env env' a h.1.2, evalB_nosym env env' b h.2]
end

/-- the value the model moves across `+` / `-` is the value of the concrete operand -/
theorem valOf_spec (env : Nat → Nat) (e : BV) (c : Nat) (h : valOf e = .ok c) : symBV e = false ∧ evalBV env e = some c := by
  unfold valOf asConst at h
  by_cases hs : symBV e = true
  · rw [if_pos hs] at h; cases h
  · rw [if_neg hs] at h
    have hs' : symBV e = false := by simpa using hs
    refine ⟨hs', ?_⟩
    rw [evalBV_nosym env (fun _ => 0) e hs']
    cases he : evalBV (fun _ => 0) e with
    | none => rw [he] at h; cases h
    | some v => rw [he] at h; cases h; rfl

/-- widths are positive -/
theorem wd_pos (anno : Nat → SI) (env : Nat → Nat) (hwf : ∀ i, (anno i).WF) : ∀ e : BV, WTBV anno env e → 0 < wd e
  | .var i w, h => by simp only [WTBV] at h; simp only [wd]; rw [← h]; exact (hwf i).1
  | .free _ _, h => by simp only [WTBV] at h; simp only [wd]; exact h.1
  | .const _ _, h => by simp only [WTBV] at h; simp only [wd]; exact h.1
  | .bin _ a _, h => by simp only [WTBV] at h; simp only [wd]; exact wd_pos anno env hwf a h.1
  | .neg a, h => by simp only [WTBV] at h; simp only [wd]; exact wd_pos anno env hwf a h
  | .not a, h => by simp only [WTBV] at h; simp only [wd]; exact wd_pos anno env hwf a h
  | .zext _ a, h => by simp only [WTBV] at h; simp only [wd]; have := wd_pos anno env hwf a h; omega
  | .sext _ a, h => by simp only [WTBV] at h; simp only [wd]; have := wd_pos anno env hwf a h; omega
  | .extract _ _ _, h => by simp only [WTBV] at h; simp only [wd]; omega
  | .concat a _, h => by simp only [WTBV] at h; simp only [wd]; have := wd_pos anno env hwf a h.1; omega
  | .ite _ a _, h => by simp only [WTBV] at h; simp only [wd]; exact wd_pos anno env hwf a h.2.1

end Claripy.VSA.Bal
