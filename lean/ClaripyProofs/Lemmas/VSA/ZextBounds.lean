import ClaripyProofs.Lemmas.VSA.NotExt
import ClaripyProofs.Lemmas.VSA.Signed
/-! The bounds of `zero_extend(nl)` stay below `2^bits` of the operand (needed by the integer shortcut of `concat`, which adds
them to the shifted high part without reducing).  The wrapping case joins the two extended halves: the join of two
non-wrapping intervals one below the other, both below `M`, has its bounds below `M`. -/
namespace Claripy.VSA

theorem new_bounds_lt (w M st l u : Nat) (hl : l < M) (hu : u < M) (hM : M < 2 ^ w) (hnt : ¬ (l = u + 1 ∧ st = 1)) :
    (SI.new w st (l : Int) (u : Int)).lb < M ∧ (SI.new w st (l : Int) (u : Int)).ub < M := by
  have := new_bounds w st l u (by omega) (by omega) (by
    rintro ⟨h1, h2⟩
    rw [Nat.mod_eq_of_lt (by omega)] at h1
    exact hnt ⟨h1, h2⟩)
  rw [this.1, this.2]
  exact ⟨hl, hu⟩

/-- `pseudo_join` of `s = [sl, su]` and `b = [bl, bu]` with `bl ≤ bu < sl ≤ su < M < 2^w`: bounds below `M` -/
theorem pj_low (w M : Nat) (s b : SI) (hs : WFw w s) (hb : WFw w b) (hsb : s.bottom = false) (hbb : b.bottom = false)
    (hM : M < 2 ^ w) (h1 : b.lb ≤ b.ub) (h2 : b.ub < s.lb) (h3 : s.lb ≤ s.ub) (h4 : s.ub < M) :
    (pseudoJoin s b true).lb < M ∧ (pseudoJoin s b true).ub < M := by
  obtain ⟨hsw, hsbits⟩ := hs
  obtain ⟨hbw, hbbits⟩ := hb
  have hbits : s.bits = b.bits := by rw [hsbits, hbbits]
  have hsl : s.lb < 2 ^ s.bits := hsw.2.1
  have hsu : s.ub < 2 ^ s.bits := hsw.2.2.1
  have hbl : b.lb < 2 ^ s.bits := by rw [hbits]; exact hbw.2.1
  have hbu : b.ub < 2 ^ s.bits := by rw [hbits]; exact hbw.2.2.1
  have hbl' : b.lb < 2 ^ b.bits := hbw.2.1
  have hsl' : s.lb < 2 ^ b.bits := by rw [← hbits]; exact hsl
  -- the surround tests that fail
  have n1 : ¬ s.isSurrounded b = true := by
    intro h
    rcases isSurrounded_true s b hsw hbw hbits hsb h with ht | hG
    · have := (isTop_facts b hbw ht).2
      rw [hbbits] at this
      unfold cd at this; split_ifs at this <;> omega
    · have := hG.1
      unfold sur cd at this; rw [hbbits] at this; split_ifs at this <;> omega
  have n2 : ¬ b.isSurrounded s = true := by
    intro h
    rcases isSurrounded_true b s hbw hsw hbits.symm hbb h with ht | hG
    · have := (isTop_facts s hsw ht).2
      rw [hsbits] at this
      unfold cd at this; split_ifs at this <;> omega
    · have := hG.1
      unfold sur cd at this; rw [hsbits] at this; split_ifs at this <;> omega
  have n3 : ¬ s.surroundsMember (b.lb : Int) = true := by
    intro h
    have := (surrounds_sur s b.lb hsw hbl).1 h
    unfold sur cd at this; rw [hsbits] at this; split_ifs at this <;> omega
  have n4 : ¬ b.surroundsMember (s.lb : Int) = true := by
    intro h
    have := (surrounds_sur b s.lb hbw hsl').1 h
    unfold sur cd at this; rw [hbbits] at this; split_ifs at this <;> omega
  have n3' : s.surroundsMember (b.lb : Int) = false := by simpa using n3
  have n4' : b.surroundsMember (s.lb : Int) = false := by simpa using n4
  unfold pseudoJoin
  rw [if_neg (by rw [hsb]; simp), if_neg (by rw [hbb]; simp)]
  simp only [hsbits]
  by_cases hint : (s.isInteger && b.isInteger) = true
  · rw [if_pos hint]
    simp only [if_true]
    have e1 : Nat.min s.lb b.lb = b.lb := Nat.min_eq_right (by omega)
    have e2 : Nat.max s.ub b.ub = s.ub := Nat.max_eq_left (by omega)
    rw [e1, e2]
    exact new_bounds_lt w M _ _ _ (by omega) h4 hM (by omega)
  · rw [if_neg hint, if_neg n1, if_neg n2, n3', n4']
    simp only [Bool.false_and, Bool.false_eq_true, if_false, Bool.not_true]
    -- the two candidates of the smart join
    have c1 : ∀ st, (SI.new w st (b.lb : Int) (s.ub : Int)).lb < M ∧ (SI.new w st (b.lb : Int) (s.ub : Int)).ub < M :=
      fun st => new_bounds_lt w M st _ _ (by omega) h4 hM (by omega)
    generalize (if s.isInteger = true then b.stride else if b.isInteger = true then s.stride
      else Nat.gcd s.stride b.stride) = ns
    generalize Nat.gcd ns (wrappedCard (b.lb : Int) (s.lb : Int) w - 1) = st1
    generalize Nat.gcd ns (wrappedCard (s.lb : Int) (b.lb : Int) w - 1) = st2
    by_cases hnv : (SI.new w st1 (b.lb : Int) (s.ub : Int)).nValues ≤ (SI.new w st2 (s.lb : Int) (b.ub : Int)).nValues
    · rw [if_pos hnv]; exact c1 _
    · rw [if_neg hnv]
      -- the second candidate was chosen: it is not the full circle, so it keeps its bounds
      apply new_bounds_lt w M st2 _ _ (by omega) (by omega) hM
      rintro ⟨e1, e2⟩
      apply hnv
      subst e2
      -- the full circle has more values than anything
      have hfull : (SI.new w 1 (s.lb : Int) (b.ub : Int)).nValues = 2 ^ w + 1 := by
        have hne : imod (s.lb : Int) w ≠ imod (b.ub : Int) w := by
          rw [imod_of_lt _ _ (by omega), imod_of_lt _ _ (by omega)]; omega
        have hc : imod (s.lb : Int) w = (imod (b.ub : Int) w + 1) % 2 ^ w ∧ 1 = 1 := by
          rw [imod_of_lt _ _ (by omega), imod_of_lt _ _ (by omega), Nat.mod_eq_of_lt (by omega)]
          exact ⟨e1, rfl⟩
        rw [new_eq, if_neg hne, if_pos hc]
        unfold SI.nValues
        simp only [Nat.one_ne_zero, if_false, Nat.div_one]
        have hp := two_pow_pos' w
        rw [wrappedCard_nat 0 (2 ^ w - 1) w hp (by omega), cd_zero]
        omega
      rw [hfull]
      obtain ⟨g1, g2⟩ := c1 st1
      have hb1 := new_bounds w st1 b.lb s.ub (by omega) (by omega) (by
        rintro ⟨k1, _⟩
        rw [Nat.mod_eq_of_lt (by omega)] at k1
        omega)
      unfold SI.nValues
      split
      · omega
      · rw [hb1.1, hb1.2, new_bits, wrappedCard_nat _ _ _ (show b.lb < 2 ^ w by omega) (show s.ub < 2 ^ w by omega)]
        have : cd (2 ^ w) b.lb s.ub = s.ub - b.lb := by unfold cd; split_ifs <;> omega
        rw [this]
        have := Nat.div_le_self (s.ub - b.lb + 1) (SI.new w st1 (b.lb : Int) (s.ub : Int)).stride
        omega

/-- the shape of `_ssplit` on a wrapping interval: a first piece starting at the lower bound, possibly a second one ending
at the upper bound; both are constructor results -/
theorem ssplit_wrap_shape (s : SI) (hw : s.WF) (hwrap : s.ub < s.lb) :
    ∃ A, (s.ssplit = .ok [A] ∨ ∃ B, s.ssplit = .ok [A, B] ∧ B.renorm = B ∧ B.ub = s.ub ∧ B.lb ≤ B.ub) ∧
      A.renorm = A ∧ A.lb = s.lb ∧ A.lb ≤ A.ub := by
  have hsp := ssplit_wrap s hw hwrap
  obtain ⟨h0, hlb, hub, hst⟩ := hw
  simp only [] at hsp
  have hsne : s.stride ≠ 0 := by intro h; have := hst.1 h; omega
  have hspos : 0 < s.stride := Nat.pos_of_ne_zero hsne
  generalize hK : (2 ^ s.bits - 1 - s.lb) - (2 ^ s.bits - 1 - s.lb) % s.stride = K at hsp
  have hK3 : K ≤ 2 ^ s.bits - 1 - s.lb := by rw [← hK]; exact Nat.sub_le _ _
  have hK2 : 2 ^ s.bits - 1 - s.lb < K + s.stride := by
    have := Nat.mod_lt (2 ^ s.bits - 1 - s.lb) hspos
    have := Nat.mod_le (2 ^ s.bits - 1 - s.lb) s.stride
    omega
  have hlk : s.lb + K < 2 ^ s.bits := by omega
  have hA := new_bounds s.bits s.stride s.lb (s.lb + K) hlb hlk (by
    rintro ⟨h1, _⟩
    rw [succ_mod_cases _ _ hlk] at h1
    split_ifs at h1 <;> omega)
  refine ⟨SI.new s.bits s.stride (s.lb : Int) ((s.lb + K : Nat) : Int), ?_, new_renorm _ _ _ _ h0, hA.1, by rw [hA.1, hA.2]; omega⟩
  by_cases hbr : K + s.stride > cd (2 ^ s.bits) s.lb s.ub
  · rw [if_pos hbr] at hsp; exact Or.inl hsp
  · rw [if_neg hbr] at hsp
    have hcd : cd (2 ^ s.bits) s.lb s.ub = s.ub + 2 ^ s.bits - s.lb := by unfold cd; split_ifs <;> omega
    have hbL : (s.lb + K + s.stride) % 2 ^ s.bits = s.lb + K + s.stride - 2 ^ s.bits := by
      have : s.lb + K + s.stride = (s.lb + K + s.stride - 2 ^ s.bits) + 2 ^ s.bits := by omega
      rw [this, Nat.add_mod_right, Nat.mod_eq_of_lt (by omega)]
      omega
    rw [hbL] at hsp
    have hbLlt : s.lb + K + s.stride - 2 ^ s.bits < 2 ^ s.bits := by omega
    have hB := new_bounds s.bits s.stride (s.lb + K + s.stride - 2 ^ s.bits) s.ub hbLlt hub (by
      rintro ⟨h1, _⟩
      rw [succ_mod_cases _ _ hub] at h1
      split_ifs at h1 <;> omega)
    exact Or.inr ⟨_, hsp, new_renorm _ _ _ _ h0, hB.2, by rw [hB.1, hB.2]; omega⟩

/-- **the bounds of `zero_extend` stay below `2^bits` of the operand** -/
theorem zeroExtend_bounds (b r : SI) (nl : Nat) (hb : b.WF) (hnb : b.bottom = false) (hnl : b.bits < nl)
    (h : b.zeroExtend nl = .ok r) : r.lb < 2 ^ b.bits ∧ r.ub < 2 ^ b.bits := by
  have hM : 2 ^ b.bits < 2 ^ nl := Nat.pow_lt_pow_right (by omega) hnl
  unfold SI.zeroExtend at h
  by_cases hwrap : (!b.bottom && decide (b.lb > b.ub)) = true
  · rw [if_pos hwrap] at h
    have hw' : b.ub < b.lb := by simpa [hnb] using hwrap
    obtain ⟨ps, hps, hprop, _, _⟩ := ssplit_spec b hb hnb
    obtain ⟨A, hsh, hAr, hAl, hAle⟩ := ssplit_wrap_shape b hb hw'
    rw [hps] at h hsh
    simp only [bind, Except.bind] at h
    have hwiden : ∀ p, p ∈ ps → WFw nl ({ p with bits := nl } : SI) :=
      fun p hp => widen_bits_WF _ _ _ (hprop p hp).1 (by omega)
    rcases hsh with h1 | ⟨B, h2, hBr, hBu, hBle⟩
    · have : ps = [A] := by cases h1; rfl
      subst this
      simp only [List.map_cons, List.map_nil, leastUpperBound, pure, Except.pure, hAr] at h
      have hr : r = ({ A with bits := nl } : SI).renorm := by cases h; rfl
      obtain ⟨hAw, hAb, _, _⟩ := hprop A List.mem_cons_self
      have hAu : A.ub < 2 ^ b.bits := hAw.2 ▸ hAw.1.2.2.1
      rw [hr]
      unfold SI.renorm
      simp only [hAb, Bool.false_eq_true, if_false]
      exact new_bounds_lt nl (2 ^ b.bits) _ _ _ (by omega) hAu hM (by omega)
    · have : ps = [A, B] := by cases h2; rfl
      subst this
      simp only [List.map_cons, List.map_nil, leastUpperBound, pure, Except.pure, hAr, hBr] at h
      have hr : r = pseudoJoin ({ A with bits := nl } : SI) ({ B with bits := nl } : SI) true := by cases h; rfl
      obtain ⟨hAw, hAb, _, _⟩ := hprop A List.mem_cons_self
      obtain ⟨hBw, hBb, _, _⟩ := hprop B (List.mem_cons_of_mem _ List.mem_cons_self)
      have hAu : A.ub < 2 ^ b.bits := hAw.2 ▸ hAw.1.2.2.1
      rw [hr]
      exact pj_low nl (2 ^ b.bits) _ _ (hwiden A List.mem_cons_self)
        (hwiden B (List.mem_cons_of_mem _ List.mem_cons_self)) hAb hBb hM hBle (by show B.ub < A.lb; omega) hAle hAu
  · rw [if_neg hwrap] at h
    have hr : r = { b.renorm with bits := nl } := by cases h; rfl
    subst hr
    have := renorm_WFw _ b ⟨hb, rfl⟩
    exact ⟨this.2 ▸ this.1.2.1, this.2 ▸ this.1.2.2.1⟩

end Claripy.VSA
