import ClaripyProofs.Lemmas.VSA.Members
import ClaripyProofs.Lemmas.VSA.Split
import ClaripyProofs.Lemmas.VSA.Signed
/-! `eval(n)` (unsigned) lists exactly the first `n` members, in member-list order. -/
namespace Claripy.VSA

/-- number of terms `L, L + stride, …` that are `≤ U` -/
def cnt (stride U L : Nat) : Nat := if L ≤ U then (U - L) / stride + 1 else 0

theorem cnt_succ (stride U L : Nat) (hs : 0 < stride) (h : L ≤ U) : cnt stride U L = cnt stride U (L + stride) + 1 := by
  unfold cnt
  rw [if_pos h]
  by_cases h2 : L + stride ≤ U
  · rw [if_pos h2]
    have : U - L = (U - (L + stride)) + stride := by omega
    rw [this, Nat.add_div_right _ hs]
  · rw [if_neg h2]
    have : (U - L) / stride = 0 := Nat.div_eq_of_lt (by omega)
    omega

/-- the progression `L, L + stride, …` with `c` terms, as integers -/
def prog (stride L c : Nat) : List Int := (List.range c).map fun j => ((L + j * stride : Nat) : Int)

theorem prog_succ (stride L c : Nat) : prog stride L (c + 1) = (L : Int) :: prog stride (L + stride) c := by
  unfold prog
  rw [List.range_succ_eq_map, List.map_cons, List.map_map]
  congr 1
  · simp
  · apply List.map_congr_left
    intro j _
    simp only [Function.comp]
    congr 1
    rw [Nat.succ_mul]; omega

/-- the `while` loop of `eval` on one piece appends the first terms of the progression until `n` values are there -/
theorem evalLoop_spec (stride n U : Nat) (hs : 0 < stride) :
    ∀ (fuel L : Nat) (acc : List Int), n ≤ acc.length + fuel →
      evalLoop stride n (U : Int) fuel (L : Int) acc = acc ++ (prog stride L (cnt stride U L)).take (n - acc.length) := by
  intro fuel
  induction fuel with
  | zero =>
    intro L acc h
    unfold evalLoop
    have : n - acc.length = 0 := by omega
    rw [this, List.take_zero, List.append_nil]
  | succ f ih =>
    intro L acc h
    unfold evalLoop
    by_cases hc : acc.length < n ∧ (L : Int) ≤ (U : Int)
    · rw [if_pos hc]
      have hLU : L ≤ U := by omega
      have e : ((L : Int) + (stride : Int)) = ((L + stride : Nat) : Int) := by push_cast; rfl
      rw [e, ih (L + stride) (acc ++ [(L : Int)]) (by rw [List.length_append]; simp; omega)]
      rw [cnt_succ stride U L hs hLU, prog_succ]
      have hk : n - acc.length = (n - (acc ++ [(L : Int)]).length) + 1 := by rw [List.length_append]; simp; omega
      rw [hk, List.take_succ_cons, List.append_assoc]
      rfl
    · rw [if_neg hc]
      by_cases h1 : acc.length < n
      · have hLU : ¬ L ≤ U := by intro h2; apply hc; exact ⟨h1, by omega⟩
        unfold cnt; rw [if_neg hLU]
        unfold prog; simp
      · have : n - acc.length = 0 := by omega
        rw [this, List.take_zero, List.append_nil]

theorem prog_add (stride : Nat) : ∀ (c1 L c2 : Nat),
    prog stride L (c1 + c2) = prog stride L c1 ++ prog stride (L + c1 * stride) c2 := by
  intro c1
  induction c1 with
  | zero => intro L c2; simp [prog]
  | succ c ih =>
    intro L c2
    have e : c + 1 + c2 = (c + c2) + 1 := by omega
    rw [e, prog_succ, prog_succ, ih (L + stride) c2, List.cons_append]
    have : L + stride + c * stride = L + (c + 1) * stride := by rw [Nat.succ_mul]; omega
    rw [this]

theorem prog_length (stride L c : Nat) : (prog stride L c).length = c := by simp [prog]

/-- with `n = 0` the loop returns its accumulator -/
theorem foldl_eval_zero (stride : Nat) (bs : List (Int × Int)) :
    bs.foldl (fun results p => evalLoop stride 0 p.2 0 p.1 results) [] = [] := by
  induction bs with
  | nil => rfl
  | cons q qs ih => simp only [List.foldl_cons]; unfold evalLoop; exact ih

theorem renorm_bounds_nowrap (s : SI) (hs : s.WF) (hnb : s.bottom = false) (hle : s.lb ≤ s.ub) :
    s.renorm.lb = s.lb ∧ s.renorm.ub = s.ub := by
  obtain ⟨_, hl, hu, _⟩ := hs
  unfold SI.renorm
  rw [hnb]
  simp only [Bool.false_eq_true, if_false]
  rw [new_eq, imod_of_lt _ _ hl, imod_of_lt _ _ hu]
  split
  · exact ⟨rfl, rfl⟩
  · split
    · rename_i h1 h2
      have h3 := h2.1
      rw [succ_mod_cases _ _ hu] at h3
      split_ifs at h3
      · omega
      · show 0 = s.lb ∧ 2 ^ s.bits - 1 = s.ub
        omega
    · exact ⟨rfl, rfl⟩

/-- the member list as integers is the progression from the lower bound, reduced modulo `2^bits` -/
theorem members_cast (s : SI) (hnb : s.bottom = false) (hz : s.stride ≠ 0) :
    s.members.map (fun (v : Nat) => (v : Int)) =
      (List.range (s.span / s.stride + 1)).map fun k => (((s.lb + k * s.stride) % 2 ^ s.bits : Nat) : Int) := by
  unfold SI.members
  rw [hnb]
  simp only [Bool.false_eq_true, if_false, if_neg hz, List.map_map]
  rfl

/-- **`eval(n)` (unsigned) returns exactly the first `n` members** in the order lower bound, lower bound + stride, … -/
theorem eval_exact (s : SI) (n : Nat) (l : List Int) (hs : s.WF) (hnb : s.bottom = false) (h : s.eval n false = .ok l) :
    l = (s.members.take n).map fun (v : Nat) => (v : Int) := by
  have hwf := hs
  obtain ⟨h0, hl, hu, hst⟩ := hs
  have hm := two_pow_pos' s.bits
  unfold SI.eval at h
  rw [hnb] at h
  simp only [Bool.false_eq_true, if_false] at h
  by_cases hc : s.stride = 0 ∧ n > 0
  · rw [if_pos hc] at h
    have : l = [(s.lb : Int)] := by cases h; rfl
    subst this
    unfold SI.members
    rw [hnb]
    simp only [Bool.false_eq_true, if_false, if_pos hc.1]
    obtain ⟨k, hk⟩ : ∃ k, n = k + 1 := ⟨n - 1, by omega⟩
    rw [hk]; simp
  rw [if_neg hc] at h
  -- the unsigned bounds
  by_cases hn0 : n = 0
  · subst hn0
    cases hb : s.unsignedBounds with
    | error e => rw [hb] at h; cases h
    | ok bs =>
      rw [hb] at h
      have : l = bs.foldl (fun results p => evalLoop s.stride 0 p.2 0 p.1 results) [] := by cases h; rfl
      rw [this, foldl_eval_zero]; rfl
  have hz : s.stride ≠ 0 := by intro hh; exact hc ⟨hh, by omega⟩
  have hsp : 0 < s.stride := Nat.pos_of_ne_zero hz
  have hspan := span_eq s hwf
  rw [List.map_take, members_cast s hnb hz, hspan]
  by_cases hwrap : s.ub < s.lb
  · -- wrapping: one or two pieces
    have hsplit := ssplit_wrap s hwf hwrap
    simp only [] at hsplit
    generalize hK : (2 ^ s.bits - 1 - s.lb) - (2 ^ s.bits - 1 - s.lb) % s.stride = K at hsplit
    have hK1 : s.stride ∣ K := by rw [← hK]; exact Nat.dvd_sub_mod _
    have hK2 : 2 ^ s.bits - 1 - s.lb < K + s.stride := by
      have := Nat.mod_lt (2 ^ s.bits - 1 - s.lb) hsp
      have := Nat.mod_le (2 ^ s.bits - 1 - s.lb) s.stride
      omega
    have hK3 : K ≤ 2 ^ s.bits - 1 - s.lb := by rw [← hK]; exact Nat.sub_le _ _
    have hlk : s.lb + K < 2 ^ s.bits := by omega
    have hcds : cd (2 ^ s.bits) s.lb s.ub = s.ub + 2 ^ s.bits - s.lb := by unfold cd; split_ifs <;> omega
    obtain ⟨c1', hc1'⟩ := hK1
    have hKdiv : K / s.stride = c1' := by rw [hc1', Nat.mul_div_cancel_left _ hsp]
    -- bounds of the first piece
    have hAb := new_bounds s.bits s.stride s.lb (s.lb + K) hl hlk (by
      rintro ⟨h1, _⟩
      rw [succ_mod_cases _ _ hlk] at h1
      split_ifs at h1 <;> omega)
    have hcntA : cnt s.stride (s.lb + K) s.lb = c1' + 1 := by
      unfold cnt; rw [if_pos (by omega)]
      have : s.lb + K - s.lb = K := by omega
      rw [this, hKdiv]
    -- the members below the pole
    have hlow : ∀ k, k < c1' + 1 → (s.lb + k * s.stride) % 2 ^ s.bits = s.lb + k * s.stride := by
      intro k hk
      apply Nat.mod_eq_of_lt
      have : k * s.stride ≤ c1' * s.stride := Nat.mul_le_mul_right _ (by omega)
      rw [Nat.mul_comm c1' s.stride, ← hc1'] at this
      omega
    by_cases hbr : K + s.stride > cd (2 ^ s.bits) s.lb s.ub
    · rw [if_pos hbr] at hsplit
      have hb : s.unsignedBounds = .ok [((s.lb : Int), ((s.lb + K : Nat) : Int))] := by
        unfold SI.unsignedBounds; rw [hsplit]
        simp only [bind, Except.bind, pure, Except.pure, List.map_cons, List.map_nil, hAb.1, hAb.2]
      rw [hb] at h
      have hl' : l = evalLoop s.stride n ((s.lb + K : Nat) : Int) n (s.lb : Int) [] := by cases h; rfl
      rw [hl', evalLoop_spec s.stride n (s.lb + K) hsp n s.lb [] (by simp), hcntA]
      simp only [List.nil_append, List.length_nil, Nat.sub_zero]
      have hcount : cd (2 ^ s.bits) s.lb s.ub / s.stride + 1 = c1' + 1 := by
        have h1 : c1' ≤ cd (2 ^ s.bits) s.lb s.ub / s.stride := by
          apply (Nat.le_div_iff_mul_le hsp).2
          rw [Nat.mul_comm, ← hc1']; omega
        have h2 : cd (2 ^ s.bits) s.lb s.ub / s.stride < c1' + 1 := by
          apply (Nat.div_lt_iff_lt_mul hsp).2
          rw [Nat.mul_comm, Nat.mul_succ, ← hc1']; omega
        omega
      rw [hcount]
      congr 1
      unfold prog
      apply List.map_congr_left
      intro k hk
      rw [hlow k (List.mem_range.1 hk)]
    · rw [if_neg hbr] at hsplit
      have hbLeq : (s.lb + K + s.stride) % 2 ^ s.bits = s.lb + K + s.stride - 2 ^ s.bits := by
        have : s.lb + K + s.stride = (s.lb + K + s.stride - 2 ^ s.bits) + 2 ^ s.bits := by omega
        rw [this, Nat.add_mod_right, Nat.mod_eq_of_lt (by omega)]
        omega
      rw [hbLeq] at hsplit
      generalize hbl : s.lb + K + s.stride - 2 ^ s.bits = bl at hsplit
      have hblt : bl < 2 ^ s.bits := by omega
      have hble : bl ≤ s.ub := by omega
      have hBb := new_bounds s.bits s.stride bl s.ub hblt hu (by
        rintro ⟨h1, _⟩
        rw [succ_mod_cases _ _ hu] at h1
        split_ifs at h1 <;> omega)
      have hb : s.unsignedBounds = .ok [((s.lb : Int), ((s.lb + K : Nat) : Int)), ((bl : Int), (s.ub : Int))] := by
        unfold SI.unsignedBounds; rw [hsplit]
        simp only [bind, Except.bind, pure, Except.pure, List.map_cons, List.map_nil, hAb.1, hAb.2, hBb.1, hBb.2]
      rw [hb] at h
      have hl' : l = evalLoop s.stride n (s.ub : Int) n (bl : Int)
          (evalLoop s.stride n ((s.lb + K : Nat) : Int) n (s.lb : Int) []) := by cases h; rfl
      rw [hl', evalLoop_spec s.stride n (s.lb + K) hsp n s.lb [] (by simp), hcntA]
      simp only [List.nil_append, List.length_nil, Nat.sub_zero]
      rw [evalLoop_spec s.stride n s.ub hsp n bl _ (by omega)]
      -- count of the second piece
      generalize hc2 : cnt s.stride s.ub bl = c2
      have hc2' : c2 = (s.ub - bl) / s.stride + 1 := by rw [← hc2]; unfold cnt; rw [if_pos hble]
      have hcount : cd (2 ^ s.bits) s.lb s.ub / s.stride + 1 = (c1' + 1) + c2 := by
        have e : cd (2 ^ s.bits) s.lb s.ub = (s.ub - bl) + s.stride * (c1' + 1) := by
          rw [Nat.mul_succ, ← hc1']; omega
        rw [e, Nat.add_mul_div_left _ _ hsp, hc2']; omega
      rw [hcount, List.range_add, List.map_append, List.map_map, List.take_append]
      have hP1 : (List.range (c1' + 1)).map (fun k => (((s.lb + k * s.stride) % 2 ^ s.bits : Nat) : Int)) =
          prog s.stride s.lb (c1' + 1) := by
        unfold prog
        apply List.map_congr_left
        intro k hk
        rw [hlow k (List.mem_range.1 hk)]
      have hP2 : (List.range c2).map ((fun k => (((s.lb + k * s.stride) % 2 ^ s.bits : Nat) : Int)) ∘ fun x => c1' + 1 + x) =
          prog s.stride bl c2 := by
        unfold prog
        apply List.map_congr_left
        intro j hj
        have hj' := List.mem_range.1 hj
        simp only [Function.comp]
        congr 1
        have e1 : s.lb + (c1' + 1 + j) * s.stride = (bl + j * s.stride) + 2 ^ s.bits := by
          rw [Nat.add_mul, Nat.succ_mul, Nat.mul_comm c1' s.stride, ← hc1']; omega
        have e2 : bl + j * s.stride < 2 ^ s.bits := by
          have : j * s.stride ≤ (s.ub - bl) / s.stride * s.stride := Nat.mul_le_mul_right _ (by omega)
          have := Nat.div_mul_le_self (s.ub - bl) s.stride
          omega
        rw [e1, Nat.add_mod_right, Nat.mod_eq_of_lt e2]
      rw [hP1, hP2, prog_length]
      congr 2
      rw [List.length_take, prog_length]
      omega
  · -- not wrapping: one piece, a copy
    have hsplit : s.ssplit = .ok [s.renorm] := by unfold SI.ssplit; rw [if_neg hwrap]; rfl
    obtain ⟨hr1, hr2⟩ := renorm_bounds_nowrap s hwf hnb (by omega)
    have hb : s.unsignedBounds = .ok [((s.lb : Int), (s.ub : Int))] := by
      unfold SI.unsignedBounds; rw [hsplit]
      simp only [bind, Except.bind, pure, Except.pure, List.map_cons, List.map_nil, hr1, hr2]
    rw [hb] at h
    have hl' : l = evalLoop s.stride n (s.ub : Int) n (s.lb : Int) [] := by cases h; rfl
    rw [hl', evalLoop_spec s.stride n s.ub hsp n s.lb [] (by simp)]
    simp only [List.nil_append, List.length_nil, Nat.sub_zero]
    have hcds : cd (2 ^ s.bits) s.lb s.ub = s.ub - s.lb := by unfold cd; split_ifs <;> omega
    have hcnt : cnt s.stride s.ub s.lb = cd (2 ^ s.bits) s.lb s.ub / s.stride + 1 := by
      unfold cnt; rw [if_pos (by omega), hcds]
    rw [hcnt]
    congr 1
    unfold prog
    apply List.map_congr_left
    intro k hk
    have hk' := List.mem_range.1 hk
    congr 1
    symm
    apply Nat.mod_eq_of_lt
    have : k * s.stride ≤ cd (2 ^ s.bits) s.lb s.ub / s.stride * s.stride := Nat.mul_le_mul_right _ (by omega)
    have := Nat.div_mul_le_self (cd (2 ^ s.bits) s.lb s.ub) s.stride
    omega

end Claripy.VSA
