import ClaripyProofs.Lemmas.VSA.Members
import ClaripyProofs.Lemmas.VSA.Split
/-! `eval(n)` (unsigned) lists exactly the first `n` members, in member-list order. -/
namespace Claripy.VSA

/-- number of terms `L, L + stride, …` that are `≤ U` -/
def cnt (stride U L : Nat) : Nat := if L ≤ U then (U - L) / stride + 1 else 0

theorem cnt_succ (stride U L : Nat) (hs : 0 < stride) (h : L ≤ U) : cnt stride U L = cnt stride U (L + stride) + 1 := by
  unfold cnt
  rw [if_pos h]
  by_cases h2 : L + stride ≤ U
  · rw [if_pos h2]
    have : U - L = (U - (L + stride)) + stride := by omega
    rw [this, Nat.add_div_right _ hs]
  · rw [if_neg h2]
    have : (U - L) / stride = 0 := Nat.div_eq_of_lt (by omega)
    omega

/-- the progression `L, L + stride, …` with `c` terms, as integers -/
def prog (stride L c : Nat) : List Int := (List.range c).map fun j => ((L + j * stride : Nat) : Int)

theorem prog_succ (stride L c : Nat) : prog stride L (c + 1) = (L : Int) :: prog stride (L + stride) c := by
  unfold prog
  rw [List.range_succ_eq_map, List.map_cons, List.map_map]
  congr 1
  · simp
  · apply List.map_congr_left
    intro j _
    simp only [Function.comp]
    congr 1
    rw [Nat.succ_mul]; omega

/-- the `while` loop of `eval` on one piece appends the first terms of the progression until `n` values are there -/
theorem evalLoop_spec (stride n U : Nat) (hs : 0 < stride) :
    ∀ (fuel L : Nat) (acc : List Int), n ≤ acc.length + fuel →
      evalLoop stride n (U : Int) fuel (L : Int) acc = acc ++ (prog stride L (cnt stride U L)).take (n - acc.length) := by
  intro fuel
  induction fuel with
  | zero =>
    intro L acc h
    unfold evalLoop
    have : n - acc.length = 0 := by omega
    rw [this, List.take_zero, List.append_nil]
  | succ f ih =>
    intro L acc h
    unfold evalLoop
    by_cases hc : acc.length < n ∧ (L : Int) ≤ (U : Int)
    · rw [if_pos hc]
      have hLU : L ≤ U := by omega
      have e : ((L : Int) + (stride : Int)) = ((L + stride : Nat) : Int) := by push_cast; rfl
      rw [e, ih (L + stride) (acc ++ [(L : Int)]) (by rw [List.length_append]; simp; omega)]
      rw [cnt_succ stride U L hs hLU, prog_succ]
      have hk : n - acc.length = (n - (acc ++ [(L : Int)]).length) + 1 := by rw [List.length_append]; simp; omega
      rw [hk, List.take_succ_cons, List.append_assoc]
      rfl
    · rw [if_neg hc]
      by_cases h1 : acc.length < n
      · have hLU : ¬ L ≤ U := by intro h2; apply hc; exact ⟨h1, by omega⟩
        unfold cnt; rw [if_neg hLU]
        unfold prog; simp
      · have : n - acc.length = 0 := by omega
        rw [this, List.take_zero, List.append_nil]

end Claripy.VSA
