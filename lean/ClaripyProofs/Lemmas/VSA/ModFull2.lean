import ClaripyProofs.Lemmas.VSA.ModFull1
/-! Towards `__mod__` with an unaligned divisor, part 2: the partial products `{k} * b` of a single value with a
(non-wrapping) piece `b` that need not be aligned. -/
namespace Claripy.VSA

/-- `fin` of the partial products: an interval (or the full circle) is well formed as soon as a zero stride comes with
equal bounds -/
theorem fin_WF (w g : Nat) (lb ub : Int) (hw : 0 < w) (h0 : g = 0 → lb = ub) :
    WFw w (if ub - lb < 2 ^ w then SI.new w g lb ub else SI.top w) ∧
      (if ub - lb < 2 ^ w then SI.new w g lb ub else SI.top w).bottom = false := by
  split
  · exact ⟨⟨new_WF w g lb ub hw (fun h => by rw [h0 h]), new_bits _ _ _ _⟩, new_bottom _ _ _ _⟩
  · exact ⟨⟨top_WF w hw, top_bits w⟩, by unfold SI.top; exact new_bottom _ _ _ _⟩

/-- a single value `k` of width `w` -/
structure Single (w k : Nat) (a : SI) : Prop where
  wf : WFw w a
  nb : a.bottom = false
  lb : a.lb = k
  ub : a.ub = k

theorem Single.stride {w k : Nat} {a : SI} (h : Single w k a) : a.stride = 0 :=
  h.wf.1.2.2.2.2 (by rw [h.lb, h.ub])
theorem Single.lt {w k : Nat} {a : SI} (h : Single w k a) : k < 2 ^ w := by
  have := h.wf.1.2.1; rwa [h.wf.2, h.lb] at this
theorem Single.isInt {w k : Nat} {a : SI} (h : Single w k a) : a.isInteger = true := by
  simp [SI.isInteger, h.lb, h.ub]

/-- **`_wrapped_unsigned_mul`** of a single value with any well-formed interval: closed -/
theorem umul_single_WF (w k : Nat) (a b : SI) (ha : Single w k a) (hb : WFw w b) :
    WFw w (wrappedUnsignedMul a b) ∧ (wrappedUnsignedMul a b).bottom = false := by
  have hw0 : 0 < w := by rw [← hb.2]; exact hb.1.1
  unfold wrappedUnsignedMul
  simp only [ha.wf.2, hb.2, Nat.max_self, ha.lb, ha.ub, ha.stride, ha.isInt, Nat.zero_mul, if_true]
  apply fin_WF w _ _ _ hw0
  intro hg
  by_cases hbi : b.isInteger = true
  · have := (isInteger_iff b).1 hbi
    rw [this]
  · rw [if_neg hbi] at hg
    have hbs : b.stride ≠ 0 := fun h0 => hbi ((isInteger_iff b).2 (hb.1.2.2.2.1 h0))
    have hk : k = 0 := by
      rcases Nat.mul_eq_zero.1 hg with h | h
      · exact h
      · exact absurd h hbs
    rw [hk]; simp

/-- … and, when `k * b.ub` does not overflow and `b` is a proper non-wrapping interval, it is the interval
`(k·stride)[k·lb, k·ub]`, which contains `k·y` for every member `y` -/
theorem umul_single_eq (w k : Nat) (a b : SI) (ha : Single w k a) (hb : WFw w b) (hbi : b.lb ≠ b.ub) (hle : b.lb ≤ b.ub)
    (hno : k * b.ub < 2 ^ w) :
    wrappedUnsignedMul a b = SI.new w (k * b.stride) ((k * b.lb : Nat) : Int) ((k * b.ub : Nat) : Int) := by
  have hbI : b.isInteger = false := by simp [SI.isInteger, hbi]
  have hlu : k * b.lb ≤ k * b.ub := Nat.mul_le_mul_left _ hle
  unfold wrappedUnsignedMul
  simp only [ha.wf.2, hb.2, Nat.max_self, ha.lb, ha.ub, ha.isInt, hbI, Bool.false_eq_true, if_false, if_true]
  rw [if_pos]
  have : ((2 : Int) ^ w) = ((2 ^ w : Nat) : Int) := by push_cast; rfl
  rw [this]; omega

theorem umul_single_mem (w k : Nat) (b : SI) (hb : WFw w b) (hbb : b.bottom = false) (hle : b.lb ≤ b.ub)
    (hno : k * b.ub < 2 ^ w) (y : Nat) (hy : b.mem y) :
    (SI.new w (k * b.stride) ((k * b.lb : Nat) : Int) ((k * b.ub : Nat) : Int)).mem (k * y) := by
  obtain ⟨h1, h2, h3⟩ := mem_nowrap w b hb hle y hy
  have hlu : k * b.lb ≤ k * b.ub := Nat.mul_le_mul_left _ hle
  have hly : k * b.lb ≤ k * y := Nat.mul_le_mul_left _ h1
  have hyu : k * y ≤ k * b.ub := Nat.mul_le_mul_left _ h2
  have e1 : cd (2 ^ w) (k * b.lb) (k * y) = k * y - k * b.lb := by unfold cd; split_ifs <;> omega
  have e2 : cd (2 ^ w) (k * b.lb) (k * b.ub) = k * b.ub - k * b.lb := by unfold cd; split_ifs <;> omega
  have hd : k * b.stride ∣ k * y - k * b.lb := by
    rw [← Nat.mul_sub]; exact Nat.mul_dvd_mul_left _ h3
  apply mem_new_of w _ _ _ _ (by omega) hno (by omega)
  · rw [e1, e2]; omega
  · rw [e1]; exact hd
  · intro h0; rw [e1]; rw [h0] at hd; exact Nat.eq_zero_of_zero_dvd hd

/-- the signed value of a number with the sign bit is not zero -/
theorem toSigned_ne_zero (v w : Nat) (hw : 0 < w) (hv : v < 2 ^ w) (h : isMsbZero (v : Int) w = false) :
    toSigned (v : Int) w ≠ 0 := by
  have hm := two_pow_half w hw
  rw [toSigned_nat v w hw hv]
  unfold Conc.toInt
  have : ¬ v < 2 ^ (w - 1) := fun hh => by rw [(isMsbZero_iff v w hw hv).2 hh] at h; cases h
  rw [if_neg this]; omega

/-- **`_wrapped_signed_mul`** of a single value with any well-formed interval: closed -/
theorem smul_single_WF (w k : Nat) (a b sm : SI) (ha : Single w k a) (hb : WFw w b)
    (h : wrappedSignedMul a b = .ok sm) : WFw w sm ∧ sm.bottom = false := by
  have hw0 : 0 < w := by rw [← hb.2]; exact hb.1.1
  have hbst : b.stride = 0 ↔ b.lb = b.ub := hb.1.2.2.2
  unfold wrappedSignedMul at h
  simp only [ha.wf.2, hb.2, Nat.max_self, ha.lb, ha.ub, ha.stride, ha.isInt, if_true, Nat.zero_mul, Nat.cast_zero,
    Int.zero_mul, Int.natAbs_zero, ite_self] at h
  -- the stride: zero only if `b` is a single value, or `k = 0` without the sign bit
  have hg0 : ∀ g : Nat, g = (if b.isInteger = true then 0
        else if isMsbZero (k : Int) w = true then b.stride * k else ((b.stride : Int) * toSigned (k : Int) w).natAbs) →
      g = 0 → b.lb = b.ub ∨ (isMsbZero (k : Int) w = true ∧ k = 0) := by
    intro g hg h0
    by_cases hbi : b.isInteger = true
    · exact Or.inl ((isInteger_iff b).1 hbi)
    · rw [if_neg hbi] at hg
      have hbs : b.stride ≠ 0 := fun hz => hbi ((isInteger_iff b).2 (hbst.1 hz))
      by_cases hk : isMsbZero (k : Int) w = true
      · rw [if_pos hk] at hg
        right
        refine ⟨hk, ?_⟩
        rw [hg] at h0
        rcases Nat.mul_eq_zero.1 h0 with h1 | h1
        · exact absurd h1 hbs
        · exact h1
      · rw [if_neg hk] at hg
        exfalso
        rw [hg] at h0
        have := Int.natAbs_eq_zero.1 h0
        rcases Int.mul_eq_zero.1 this with h1 | h1
        · exact hbs (by exact_mod_cast h1)
        · exact toSigned_ne_zero k w hw0 ha.lt (by simpa using hk) h1
  generalize hgd : (if b.isInteger = true then 0
        else if isMsbZero (k : Int) w = true then b.stride * k else ((b.stride : Int) * toSigned (k : Int) w).natAbs) = g at h
  have hz := hg0 g hgd.symm
  have h00 : toSigned ((0 : Nat) : Int) w = 0 := by
    rw [toSigned_nat 0 w hw0 (two_pow_pos' w)]; unfold Conc.toInt; simp [two_pow_pos']
  split at h
  · have := pure_ok' h; subst this
    apply fin_WF w _ _ _ hw0
    intro hg
    rcases hz hg with he | ⟨_, hk⟩
    · rw [he]
    · rw [hk]; simp
  · split at h
    · have := pure_ok' h; subst this
      apply fin_WF w _ _ _ hw0
      intro hg
      rcases hz hg with he | ⟨hk1, hk⟩
      · rw [he]
      · rename_i hc
        simp [hk1] at hc
    · split at h
      · have := pure_ok' h; subst this
        apply fin_WF w _ _ _ hw0
        intro hg
        rcases hz hg with he | ⟨hk1, hk⟩
        · rw [he]
        · rename_i hc
          simp [hk1] at hc
      · split at h
        · have := pure_ok' h; subst this
          apply fin_WF w _ _ _ hw0
          intro hg
          rcases hz hg with he | ⟨_, hk⟩
          · rw [he]
          · rw [hk]; simp
        · cases h

end Claripy.VSA
