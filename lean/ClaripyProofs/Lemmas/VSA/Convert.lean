import Claripy.VSA.BackendSpec
import ClaripyProofs.Lemmas.VSA.Mem
/-!
Structural soundness of the VSA backend's evaluation (`convBV`/`convB`): *if* every interval operation the backend
dispatches to is closed under well-formedness and sound on members (`OpsOK`, the bundle of C21/C22 obligations), *then*
for every well-typed AST, every assignment within the annotations and every recorded set order, the abstract value
contains the concrete value; names carry equality of values; Boolean results contain the truth value that occurs.
-/
namespace Claripy.VSA

theorem bind_ok {α β : Type} (x : R α) (f : α → R β) (r : β) (h : (x >>= f) = .ok r) :
    ∃ a, x = .ok a ∧ f a = .ok r := by
  cases x with
  | error e => cases h
  | ok a => exact ⟨a, rfl, h⟩

theorem obind_some {α β : Type} (x : Option α) (f : α → Option β) (r : β) (h : (x >>= f) = some r) :
    ∃ a, x = some a ∧ f a = some r := by
  cases x with
  | none => cases h
  | some a => exact ⟨a, rfl, h⟩

theorem pure_ok {α : Type} (a r : α) (h : (pure a : R α) = .ok r) : r = a := by
  cases h; rfl

/-- the per-operation obligations (closure under `WF` with the right width, and soundness on members) -/
structure OpsOK : Prop where
  bin : ∀ (op : BinOp) (a b r : SI) (o o' : Orders), a.WF → b.WF → a.bits = b.bits → applyBin op a b o = .ok (r, o') →
    (r.WF ∧ r.bits = a.bits) ∧ ∀ x y v, a.mem x → b.mem y → concBin op a.bits x y = some v → r.mem v
  neg : ∀ (a : SI), a.WF → (a.neg.WF ∧ a.neg.bits = a.bits) ∧ ∀ x, a.mem x → a.neg.mem (Conc.neg a.bits x)
  not : ∀ (a r : SI), a.WF → a.bitwiseNot = .ok r → (r.WF ∧ r.bits = a.bits) ∧ ∀ x, a.mem x → r.mem (Conc.not a.bits x)
  zext : ∀ (a r : SI) (k : Nat), a.WF → a.zeroExtend (k + a.bits) = .ok r →
    (r.WF ∧ r.bits = k + a.bits) ∧ ∀ x, a.mem x → r.mem x
  sext : ∀ (a r : SI) (k : Nat), a.WF → a.signExtend (k + a.bits) = .ok r →
    (r.WF ∧ r.bits = k + a.bits) ∧ ∀ x, a.mem x → r.mem (Conc.sext a.bits (k + a.bits) x)
  sextKeeps : ∀ (a : SI) (k x : Nat), a.WF → sextKeeps a = .ok true → a.mem x → Conc.sext a.bits (k + a.bits) x = x
  extract : ∀ (a r : SI) (hi lo : Nat), a.WF → lo ≤ hi → hi < a.bits → a.extract hi lo = .ok r →
    (r.WF ∧ r.bits = hi + 1 - lo) ∧ ∀ x, a.mem x → r.mem (Conc.extract hi lo x)
  concat : ∀ (a b r : SI), a.WF → b.WF → a.concat b = .ok r →
    (r.WF ∧ r.bits = a.bits + b.bits) ∧ ∀ x y, a.mem x → b.mem y → r.mem (Conc.concat b.bits x y)
  union : ∀ (a b r : SI), a.WF → b.WF → a.bits = b.bits → a.union b = .ok r →
    (r.WF ∧ r.bits = a.bits) ∧ ∀ x, (a.mem x ∨ b.mem x) → r.mem x
  cmp : ∀ (op : CmpOp) (a b : AV) (br : BoolRes), op ≠ .eq → op ≠ .ne → a.si.WF → b.si.WF → a.si.bits = b.si.bits →
    applyCmp op a b = .ok br → ∀ x y, a.si.mem x → b.si.mem y → br.has (concCmp op a.si.bits x y) = true
  meet : ∀ (a b r : SI) (x : Nat), a.WF → b.WF → a.bits = b.bits → a.intersection b = .ok r → a.mem x → b.mem x →
    r.bottom = false

/-! ### facts about leaves -/

theorem const_WF (v w : Nat) (hw : 0 < w) : (SI.new w 0 v v).WF := new_WF w 0 v v hw (fun _ => rfl)

theorem const_mem (v w : Nat) (hv : v < 2 ^ w) : (SI.new w 0 (v : Int) (v : Int)).mem v := by
  rw [mem_new, imod_of_lt v w hv]
  simp [cd_self, hv]

/-- a member of a well-formed singleton interval is its lower bound -/
theorem mem_integer (s : SI) (x : Nat) (hw : s.WF) (hi : s.lb = s.ub) (hx : s.mem x) : x = s.lb := by
  obtain ⟨_, hl, hu, _⟩ := hw
  rw [mem_iff _ _ hl hu] at hx
  obtain ⟨_, hxl, hle, _⟩ := hx
  rw [← hi, cd_self] at hle
  have := (cd_eq_zero _ _ _ hl hxl).1 (by omega)
  exact this.symm

theorem has_of_m (b : Bool) : BoolRes.m.has b = true := by cases b <;> rfl

/-- what a name says about the value `v` of the node that carries it: the name of variable `i` - `v` is the value of that
variable; the fresh name created at node `t` - `v` is the value of `t` (values are numbers, so `zero_extend`, a
non-negative `sign_extend` and a full-width `extract` keep them) -/
def NameOK (env : Nat → Nat) (n : Option NameKey) (v : Nat) : Prop :=
  match n with
  | none => True
  | some (.var i) => v = env i
  | some (.node t) => evalBV env t = some v

/-- two values under one name are equal -/
theorem nameOK_eq (env : Nat → Nat) (n : Option NameKey) (x y : Nat) (hs : n.isSome = true)
    (hx : NameOK env n x) (hy : NameOK env n y) : x = y := by
  cases n with
  | none => cases hs
  | some k =>
    cases k with
    | var i => simp only [NameOK] at hx hy; omega
    | node t =>
      simp only [NameOK] at hx hy
      rw [hx] at hy
      exact Option.some.inj hy

/-- the name a binary operation gives its result, for a left operand that has a member -/
theorem nameOK_bin (env : Nat → Nat) (op : BinOp) (s : SI) (n : Option NameKey) (t : BV) (v : Nat)
    (hb : s.bottom = false) (h : evalBV env t = some v) :
    NameOK env (if shiftKeeps op s then n else some (.node t)) v := by
  have : shiftKeeps op s = false := by unfold shiftKeeps; rw [hb]; simp
  simp only [this, Bool.false_eq_true, if_false]
  exact h

/-- the name of a join: the branch whose value `v` is has a member, so it is not the empty one -/
theorem nameOK_join (env : Nat → Nat) (x y : AV) (fresh : Option NameKey) (c : Bool) (v : Nat)
    (hx : c = true → x.si.mem v ∧ NameOK env x.name v) (hy : c = false → y.si.mem v ∧ NameOK env y.name v)
    (hf : NameOK env fresh v) :
    NameOK env (if x.si.bottom then y.name else if y.si.bottom then x.name else fresh) v := by
  cases c with
  | true =>
    have hb : x.si.bottom = false := (hx rfl).1.1
    simp only [hb, Bool.false_eq_true, if_false]
    split
    · exact (hx rfl).2
    · exact hf
  | false =>
    have hb : y.si.bottom = false := (hy rfl).1.1
    simp only [hb, Bool.false_eq_true, if_false]
    split
    · exact (hy rfl).2
    · exact hf

/-- what the induction carries for a bit-vector node -/
def GoodBV (env : Nat → Nat) (e : BV) (av : AV) : Prop :=
  (av.si.WF ∧ av.si.bits = wd e) ∧
    ∀ v, evalBV env e = some v → av.si.mem v ∧ NameOK env av.name v

def GoodB (env : Nat → Nat) (c : BExp) (br : BoolRes) : Prop :=
  ∀ b, evalB env c = some b → br.has b = true

theorem brAnd_has (p q : BoolRes) (b b' : Bool) (h1 : p.has b = true) (h2 : q.has b' = true) :
    (brAnd p q).has (b && b') = true := by
  cases p <;> cases q <;> cases b <;> cases b' <;> simp_all [brAnd, BoolRes.has, BoolRes.hasTrue, BoolRes.hasFalse]

theorem brOr_has (p q : BoolRes) (b b' : Bool) (h1 : p.has b = true) (h2 : q.has b' = true) :
    (brOrUnion p q).has (b || b') = true := by
  cases p <;> cases q <;> cases b <;> cases b' <;> simp_all [brOrUnion, BoolRes.has, BoolRes.hasTrue, BoolRes.hasFalse]

theorem brNot_has (p : BoolRes) (b : Bool) (h : p.has b = true) : p.not.has (!b) = true := by
  cases p <;> cases b <;> simp_all [BoolRes.not, BoolRes.has, BoolRes.hasTrue, BoolRes.hasFalse]

theorem iteB_has (cv x y : BoolRes) (c b : Bool) (hc : cv.has c = true)
    (hb : if c then x.has b = true else y.has b = true) : (iteB cv x y).has b = true := by
  cases cv <;> cases x <;> cases y <;> cases c <;> cases b <;>
    simp_all [iteB, brOrUnion, BoolRes.has, BoolRes.hasTrue, BoolRes.hasFalse]

mutual
/-- **C24 core**: soundness of `convBV` by structural induction, from the per-operation obligations. -/
theorem convBV_good (H : OpsOK) (anno : Nat → SI) (env : Nat → Nat)
    (hctx : ∀ i, (anno i).WF ∧ (anno i).mem (env i)) :
    ∀ (e : BV) (o : Orders) (av : AV) (o' : Orders), WTBV anno env e → convBV anno e o = .ok (av, o') → GoodBV env e av
  | .var i w, o, av, o', hwt, h => by
    simp only [convBV] at h
    have := pure_ok _ _ h
    cases this
    refine ⟨⟨(hctx i).1, hwt⟩, ?_⟩
    intro v hv0
    have hv := hv0
    simp only [evalBV] at hv
    cases hv
    exact ⟨(hctx i).2, rfl⟩
  | .free i w, o, av, o', hwt, h => by
    simp only [convBV] at h
    have := pure_ok _ _ h
    cases this
    refine ⟨⟨top_WF w hwt.1, top_bits w⟩, ?_⟩
    intro v hv0
    have hv := hv0
    simp only [evalBV] at hv
    cases hv
    exact ⟨(mem_top w _).2 hwt.2, rfl⟩
  | .const c w, o, av, o', hwt, h => by
    simp only [convBV] at h
    have := pure_ok _ _ h
    cases this
    refine ⟨⟨const_WF c w hwt.1, by simp [wd]⟩, ?_⟩
    intro v hv0
    have hv := hv0
    simp only [evalBV] at hv
    cases hv
    exact ⟨const_mem c w hwt.2, hv0⟩
  | .bin op a b, o, av, o', hwt, h => by
    simp only [convBV] at h
    obtain ⟨p1, h1, h⟩ := bind_ok _ _ _ h
    obtain ⟨p2, h2, h⟩ := bind_ok _ _ _ h
    obtain ⟨p3, h3, h⟩ := bind_ok _ _ _ h
    have := pure_ok _ _ h
    cases this
    obtain ⟨⟨wa, ba⟩, ma⟩ := convBV_good H anno env hctx a o p1.1 p1.2 hwt.1 h1
    obtain ⟨⟨wb, bb⟩, mb⟩ := convBV_good H anno env hctx b p1.2 p2.1 p2.2 hwt.2.1 h2
    have hbits : p1.1.si.bits = p2.1.si.bits := by rw [ba, bb]; exact hwt.2.2
    obtain ⟨⟨wr, br⟩, mr⟩ := H.bin op p1.1.si p2.1.si p3.1 p2.2 p3.2 wa wb hbits h3
    refine ⟨⟨wr, by rw [br, ba]; rfl⟩, ?_⟩
    intro v hv0
    have hv := hv0
    simp only [evalBV] at hv
    obtain ⟨x, hx, hv⟩ := obind_some _ _ _ hv
    obtain ⟨y, hy, hv⟩ := obind_some _ _ _ hv
    refine ⟨mr x y v (ma x hx).1 (mb y hy).1 (by rw [ba]; exact hv), nameOK_bin env op _ _ _ v (ma x hx).1.1 hv0⟩
  | .neg a, o, av, o', hwt, h => by
    simp only [convBV] at h
    obtain ⟨p1, h1, h⟩ := bind_ok _ _ _ h
    have := pure_ok _ _ h
    cases this
    obtain ⟨⟨wa, ba⟩, ma⟩ := convBV_good H anno env hctx a o p1.1 p1.2 hwt h1
    obtain ⟨⟨wr, br⟩, mr⟩ := H.neg p1.1.si wa
    refine ⟨⟨wr, by rw [br, ba]; rfl⟩, ?_⟩
    intro v hv0
    have hv := hv0
    simp only [evalBV] at hv
    obtain ⟨x, hx, hv⟩ := obind_some _ _ _ hv
    cases hv
    exact ⟨by rw [← ba]; exact mr x (ma x hx).1, hv0⟩
  | .not a, o, av, o', hwt, h => by
    simp only [convBV] at h
    obtain ⟨p1, h1, h⟩ := bind_ok _ _ _ h
    obtain ⟨r, h2, h⟩ := bind_ok _ _ _ h
    have := pure_ok _ _ h
    cases this
    obtain ⟨⟨wa, ba⟩, ma⟩ := convBV_good H anno env hctx a o p1.1 p1.2 hwt h1
    obtain ⟨⟨wr, br⟩, mr⟩ := H.not p1.1.si r wa h2
    refine ⟨⟨wr, by rw [br, ba]; rfl⟩, ?_⟩
    intro v hv0
    have hv := hv0
    simp only [evalBV] at hv
    obtain ⟨x, hx, hv⟩ := obind_some _ _ _ hv
    cases hv
    exact ⟨by rw [← ba]; exact mr x (ma x hx).1, hv0⟩
  | .zext k a, o, av, o', hwt, h => by
    simp only [convBV] at h
    obtain ⟨p1, h1, h⟩ := bind_ok _ _ _ h
    obtain ⟨r, h2, h⟩ := bind_ok _ _ _ h
    have := pure_ok _ _ h
    cases this
    obtain ⟨⟨wa, ba⟩, ma⟩ := convBV_good H anno env hctx a o p1.1 p1.2 hwt h1
    obtain ⟨⟨wr, br⟩, mr⟩ := H.zext p1.1.si r k wa h2
    refine ⟨⟨wr, by rw [br, ba]; rfl⟩, ?_⟩
    intro v hv0
    have hv := hv0
    simp only [evalBV] at hv
    refine ⟨mr v (ma v hv).1, ?_⟩
    dsimp only
    split
    · exact (ma v hv).2
    · exact hv0
  | .sext k a, o, av, o', hwt, h => by
    simp only [convBV] at h
    obtain ⟨p1, h1, h⟩ := bind_ok _ _ _ h
    obtain ⟨r, h2, h⟩ := bind_ok _ _ _ h
    obtain ⟨keeps, h3, h⟩ := bind_ok _ _ _ h
    have := pure_ok _ _ h
    cases this
    obtain ⟨⟨wa, ba⟩, ma⟩ := convBV_good H anno env hctx a o p1.1 p1.2 hwt h1
    obtain ⟨⟨wr, br⟩, mr⟩ := H.sext p1.1.si r k wa h2
    refine ⟨⟨wr, by rw [br, ba]; rfl⟩, ?_⟩
    intro v hv0
    have hv := hv0
    simp only [evalBV] at hv
    obtain ⟨x, hx, hv⟩ := obind_some _ _ _ hv
    cases hv
    refine ⟨by rw [← ba]; exact mr x (ma x hx).1, ?_⟩
    dsimp only
    cases keeps with
    | false => simp only [Bool.false_eq_true, if_false]; exact hv0
    | true =>
      simp only [if_true]
      have hsame := H.sextKeeps p1.1.si k x wa h3 (ma x hx).1
      rw [← ba, hsame]
      exact (ma x hx).2
  | .extract hi lo a, o, av, o', hwt, h => by
    simp only [convBV] at h
    obtain ⟨p1, h1, h⟩ := bind_ok _ _ _ h
    obtain ⟨r, h2, h⟩ := bind_ok _ _ _ h
    have := pure_ok _ _ h
    cases this
    obtain ⟨⟨wa, ba⟩, ma⟩ := convBV_good H anno env hctx a o p1.1 p1.2 hwt.1 h1
    obtain ⟨⟨wr, br⟩, mr⟩ := H.extract p1.1.si r hi lo wa hwt.2.1 (by rw [ba]; exact hwt.2.2) h2
    refine ⟨⟨wr, by rw [br]; rfl⟩, ?_⟩
    intro v hv0
    have hv := hv0
    simp only [evalBV] at hv
    obtain ⟨x, hx, hv⟩ := obind_some _ _ _ hv
    cases hv
    refine ⟨mr x (ma x hx).1, ?_⟩
    dsimp only
    split
    · rename_i hk
      have hk' : lo = 0 ∧ hi + 1 - lo = p1.1.si.bits := by simpa [extractKeeps] using hk
      have hxlt : x < 2 ^ p1.1.si.bits := (ma x hx).1.2.1
      have : Conc.extract hi lo x = x := by
        unfold Conc.extract
        rw [hk'.1, Nat.shiftRight_zero]
        have : hi + 1 - 0 = p1.1.si.bits := by rw [← hk'.1]; exact hk'.2
        rw [this, Nat.mod_eq_of_lt hxlt]
      rw [this]
      exact (ma x hx).2
    · exact hv0
  | .concat a b, o, av, o', hwt, h => by
    simp only [convBV] at h
    obtain ⟨p1, h1, h⟩ := bind_ok _ _ _ h
    obtain ⟨p2, h2, h⟩ := bind_ok _ _ _ h
    obtain ⟨r, h3, h⟩ := bind_ok _ _ _ h
    have := pure_ok _ _ h
    cases this
    obtain ⟨⟨wa, ba⟩, ma⟩ := convBV_good H anno env hctx a o p1.1 p1.2 hwt.1 h1
    obtain ⟨⟨wb, bb⟩, mb⟩ := convBV_good H anno env hctx b p1.2 p2.1 p2.2 hwt.2 h2
    obtain ⟨⟨wr, br⟩, mr⟩ := H.concat p1.1.si p2.1.si r wa wb h3
    refine ⟨⟨wr, by rw [br, ba, bb]; rfl⟩, ?_⟩
    intro v hv0
    have hv := hv0
    simp only [evalBV] at hv
    obtain ⟨x, hx, hv⟩ := obind_some _ _ _ hv
    obtain ⟨y, hy, hv⟩ := obind_some _ _ _ hv
    cases hv
    exact ⟨by rw [← bb]; exact mr x y (ma x hx).1 (mb y hy).1, hv0⟩
  | .ite c a b, o, av, o', hwt, h => by
    simp only [convBV] at h
    obtain ⟨pc, hc, h⟩ := bind_ok _ _ _ h
    obtain ⟨p1, h1, h⟩ := bind_ok _ _ _ h
    obtain ⟨p2, h2, h⟩ := bind_ok _ _ _ h
    obtain ⟨r, h3, h⟩ := bind_ok _ _ _ h
    have := pure_ok _ _ h
    cases this
    have gc := convB_good H anno env hctx c o pc.1 pc.2 hwt.1 hc
    obtain ⟨⟨wa, ba⟩, ma⟩ := convBV_good H anno env hctx a pc.2 p1.1 p1.2 hwt.2.1 h1
    obtain ⟨⟨wb, bb⟩, mb⟩ := convBV_good H anno env hctx b p1.2 p2.1 p2.2 hwt.2.2.1 h2
    have hbits : p1.1.si.bits = p2.1.si.bits := by rw [ba, bb]; exact hwt.2.2.2
    unfold iteBV at h3
    by_cases hT : (!pc.1.hasTrue) = true
    · rw [if_pos hT] at h3
      have := pure_ok _ _ h3
      cases this
      refine ⟨⟨wb, by rw [bb]; exact hwt.2.2.2.symm⟩, ?_⟩
      intro v hv0
      have hv := hv0
      simp only [evalBV] at hv
      obtain ⟨cv, hcv, hv⟩ := obind_some _ _ _ hv
      have hh := gc cv hcv
      cases cv with
      | true => simp [BoolRes.has] at hh; simp [hh] at hT
      | false => simp only [Bool.false_eq_true, if_false] at hv; exact mb v hv
    · rw [if_neg hT] at h3
      by_cases hF : (!pc.1.hasFalse) = true
      · rw [if_pos hF] at h3
        have := pure_ok _ _ h3
        cases this
        refine ⟨⟨wa, ba⟩, ?_⟩
        intro v hv0
        have hv := hv0
        simp only [evalBV] at hv
        obtain ⟨cv, hcv, hv⟩ := obind_some _ _ _ hv
        have hh := gc cv hcv
        cases cv with
        | false => simp [BoolRes.has] at hh; simp [hh] at hF
        | true => simp only [if_true] at hv; exact ma v hv
      · rw [if_neg hF] at h3
        obtain ⟨u, hu, h3⟩ := bind_ok _ _ _ h3
        have := pure_ok _ _ h3
        cases this
        obtain ⟨⟨wr, br⟩, mr⟩ := H.union p1.1.si p2.1.si u wa wb hbits hu
        refine ⟨⟨wr, by rw [br, ba]; rfl⟩, ?_⟩
        intro v hv0
        have hv := hv0
        simp only [evalBV] at hv
        obtain ⟨cv, hcv, hv⟩ := obind_some _ _ _ hv
        cases cv with
        | true =>
          simp only [if_true] at hv
          exact ⟨mr v (Or.inl (ma v hv).1),
            nameOK_join env p1.1 p2.1 _ true v (fun _ => ma v hv) (fun hh => by cases hh) hv0⟩
        | false =>
          simp only [Bool.false_eq_true, if_false] at hv
          exact ⟨mr v (Or.inr (mb v hv).1),
            nameOK_join env p1.1 p2.1 _ false v (fun hh => by cases hh) (fun _ => mb v hv) hv0⟩
/-- … and of `convB`. -/
theorem convB_good (H : OpsOK) (anno : Nat → SI) (env : Nat → Nat)
    (hctx : ∀ i, (anno i).WF ∧ (anno i).mem (env i)) :
    ∀ (c : BExp) (o : Orders) (br : BoolRes) (o' : Orders), WTB anno env c → convB anno c o = .ok (br, o') → GoodB env c br
  | .lit b, o, br, o', _, h => by
    simp only [convB] at h
    have := pure_ok _ _ h
    cases this
    intro b' hb'
    simp only [evalB] at hb'
    cases hb'
    cases b <;> rfl
  | .cmp op a b, o, br, o', hwt, h => by
    simp only [convB] at h
    obtain ⟨p1, h1, h⟩ := bind_ok _ _ _ h
    obtain ⟨p2, h2, h⟩ := bind_ok _ _ _ h
    obtain ⟨r, h3, h⟩ := bind_ok _ _ _ h
    have := pure_ok _ _ h
    cases this
    obtain ⟨⟨wa, ba⟩, ma⟩ := convBV_good H anno env hctx a o p1.1 p1.2 hwt.1 h1
    obtain ⟨⟨wb, bb⟩, mb⟩ := convBV_good H anno env hctx b p1.2 p2.1 p2.2 hwt.2.1 h2
    have hbits : p1.1.si.bits = p2.1.si.bits := by rw [ba, bb]; exact hwt.2.2
    intro bv hbv
    simp only [evalB] at hbv
    obtain ⟨x, hx, hbv⟩ := obind_some _ _ _ hbv
    obtain ⟨y, hy, hbv⟩ := obind_some _ _ _ hbv
    cases hbv
    have hmx := (ma x hx).1
    have hmy := (mb y hy).1
    -- equality of values forced by names / singleton intervals, emptiness of the meet
    have heqN : ∀ rr, eqNamed p1.1 p2.1 = .ok rr → rr.has (decide (x = y)) = true := by
      intro rr hrr
      unfold eqNamed at hrr
      by_cases hint : (p1.1.si.isInteger && p2.1.si.isInteger) = true
      · rw [if_pos hint] at hrr
        have hi : p1.1.si.lb = p1.1.si.ub ∧ p2.1.si.lb = p2.1.si.ub := by simpa [SI.isInteger] using hint
        have ex := mem_integer _ x wa hi.1 hmx
        have ey := mem_integer _ y wb hi.2 hmy
        have := pure_ok _ _ hrr
        subst this
        by_cases hl : p1.1.si.lb = p2.1.si.lb
        · have : x = y := by omega
          simp [hl, this, BoolRes.has, BoolRes.hasTrue]
        · have : x ≠ y := by omega
          simp [hl, this, BoolRes.has, BoolRes.hasFalse]
      · rw [if_neg hint] at hrr
        by_cases hn : (p1.1.name.isSome && p1.1.name == p2.1.name) = true
        · rw [if_pos hn] at hrr
          have := pure_ok _ _ hrr
          subst this
          have hn' : p1.1.name.isSome = true ∧ p1.1.name = p2.1.name := by simpa using hn
          have : x = y := nameOK_eq env p1.1.name x y hn'.1 (ma x hx).2 (by rw [hn'.2]; exact (mb y hy).2)
          simp [this, BoolRes.has, BoolRes.hasTrue]
        · rw [if_neg hn] at hrr
          obtain ⟨m, hm, hrr⟩ := bind_ok _ _ _ hrr
          have := pure_ok _ _ hrr
          subst this
          by_cases hbot : m.bottom = true
          · rw [if_pos hbot]
            have : x ≠ y := by
              intro hxy
              subst hxy
              have := H.meet p1.1.si p2.1.si m x wa wb hbits hm hmx hmy
              rw [this] at hbot; cases hbot
            simp [this, BoolRes.has, BoolRes.hasFalse]
          · rw [if_neg hbot]; exact has_of_m _
    by_cases he : op = .eq
    · subst he
      rw [← ba]
      simp only [applyCmp] at h3
      simpa [concCmp] using heqN br h3
    · by_cases hne : op = .ne
      · subst hne
        simp only [applyCmp] at h3
        obtain ⟨rr, hrr, h3⟩ := bind_ok _ _ _ h3
        have := pure_ok _ _ h3
        subst this
        have := brNot_has rr _ (heqN rr hrr)
        simpa [concCmp] using this
      · rw [← ba]
        exact H.cmp op p1.1 p2.1 br he hne wa wb hbits h3 x y hmx hmy
  | .not c, o, br, o', hwt, h => by
    simp only [convB] at h
    obtain ⟨p, h1, h⟩ := bind_ok _ _ _ h
    have := pure_ok _ _ h
    cases this
    have gc := convB_good H anno env hctx c o p.1 p.2 hwt h1
    intro b hb
    simp only [evalB] at hb
    obtain ⟨b0, hb0, hb⟩ := obind_some _ _ _ hb
    cases hb
    exact brNot_has _ _ (gc b0 hb0)
  | .and c d, o, br, o', hwt, h => by
    simp only [convB] at h
    obtain ⟨p, h1, h⟩ := bind_ok _ _ _ h
    obtain ⟨q, h2, h⟩ := bind_ok _ _ _ h
    have := pure_ok _ _ h
    cases this
    have gc := convB_good H anno env hctx c o p.1 p.2 hwt.1 h1
    have gd := convB_good H anno env hctx d p.2 q.1 q.2 hwt.2 h2
    intro b hb
    simp only [evalB] at hb
    obtain ⟨b0, hb0, hb⟩ := obind_some _ _ _ hb
    obtain ⟨b1, hb1, hb⟩ := obind_some _ _ _ hb
    cases hb
    exact brAnd_has _ _ _ _ (gc b0 hb0) (gd b1 hb1)
  | .or c d, o, br, o', hwt, h => by
    simp only [convB] at h
    obtain ⟨p, h1, h⟩ := bind_ok _ _ _ h
    obtain ⟨q, h2, h⟩ := bind_ok _ _ _ h
    have := pure_ok _ _ h
    cases this
    have gc := convB_good H anno env hctx c o p.1 p.2 hwt.1 h1
    have gd := convB_good H anno env hctx d p.2 q.1 q.2 hwt.2 h2
    intro b hb
    simp only [evalB] at hb
    obtain ⟨b0, hb0, hb⟩ := obind_some _ _ _ hb
    obtain ⟨b1, hb1, hb⟩ := obind_some _ _ _ hb
    cases hb
    exact brOr_has _ _ _ _ (gc b0 hb0) (gd b1 hb1)
  | .ite c a b, o, br, o', hwt, h => by
    simp only [convB] at h
    obtain ⟨pc, hc, h⟩ := bind_ok _ _ _ h
    obtain ⟨p, h1, h⟩ := bind_ok _ _ _ h
    obtain ⟨q, h2, h⟩ := bind_ok _ _ _ h
    have := pure_ok _ _ h
    cases this
    have gc := convB_good H anno env hctx c o pc.1 pc.2 hwt.1 hc
    have ga := convB_good H anno env hctx a pc.2 p.1 p.2 hwt.2.1 h1
    have gb := convB_good H anno env hctx b p.2 q.1 q.2 hwt.2.2 h2
    intro bv hbv
    simp only [evalB] at hbv
    obtain ⟨cv, hcv, hbv⟩ := obind_some _ _ _ hbv
    apply iteB_has _ _ _ cv bv (gc cv hcv)
    cases cv with
    | true => simp only [if_true] at hbv ⊢; exact ga bv hbv
    | false => simp only [Bool.false_eq_true, if_false] at hbv ⊢; exact gb bv hbv
end

end Claripy.VSA
