import ClaripyProofs.Lemmas.VSA.JoinLemmas
/-! The member list of an interval: `cardinality` is its length, it has no duplicates, and it is exactly `mem`. -/
namespace Claripy.VSA

/-- the members in `eval` order: `lb, lb + stride, …` (mod `2^bits`) while the offset stays within the span -/
def SI.members (s : SI) : List Nat :=
  if s.bottom then []
  else if s.stride = 0 then [s.lb]
  else (List.range (s.span / s.stride + 1)).map fun k => (s.lb + k * s.stride) % 2 ^ s.bits

theorem eq_of_cd (m l x : Nat) (hl : l < m) (hx : x < m) : x = (l + cd m l x) % m := by
  have hlt := cd_lt m l x hl hx
  rw [add_mod_cases _ _ _ hl hlt]
  unfold cd
  split_ifs <;> omega

theorem span_eq (s : SI) (hw : s.WF) : s.span = cd (2 ^ s.bits) s.lb s.ub := by
  unfold SI.span; exact modSub_nat _ _ _ hw.2.2.1 hw.2.1

/-- **membership agrees with the member list** -/
theorem mem_members (s : SI) (hw : s.WF) (x : Nat) : x ∈ s.members ↔ s.mem x := by
  obtain ⟨h0, hl, hu, hst⟩ := hw
  have hw' : s.WF := ⟨h0, hl, hu, hst⟩
  have hm := two_pow_pos' s.bits
  unfold SI.members
  by_cases hb : s.bottom = true
  · rw [if_pos hb]
    constructor
    · intro h; cases h
    · intro h; exact absurd h.1 (by rw [hb]; decide)
  · rw [if_neg hb]
    have hbf : s.bottom = false := by simpa using hb
    rw [mem_iff _ _ hl hu]
    by_cases hz : s.stride = 0
    · rw [if_pos hz]
      simp only [hz, if_true, List.mem_singleton]
      have he := hst.1 hz
      constructor
      · intro hx; subst hx; exact ⟨hbf, hl, by rw [cd_self]; omega, cd_self _ _⟩
      · rintro ⟨_, hxl, _, h4⟩
        exact ((cd_eq_zero _ _ _ hl hxl).1 h4).symm
    · rw [if_neg hz]
      simp only [hz, if_false, List.mem_map, List.mem_range]
      have hsp : 0 < s.stride := Nat.pos_of_ne_zero hz
      have hspan := span_eq s hw'
      have hslt := cd_lt _ _ _ hl hu
      constructor
      · rintro ⟨k, hk, hx⟩
        have hk' : k * s.stride ≤ s.span := by
          have : k ≤ s.span / s.stride := by omega
          calc k * s.stride ≤ s.span / s.stride * s.stride := Nat.mul_le_mul_right _ this
            _ ≤ s.span := Nat.div_mul_le_self _ _
        rw [hspan] at hk'
        have hcd := cd_add_right _ s.lb (k * s.stride) hl (by omega)
        subst hx
        refine ⟨hbf, Nat.mod_lt _ hm, by rw [hcd]; exact hk', ?_⟩
        rw [hcd]; exact Nat.mul_mod_left _ _
      · rintro ⟨_, hxl, h3, h4⟩
        refine ⟨cd (2 ^ s.bits) s.lb x / s.stride, ?_, ?_⟩
        · rw [hspan]
          have := Nat.div_le_div_right (c := s.stride) h3
          omega
        · rw [Nat.div_mul_cancel (Nat.dvd_of_mod_eq_zero h4)]
          exact (eq_of_cd _ _ _ hl hxl).symm

/-- **`cardinality` is the number of members** -/
theorem cardinality_exact (s : SI) (hw : s.WF) : s.cardinality = .ok s.members.length := by
  obtain ⟨h0, hl, hu, hst⟩ := hw
  unfold SI.cardinality SI.members
  by_cases hb : s.bottom = true
  · simp only [hb, if_true]; rfl
  · rw [if_neg hb, if_neg hb]
    by_cases hz : s.stride = 0
    · have he := hst.1 hz
      have : s.isInteger = true := by simp [SI.isInteger, he]
      rw [if_pos this, if_pos hz]; rfl
    · have hne : s.lb ≠ s.ub := fun h => hz (hst.2 h)
      have : ¬ s.isInteger = true := by simp [SI.isInteger, hne]
      rw [if_neg this, if_neg hz, if_neg hz]
      have hsp : 0 < s.stride := Nat.pos_of_ne_zero hz
      simp only [List.length_map, List.length_range]
      unfold SI.span
      rw [Nat.add_div_right _ hsp]
      rfl

/-- **no member is listed twice** -/
theorem members_nodup (s : SI) (hw : s.WF) : s.members.Nodup := by
  obtain ⟨h0, hl, hu, hst⟩ := hw
  have hw' : s.WF := ⟨h0, hl, hu, hst⟩
  unfold SI.members
  by_cases hb : s.bottom = true
  · rw [if_pos hb]; exact List.nodup_nil
  · rw [if_neg hb]
    by_cases hz : s.stride = 0
    · rw [if_pos hz]; exact List.pairwise_singleton _ _
    · rw [if_neg hz]
      have hsp : 0 < s.stride := Nat.pos_of_ne_zero hz
      have hspan := span_eq s hw'
      have hslt := cd_lt _ _ _ hl hu
      apply List.pairwise_map.2
      apply List.Pairwise.imp_of_mem _ List.nodup_range
      intro i j hi hj hne hij
      apply hne
      rw [List.mem_range] at hi hj
      have bound : ∀ k, k < s.span / s.stride + 1 → k * s.stride < 2 ^ s.bits := by
        intro k hk
        have : k ≤ s.span / s.stride := by omega
        have h1 : k * s.stride ≤ s.span / s.stride * s.stride := Nat.mul_le_mul_right _ this
        have h2 := Nat.div_mul_le_self s.span s.stride
        omega
      have ci := cd_add_right _ s.lb (i * s.stride) hl (bound i hi)
      have cj := cd_add_right _ s.lb (j * s.stride) hl (bound j hj)
      rw [hij] at ci
      have : i * s.stride = j * s.stride := by omega
      exact Nat.eq_of_mul_eq_mul_right hsp this

/-- the meet with an integer, when the other operand is an integer too -/
theorem multiMeet_int_int (s b : SI) (hsb : s.bottom = false) (hbb : b.bottom = false) (hbits : s.bits = b.bits)
    (hs : s.lb = s.ub) (hb : b.lb = b.ub) :
    s.multiMeet b = .ok [if s.lb = b.lb then SI.new s.bits 0 s.lb s.lb else SI.empty s.bits] := by
  unfold SI.multiMeet
  simp [hsb, hbb, hbits, SI.isInteger, hs, hb, pure, Except.pure]

/-- the meet of an interval with an integer: congruence on the modular distance and the surround test -/
theorem multiMeet_int (s b : SI) (hsb : s.bottom = false) (hbb : b.bottom = false) (hbits : s.bits = b.bits)
    (hs : s.lb ≠ s.ub) (hz : s.stride ≠ 0) (hb : b.lb = b.ub) :
    s.multiMeet b = .ok [if modSub b.lb s.lb s.bits % s.stride = 0 ∧ s.surroundsMember b.lb = true
      then SI.new s.bits 0 b.lb b.lb else SI.empty s.bits] := by
  unfold SI.multiMeet
  simp only [hsb, hbb, Bool.or_self, Bool.false_eq_true, if_false, hbits, ne_eq, not_true_eq_false]
  have h1 : s.isInteger = false := by simp [SI.isInteger, hs]
  have h2 : b.isInteger = true := by simp [SI.isInteger, hb]
  simp only [h1, h2, Bool.false_and, Bool.false_eq_true, if_false, if_true, hz]
  split <;> rfl

/-- **`solution(v)` is the membership test** (for every well-formed interval, aligned or not) -/
theorem solution_exact (s : SI) (hw : s.WF) (hnb : s.bottom = false) (v : Nat) (hv : v < 2 ^ s.bits) :
    (s.solution (v : Int) = .ok true ∧ s.mem v) ∨ (s.solution (v : Int) = .ok false ∧ ¬ s.mem v) := by
  obtain ⟨h0, hl, hu, hst⟩ := hw
  have hnew : SI.new s.bits 0 (v : Int) (v : Int) = { bits := s.bits, stride := 0, lb := v, ub := v } := by
    rw [new_eq, imod_of_lt _ _ hv]; simp
  have hmem := mem_iff s v hl hu
  unfold SI.solution SI.intersection
  rw [hnew]
  by_cases hsi : s.lb = s.ub
  · have hz := hst.2 hsi
    rw [multiMeet_int_int s { bits := s.bits, stride := 0, lb := v, ub := v } hnb rfl rfl hsi rfl]
    by_cases hlv : s.lb = v
    · left
      subst hlv
      refine ⟨by simp [bind, Except.bind, pure, Except.pure], ?_⟩
      rw [hmem]; simp [hnb, hl, hz, cd_self]
    · right
      have hne : ¬ cd (2 ^ s.bits) s.lb v = 0 := fun h => hlv ((cd_eq_zero _ _ _ hl hv).1 h)
      refine ⟨by simp [bind, Except.bind, pure, Except.pure, hlv, SI.empty], ?_⟩
      rw [hmem]; simp [hz, hne]
  · have hz : s.stride ≠ 0 := fun h => hsi (hst.1 h)
    rw [multiMeet_int s { bits := s.bits, stride := 0, lb := v, ub := v } hnb rfl rfl hsi hz rfl]
    have hsur := surrounds_iff s v hl hu hv
    simp only [modSub_nat v s.lb s.bits hv hl]
    by_cases hc : cd (2 ^ s.bits) s.lb v % s.stride = 0 ∧ s.surroundsMember (v : Int) = true
    · left
      rw [if_pos hc]
      refine ⟨by simp [bind, Except.bind, pure, Except.pure], ?_⟩
      rw [hmem]; simp [hnb, hv, hz, hc.1, hsur.1 hc.2]
    · right
      rw [if_neg hc]
      refine ⟨by simp [bind, Except.bind, pure, Except.pure, SI.empty], ?_⟩
      rw [hmem]
      intro ⟨_, _, a1, a2⟩
      rw [if_neg hz] at a2
      exact hc ⟨a2, hsur.2 a1⟩

end Claripy.VSA
