import ClaripyProofs.Lemmas.VSA.MeetDiop
import ClaripyProofs.Lemmas.VSA.OrSound
/-! `_minimal_common_integer_splitted`: on two non-wrapping intervals it returns the least common member, or `None`
when there is none. -/
namespace Claripy.VSA

theorem pure_ok' {α : Type} {a r : α} (h : (pure a : R α) = .ok r) : r = a := by cases h; rfl

/-- member of a non-wrapping interval, in linear form -/
def LM (p : SI) (x : Nat) : Prop := p.lb ≤ x ∧ x ≤ p.ub ∧ p.stride ∣ x - p.lb

/-- what the result of a "least common member" search means -/
def LeastCommon (P Q : SI) (o : Option Int) : Prop :=
  (∀ m, o = some m → ∃ n : Nat, m = (n : Int) ∧ LM P n ∧ LM Q n ∧ ∀ x, LM P x → LM Q x → n ≤ x) ∧
    (o = none → ∀ x, ¬ (LM P x ∧ LM Q x))

theorem leastCommon_symm (P Q : SI) (o : Option Int) (h : LeastCommon Q P o) : LeastCommon P Q o := by
  refine ⟨?_, ?_⟩
  · intro m hm
    obtain ⟨n, h1, h2, h3, h4⟩ := h.1 m hm
    exact ⟨n, h1, h3, h2, fun x hp hq => h4 x hq hp⟩
  · intro hn x hx
    exact h.2 hn x ⟨hx.2, hx.1⟩

/-- one operand is a single value -/
theorem mci_int (fuel : Nat) (P Q : SI) (o : Option Int) (hP : P.lb = P.ub) (hQst : Q.stride = 0 ↔ Q.lb = Q.ub)
    (h : mciSplitted (fuel + 1) P Q = .ok o) : LeastCommon P Q o := by
  unfold mciSplitted at h
  have hPi : P.isInteger = true := (isInteger_iff P).2 hP
  simp only [hPi, if_true] at h
  have hPm : ∀ x, LM P x → x = P.lb := fun x hx => by unfold LM at hx; omega
  have hPl : LM P P.lb := ⟨Nat.le_refl _, by omega, by simp⟩
  by_cases hQi : Q.isInteger = true
  · rw [if_pos hQi] at h
    have hQ : Q.lb = Q.ub := (isInteger_iff Q).1 hQi
    have ho := pure_ok' h
    by_cases he : P.lb = Q.lb
    · have hnn : ¬ P.lb ≠ Q.lb := fun hh => hh he
      rw [if_neg hnn] at ho
      subst ho
      refine ⟨?_, (fun hn => by cases hn)⟩
      intro m hm
      cases hm
      refine ⟨P.lb, rfl, hPl, ⟨by omega, by omega, (by rw [he, Nat.sub_self]; exact Nat.dvd_zero _)⟩, ?_⟩
      intro x hx _
      rw [hPm x hx]
    · rw [if_pos he] at ho
      subst ho
      refine ⟨(fun m hm => by cases hm), ?_⟩
      intro _ x ⟨hx1, hx2⟩
      have := hPm x hx1
      unfold LM at hx2
      omega
  · rw [if_neg hQi] at h
    have hQne : Q.lb ≠ Q.ub := fun he => hQi ((isInteger_iff Q).2 he)
    have hQs : Q.stride ≠ 0 := fun h0 => hQne (hQst.1 h0)
    by_cases hin : P.lb ≥ Q.lb ∧ P.lb ≤ Q.ub
    · rw [if_pos hin, if_neg hQs] at h
      by_cases hmod : (P.lb - Q.lb) % Q.stride = 0
      · rw [if_pos hmod] at h
        have ho := pure_ok' h
        subst ho
        refine ⟨?_, (fun hn => by cases hn)⟩
        intro m hm
        cases hm
        refine ⟨P.lb, rfl, hPl, ⟨hin.1, hin.2, Nat.dvd_of_mod_eq_zero hmod⟩, ?_⟩
        intro x hx _
        rw [hPm x hx]
      · rw [if_neg hmod] at h
        have ho := pure_ok' h
        subst ho
        refine ⟨(fun m hm => by cases hm), ?_⟩
        intro _ x ⟨hx1, hx2⟩
        rw [hPm x hx1] at hx2
        exact hmod (Nat.mod_eq_zero_of_dvd hx2.2.2)
    · rw [if_neg hin] at h
      have ho := pure_ok' h
      subst ho
      refine ⟨(fun m hm => by cases hm), ?_⟩
      intro _ x ⟨hx1, hx2⟩
      rw [hPm x hx1] at hx2
      unfold LM at hx2
      omega

theorem bind_ok' {α β : Type} {x : R α} {f : α → R β} {r : β} (h : (x >>= f) = .ok r) :
    ∃ a, x = .ok a ∧ f a = .ok r := by
  cases x with
  | error e => cases h
  | ok a => exact ⟨a, rfl, h⟩

/-- both operands are proper intervals: the Diophantine solver finds the least common member -/
theorem mci_general (fuel : Nat) (P Q : SI) (o : Option Int) (hP : P.lb ≠ P.ub) (hQ : Q.lb ≠ Q.ub)
    (hPst : P.stride = 0 ↔ P.lb = P.ub) (hQst : Q.stride = 0 ↔ Q.lb = Q.ub)
    (h : mciSplitted (fuel + 1) P Q = .ok o) : LeastCommon P Q o := by
  unfold mciSplitted at h
  have hPi : ¬ P.isInteger = true := fun hh => hP ((isInteger_iff P).1 hh)
  have hQi : ¬ Q.isInteger = true := fun hh => hQ ((isInteger_iff Q).1 hh)
  have hPs : P.stride ≠ 0 := fun h0 => hP (hPst.1 h0)
  have hQs : Q.stride ≠ 0 := fun h0 => hQ (hQst.1 h0)
  simp only [] at h
  rw [if_neg hPi, if_neg hQi] at h
  by_cases hdis : P.ub < Q.lb ∨ Q.ub < P.lb
  · rw [if_pos hdis] at h
    have ho := pure_ok' h
    subst ho
    refine ⟨(fun m hm => by cases hm), ?_⟩
    intro _ x ⟨hx1, hx2⟩
    unfold LM at hx1 hx2
    omega
  · rw [if_neg hdis] at h
    have hg0 : Nat.gcd P.stride Q.stride ≠ 0 := fun h0 => hPs (Nat.eq_zero_of_gcd_eq_zero_left h0)
    rw [if_neg hg0] at h
    -- a common member forces `gcd ∣ d - b`
    have hcommon : ∀ x, LM P x → LM Q x →
        ∃ i j : Int, 0 ≤ i ∧ 0 ≤ j ∧ (x : Int) = (P.stride : Int) * i + P.lb ∧ (x : Int) = (Q.stride : Int) * j + Q.lb := by
      intro x hx1 hx2
      obtain ⟨h1, _, i, hi⟩ := hx1
      obtain ⟨h2, _, j, hj⟩ := hx2
      refine ⟨i, j, Int.natCast_nonneg _, Int.natCast_nonneg _, ?_, ?_⟩
      · have : x = P.stride * i + P.lb := by omega
        exact_mod_cast this
      · have : x = Q.stride * j + Q.lb := by omega
        exact_mod_cast this
    by_cases hem : Int.emod ((Q.lb : Int) - (P.lb : Int)) ((Nat.gcd P.stride Q.stride : Nat) : Int) ≠ 0
    · rw [if_pos hem] at h
      have ho := pure_ok' h
      subst ho
      refine ⟨(fun m hm => by cases hm), ?_⟩
      intro _ x ⟨hx1, hx2⟩
      obtain ⟨i, j, _, _, e1, e2⟩ := hcommon x hx1 hx2
      apply hem
      have hd1 : ((Nat.gcd P.stride Q.stride : Nat) : Int) ∣ (P.stride : Int) := Int.natCast_dvd_natCast.2 (Nat.gcd_dvd_left _ _)
      have hd2 : ((Nat.gcd P.stride Q.stride : Nat) : Int) ∣ (Q.stride : Int) := Int.natCast_dvd_natCast.2 (Nat.gcd_dvd_right _ _)
      have : (Q.lb : Int) - (P.lb : Int) = (P.stride : Int) * i - (Q.stride : Int) * j := by linarith
      show ((Q.lb : Int) - (P.lb : Int)) % ((Nat.gcd P.stride Q.stride : Nat) : Int) = 0
      rw [this]
      exact Int.emod_eq_zero_of_dvd (Int.dvd_sub (Dvd.dvd.mul_right hd1 _) (Dvd.dvd.mul_right hd2 _))
    · rw [if_neg hem] at h
      have hem' : ((Q.lb : Int) - (P.lb : Int)) % ((Nat.gcd P.stride Q.stride : Nat) : Int) = 0 := by
        by_contra hh; exact hem hh
      have hpa : (0 : Int) < (P.stride : Int) := by exact_mod_cast Nat.pos_of_ne_zero hPs
      have hnc : -((Q.stride : Int)) < 0 := by
        have : (0 : Int) < (Q.stride : Int) := by exact_mod_cast Nat.pos_of_ne_zero hQs
        omega
      have hgd : ((Nat.gcd (P.stride : Int).natAbs (-(Q.stride : Int)).natAbs : Nat) : Int) ∣ -((P.lb : Int) - (Q.lb : Int)) := by
        rw [Int.natAbs_neg, Int.natAbs_natCast, Int.natAbs_natCast]
        have : -((P.lb : Int) - (Q.lb : Int)) = (Q.lb : Int) - (P.lb : Int) := by ring
        rw [this]
        exact Int.dvd_of_emod_eq_zero hem'
      obtain ⟨x, y, hd, heq, hx0, hy0, hmin⟩ := diop_spec _ _ _ hpa hnc hgd
      obtain ⟨r, hr, h⟩ := bind_ok' h
      rw [hd] at hr
      cases hr
      simp only [] at h
      have hfirst : x * (P.stride : Int) + (P.lb : Int) = y * (Q.stride : Int) + (Q.lb : Int) := by linarith
      rw [if_neg (fun hne => hne hfirst)] at h
      -- the first common value of the two progressions, as a natural number
      have hnn : 0 ≤ x * (P.stride : Int) + (P.lb : Int) := by
        have := Int.mul_nonneg hx0 (Int.le_of_lt hpa)
        have : (0 : Int) ≤ (P.lb : Int) := Int.natCast_nonneg _
        omega
      obtain ⟨n, hn⟩ := Int.eq_ofNat_of_zero_le hnn
      have hminx : ∀ x', LM P x' → LM Q x' → n ≤ x' := by
        intro x' h1 h2
        obtain ⟨i, j, hi, hj, e1, e2⟩ := hcommon x' h1 h2
        have := hmin i j hi hj (by linarith)
        have h3 : x * (P.stride : Int) ≤ i * (P.stride : Int) := Int.mul_le_mul_of_nonneg_right this (Int.le_of_lt hpa)
        have : (n : Int) ≤ (x' : Int) := by rw [← hn, e1]; linarith
        exact_mod_cast this
      by_cases hin : (P.lb : Int) ≤ x * (P.stride : Int) + (P.lb : Int) ∧ x * (P.stride : Int) + (P.lb : Int) ≤ (P.ub : Int) ∧
          (Q.lb : Int) ≤ x * (P.stride : Int) + (P.lb : Int) ∧ x * (P.stride : Int) + (P.lb : Int) ≤ (Q.ub : Int)
      · rw [if_pos hin] at h
        have ho := pure_ok' h
        subst ho
        refine ⟨?_, (fun hn => by cases hn)⟩
        intro m hm
        cases hm
        rw [hn] at hin
        obtain ⟨i1, i2, i3, i4⟩ := hin
        refine ⟨n, hn, ⟨by exact_mod_cast i1, by exact_mod_cast i2, ?_⟩, ⟨by exact_mod_cast i3, by exact_mod_cast i4, ?_⟩, hminx⟩
        · have hx' : x = ((x.toNat : Nat) : Int) := (Int.toNat_of_nonneg hx0).symm
          refine ⟨x.toNat, ?_⟩
          have : (n : Int) = (P.stride : Int) * x.toNat + P.lb := by rw [← hn, ← hx']; ring
          have : n = P.stride * x.toNat + P.lb := by exact_mod_cast this
          omega
        · have hy' : y = ((y.toNat : Nat) : Int) := (Int.toNat_of_nonneg hy0).symm
          refine ⟨y.toNat, ?_⟩
          have : (n : Int) = (Q.stride : Int) * y.toNat + Q.lb := by rw [← hn, hfirst, ← hy']; ring
          have : n = Q.stride * y.toNat + Q.lb := by exact_mod_cast this
          omega
      · rw [if_neg hin] at h
        have ho := pure_ok' h
        subst ho
        refine ⟨(fun m hm => by cases hm), ?_⟩
        intro _ x' ⟨h1, h2⟩
        have hle := hminx x' h1 h2
        apply hin
        rw [hn]
        have hy1 : (Q.lb : Int) ≤ (n : Int) := by
          rw [← hn, hfirst]
          have := Int.mul_nonneg hy0 (Int.natCast_nonneg Q.stride)
          omega
        have hx1 : (P.lb : Int) ≤ (n : Int) := by
          rw [← hn]
          have := Int.mul_nonneg hx0 (Int.natCast_nonneg P.stride)
          omega
        unfold LM at h1 h2
        refine ⟨hx1, ?_, hy1, ?_⟩
        · have : n ≤ P.ub := by omega
          exact_mod_cast this
        · have : n ≤ Q.ub := by omega
          exact_mod_cast this

/-- **`_minimal_common_integer_splitted`** on two non-wrapping intervals -/
theorem mci_spec (fuel : Nat) (P Q : SI) (o : Option Int)
    (hPst : P.stride = 0 ↔ P.lb = P.ub) (hQst : Q.stride = 0 ↔ Q.lb = Q.ub)
    (h : mciSplitted (fuel + 2) P Q = .ok o) : LeastCommon P Q o := by
  by_cases hP : P.lb = P.ub
  · exact mci_int (fuel + 1) P Q o hP hQst h
  · by_cases hQ : Q.lb = Q.ub
    · have hPi : ¬ P.isInteger = true := fun hh => hP ((isInteger_iff P).1 hh)
      have hQi : Q.isInteger = true := (isInteger_iff Q).2 hQ
      unfold mciSplitted at h
      simp only [] at h
      rw [if_neg hPi, if_pos hQi] at h
      exact leastCommon_symm P Q o (mci_int fuel Q P o hQ hPst h)
    · exact mci_general (fuel + 1) P Q o hP hQ hPst hQst h

end Claripy.VSA
