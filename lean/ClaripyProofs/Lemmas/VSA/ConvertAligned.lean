import ClaripyProofs.Lemmas.VSA.ConvertProved
import ClaripyProofs.Lemmas.VSA.AlignedConcat
/-!
The alignment guard of `convBV_rest_good` (`alBV` / `alB`: the abstract operands of every `==`, `!=`, `*` node are aligned) is
DISCHARGED syntactically: every interval operation the backend dispatches to returns an
aligned interval when its operands are aligned (`Lemmas/VSA/Aligned*.lean`), several return one whatever the operands are.

* `alSrc anno e` — a syntactic sufficient condition for "the abstract value of `e` is aligned": the annotations of the variables
  that reach the root through `+ | % concat If zext sext extract`, the left operand of `- << >> >>>`, are aligned; everything below
  a `neg ~ & ^ /u *` node is irrelevant (these operations always return aligned intervals).
* `guardFreeBV/B anno e` — at every `==` / `!=` / `*` node both operands satisfy `alSrc` (`%` needs no guard: `mod_sound_full`).

`alBV_of_guardFree`: `guardFree → alBV` (for ASTs with a value at every node, over normal annotations).
-/
namespace Claripy.VSA

/-- is alignment of the left / right operand needed for the result of the operation to be aligned? -/
def needA : BinOp → Bool
  | .add | .or | .sub | .urem | .shl | .lshr | .ashr => true
  | _ => false
def needB : BinOp → Bool
  | .add | .or | .urem => true
  | _ => false

/-- syntactic sufficient condition for the abstract value to be aligned -/
def alSrc (anno : Nat → SI) : BV → Prop
  | .var i _ => (anno i).Aligned
  | .free _ _ => True
  | .const _ _ => True
  | .bin op a b => (needA op = true → alSrc anno a) ∧ (needB op = true → alSrc anno b)
  | .neg _ => True
  | .not _ => True
  | .zext _ a => alSrc anno a
  | .sext _ a => alSrc anno a
  | .extract _ _ a => alSrc anno a
  | .concat a b => alSrc anno a ∧ alSrc anno b
  | .ite _ a b => alSrc anno a ∧ alSrc anno b

mutual
/-- every operand position that needs alignment (`==`, `!=`, `*`: both operands) satisfies `alSrc` -/
def guardFreeBV (anno : Nat → SI) : BV → Prop
  | .var _ _ => True
  | .free _ _ => True
  | .const _ _ => True
  | .bin op a b => guardFreeBV anno a ∧ guardFreeBV anno b ∧ (op = .mul → alSrc anno a) ∧ (op = .mul → alSrc anno b)
  | .neg a => guardFreeBV anno a
  | .not a => guardFreeBV anno a
  | .zext _ a => guardFreeBV anno a
  | .sext _ a => guardFreeBV anno a
  | .extract _ _ a => guardFreeBV anno a
  | .concat a b => guardFreeBV anno a ∧ guardFreeBV anno b
  | .ite c a b => guardFreeB anno c ∧ guardFreeBV anno a ∧ guardFreeBV anno b
def guardFreeB (anno : Nat → SI) : BExp → Prop
  | .lit _ => True
  | .cmp op a b => guardFreeBV anno a ∧ guardFreeBV anno b ∧ (restCmp op = true → alSrc anno a ∧ alSrc anno b)
  | .not c => guardFreeB anno c
  | .and c d => guardFreeB anno c ∧ guardFreeB anno d
  | .or c d => guardFreeB anno c ∧ guardFreeB anno d
  | .ite c a b => guardFreeB anno c ∧ guardFreeB anno a ∧ guardFreeB anno b
end

/-- all annotations aligned: `alSrc` holds for every AST -/
theorem alSrc_of_all (anno : Nat → SI) (hall : ∀ i, (anno i).Aligned) : ∀ e : BV, alSrc anno e
  | .var i _ => hall i
  | .free _ _ => trivial
  | .const _ _ => trivial
  | .bin _ a b => ⟨fun _ => alSrc_of_all anno hall a, fun _ => alSrc_of_all anno hall b⟩
  | .neg _ => trivial
  | .not _ => trivial
  | .zext _ a => alSrc_of_all anno hall a
  | .sext _ a => alSrc_of_all anno hall a
  | .extract _ _ a => alSrc_of_all anno hall a
  | .concat a b => ⟨alSrc_of_all anno hall a, alSrc_of_all anno hall b⟩
  | .ite _ a b => ⟨alSrc_of_all anno hall a, alSrc_of_all anno hall b⟩

mutual
/-- … and so does `guardFree` -/
theorem guardFreeBV_of_all (anno : Nat → SI) (hall : ∀ i, (anno i).Aligned) : ∀ e : BV, guardFreeBV anno e
  | .var _ _ => trivial
  | .free _ _ => trivial
  | .const _ _ => trivial
  | .bin _ a b => ⟨guardFreeBV_of_all anno hall a, guardFreeBV_of_all anno hall b, fun _ => alSrc_of_all anno hall a,
      fun _ => alSrc_of_all anno hall b⟩
  | .neg a => guardFreeBV_of_all anno hall a
  | .not a => guardFreeBV_of_all anno hall a
  | .zext _ a => guardFreeBV_of_all anno hall a
  | .sext _ a => guardFreeBV_of_all anno hall a
  | .extract _ _ a => guardFreeBV_of_all anno hall a
  | .concat a b => ⟨guardFreeBV_of_all anno hall a, guardFreeBV_of_all anno hall b⟩
  | .ite c a b => ⟨guardFreeB_of_all anno hall c, guardFreeBV_of_all anno hall a, guardFreeBV_of_all anno hall b⟩
theorem guardFreeB_of_all (anno : Nat → SI) (hall : ∀ i, (anno i).Aligned) : ∀ c : BExp, guardFreeB anno c
  | .lit _ => trivial
  | .cmp _ a b => ⟨guardFreeBV_of_all anno hall a, guardFreeBV_of_all anno hall b,
      fun _ => ⟨alSrc_of_all anno hall a, alSrc_of_all anno hall b⟩⟩
  | .not c => guardFreeB_of_all anno hall c
  | .and c d => ⟨guardFreeB_of_all anno hall c, guardFreeB_of_all anno hall d⟩
  | .or c d => ⟨guardFreeB_of_all anno hall c, guardFreeB_of_all anno hall d⟩
  | .ite c a b => ⟨guardFreeB_of_all anno hall c, guardFreeB_of_all anno hall a, guardFreeB_of_all anno hall b⟩
end

/-- the binary operations on non-empty, well-formed, normal operands: the result is aligned when the operands that matter
are (for `*` and `%` the guard of the node supplies what `needA`/`needB` do not ask for) -/
theorem bin_aligned (op : BinOp) (a b r : SI) (o o' : Orders) (wa : a.WF) (wb : b.WF) (hbits : a.bits = b.bits)
    (hab : a.bottom = false) (hbb : b.bottom = false) (na : Nrm a) (nb : Nrm b)
    (hA : needA op = true → a.Aligned) (hB : needB op = true → b.Aligned)
    (hmul : (op = .mul → a.Aligned) ∧ (op = .mul → b.Aligned))
    (h : applyBin op a b o = .ok (r, o')) : r.Aligned := by
  cases op
  · -- add
    simp only [applyBin] at h
    have := pure_ok _ _ h; cases this
    exact add_aligned a b wa wb hbits hab hbb (hA rfl) (hB rfl)
  · -- sub
    simp only [applyBin] at h
    have := pure_ok _ _ h; cases this
    exact sub_aligned a b wa wb hbits hab hbb (hA rfl)
  · -- mul
    simp only [applyBin] at h
    obtain ⟨r1, h1, h⟩ := bind_ok _ _ _ h
    have := pure_ok _ _ h; cases this
    exact mul_aligned a.bits a b r ⟨wa, rfl⟩ ⟨wb, hbits.symm⟩ hab hbb (hmul.1 rfl) (hmul.2 rfl) na nb h1
  · -- udiv
    cases o with
    | nil => simp only [applyBin] at h; cases h
    | cons od rest =>
      simp only [applyBin] at h
      obtain ⟨r1, h1, h⟩ := bind_ok _ _ _ h
      have := pure_ok _ _ h; cases this
      exact udiv_aligned a b r od wa wb hbits hab hbb h1
  · -- urem
    simp only [applyBin] at h
    obtain ⟨r1, h1, h⟩ := bind_ok _ _ _ h
    have := pure_ok _ _ h; cases this
    exact mod_aligned a.bits a b r ⟨wa, rfl⟩ ⟨wb, hbits.symm⟩ hab hbb (hA rfl) (hB rfl) h1
  · -- and
    simp only [applyBin] at h
    obtain ⟨r1, h1, h⟩ := bind_ok _ _ _ h
    have := pure_ok _ _ h; cases this
    exact and_aligned a b r wa wb hbits hab hbb h1
  · -- or
    simp only [applyBin] at h
    obtain ⟨r1, h1, h⟩ := bind_ok _ _ _ h
    have := pure_ok _ _ h; cases this
    exact or_aligned a b r wa wb hbits hab hbb (hA rfl) (hB rfl) h1
  · -- xor
    simp only [applyBin] at h
    obtain ⟨r1, h1, h⟩ := bind_ok _ _ _ h
    have := pure_ok _ _ h; cases this
    exact xor_aligned a b r wa wb hbits hab hbb h1
  · -- shl
    simp only [applyBin] at h
    obtain ⟨r1, h1, h⟩ := bind_ok _ _ _ h
    have := pure_ok _ _ h; cases this
    exact shl_aligned a b r wa hab (hA rfl) h1
  · -- lshr
    simp only [applyBin] at h
    obtain ⟨r1, h1, h⟩ := bind_ok _ _ _ h
    have := pure_ok _ _ h; cases this
    exact lshr_aligned a b r wa hab (hA rfl) h1
  · -- ashr
    simp only [applyBin] at h
    obtain ⟨r1, h1, h⟩ := bind_ok _ _ _ h
    have := pure_ok _ _ h; cases this
    exact ashr_aligned a b r wa hab na (hA rfl) h1

theorem noRest (e : BV) : usesRestBV e = true → OpsRest := fun hh => by rw [usesRestBV_false e] at hh; cases hh
theorem noRestB (c : BExp) : usesRestB c = true → OpsRest := fun hh => by rw [usesRestB_false c] at hh; cases hh

mutual
/-- **the alignment guard holds for every guard-free AST**, and the abstract value of an AST with `alSrc` is aligned -/
theorem alBV_of_guardFree (anno : Nat → SI) (env : Nat → Nat)
    (hctx : ∀ i, (anno i).WF ∧ (anno i).mem (env i)) (hnrm : ∀ i, Nrm (anno i)) :
    ∀ (e : BV) (o : Orders), guardFreeBV anno e → DefBV env e → WTBV anno env e →
      alBV anno e o ∧ (alSrc anno e → ∀ av o', convBV anno e o = .ok (av, o') → av.si.Aligned)
  | .var i w, o, _, _, _ => by
    refine ⟨trivial, ?_⟩
    intro hs av o' h
    simp only [convBV] at h
    have := pure_ok _ _ h; cases this
    exact hs
  | .free i w, o, _, _, _ => by
    refine ⟨trivial, ?_⟩
    intro _ av o' h
    simp only [convBV] at h
    have := pure_ok _ _ h; cases this
    exact top_aligned w
  | .const c w, o, _, _, _ => by
    refine ⟨trivial, ?_⟩
    intro _ av o' h
    simp only [convBV] at h
    have := pure_ok _ _ h; cases this
    exact new_singleton_aligned _ _ _
  | .bin op a b, o, hg, hdef, hwt => by
    obtain ⟨ga, gb, gmulA, gmulB⟩ := hg
    have IHa := alBV_of_guardFree anno env hctx hnrm a o ga hdef.1 hwt.1
    have IHb := fun o1 => alBV_of_guardFree anno env hctx hnrm b o1 gb hdef.2.1 hwt.2.1
    have hal : alBV anno (.bin op a b) o := by
      refine ⟨IHa.1, fun p1 h1 => ⟨(IHb p1.2).1, fun p2 h2 => ⟨fun hm => ?_, fun hm => ?_⟩⟩⟩
      · exact IHa.2 (gmulA hm) p1.1 p1.2 h1
      · exact (IHb p1.2).2 (gmulB hm) p2.1 p2.2 h2
    refine ⟨hal, ?_⟩
    intro hs av o' h
    simp only [convBV] at h
    obtain ⟨p1, h1, h⟩ := bind_ok _ _ _ h
    obtain ⟨p2, h2, h⟩ := bind_ok _ _ _ h
    obtain ⟨p3, h3, h⟩ := bind_ok _ _ _ h
    have := pure_ok _ _ h
    cases this
    obtain ⟨⟨⟨wa, ba⟩, ma⟩, na⟩ := convBV_rest_good anno env hctx hnrm a o p1.1 p1.2 (noRest a) IHa.1 hdef.1 hwt.1 h1
    obtain ⟨⟨⟨wb, bb⟩, mb⟩, nb⟩ := convBV_rest_good anno env hctx hnrm b p1.2 p2.1 p2.2 (noRest b) (IHb p1.2).1 hdef.2.1 hwt.2.1 h2
    have hbits : p1.1.si.bits = p2.1.si.bits := by rw [ba, bb]; exact hwt.2.2
    obtain ⟨x0, hx0⟩ := defBV_some env a hdef.1
    obtain ⟨y0, hy0⟩ := defBV_some env b hdef.2.1
    have hab : p1.1.si.bottom = false := (ma x0 hx0).1.1
    have hbb : p2.1.si.bottom = false := (mb y0 hy0).1.1
    exact bin_aligned op p1.1.si p2.1.si p3.1 p2.2 p3.2 wa wb hbits hab hbb na nb
      (fun hn => IHa.2 (hs.1 hn) p1.1 p1.2 h1) (fun hn => (IHb p1.2).2 (hs.2 hn) p2.1 p2.2 h2)
      ((hal.2 p1 h1).2 p2 h2) h3
  | .neg a, o, hg, hdef, hwt => by
    have IHa := alBV_of_guardFree anno env hctx hnrm a o hg hdef hwt
    refine ⟨IHa.1, ?_⟩
    intro _ av o' h
    simp only [convBV] at h
    obtain ⟨p1, h1, h⟩ := bind_ok _ _ _ h
    have := pure_ok _ _ h
    cases this
    obtain ⟨⟨⟨wa, _⟩, ma⟩, _⟩ := convBV_rest_good anno env hctx hnrm a o p1.1 p1.2 (noRest a) IHa.1 hdef hwt h1
    obtain ⟨x0, hx0⟩ := defBV_some env a hdef
    exact neg_aligned p1.1.si wa (ma x0 hx0).1.1
  | .not a, o, hg, hdef, hwt => by
    have IHa := alBV_of_guardFree anno env hctx hnrm a o hg hdef hwt
    refine ⟨IHa.1, ?_⟩
    intro _ av o' h
    simp only [convBV] at h
    obtain ⟨p1, h1, h⟩ := bind_ok _ _ _ h
    obtain ⟨r, h2, h⟩ := bind_ok _ _ _ h
    have := pure_ok _ _ h
    cases this
    obtain ⟨⟨⟨wa, _⟩, ma⟩, _⟩ := convBV_rest_good anno env hctx hnrm a o p1.1 p1.2 (noRest a) IHa.1 hdef hwt h1
    obtain ⟨x0, hx0⟩ := defBV_some env a hdef
    exact not_aligned p1.1.si r wa (ma x0 hx0).1.1 h2
  | .zext k a, o, hg, hdef, hwt => by
    have IHa := alBV_of_guardFree anno env hctx hnrm a o hg hdef hwt
    refine ⟨IHa.1, ?_⟩
    intro hs av o' h
    simp only [convBV] at h
    obtain ⟨p1, h1, h⟩ := bind_ok _ _ _ h
    obtain ⟨r, h2, h⟩ := bind_ok _ _ _ h
    have := pure_ok _ _ h
    cases this
    obtain ⟨⟨⟨wa, _⟩, ma⟩, _⟩ := convBV_rest_good anno env hctx hnrm a o p1.1 p1.2 (noRest a) IHa.1 hdef hwt h1
    obtain ⟨x0, hx0⟩ := defBV_some env a hdef
    exact zext_aligned p1.1.si r _ wa (ma x0 hx0).1.1 (by omega) (IHa.2 hs p1.1 p1.2 h1) h2
  | .sext k a, o, hg, hdef, hwt => by
    have IHa := alBV_of_guardFree anno env hctx hnrm a o hg hdef hwt
    refine ⟨IHa.1, ?_⟩
    intro hs av o' h
    simp only [convBV] at h
    obtain ⟨p1, h1, h⟩ := bind_ok _ _ _ h
    obtain ⟨r, h2, h⟩ := bind_ok _ _ _ h
    obtain ⟨keeps, h3, h⟩ := bind_ok _ _ _ h
    have := pure_ok _ _ h
    cases this
    obtain ⟨⟨⟨wa, _⟩, ma⟩, na⟩ := convBV_rest_good anno env hctx hnrm a o p1.1 p1.2 (noRest a) IHa.1 hdef hwt h1
    obtain ⟨x0, hx0⟩ := defBV_some env a hdef
    exact sext_aligned p1.1.si r _ wa (ma x0 hx0).1.1 na (by omega) (IHa.2 hs p1.1 p1.2 h1) h2
  | .extract hi lo a, o, hg, hdef, hwt => by
    have IHa := alBV_of_guardFree anno env hctx hnrm a o hg hdef hwt.1
    refine ⟨IHa.1, ?_⟩
    intro hs av o' h
    simp only [convBV] at h
    obtain ⟨p1, h1, h⟩ := bind_ok _ _ _ h
    obtain ⟨r, h2, h⟩ := bind_ok _ _ _ h
    have := pure_ok _ _ h
    cases this
    obtain ⟨⟨⟨wa, ba⟩, ma⟩, _⟩ := convBV_rest_good anno env hctx hnrm a o p1.1 p1.2 (noRest a) IHa.1 hdef hwt.1 h1
    obtain ⟨x0, hx0⟩ := defBV_some env a hdef
    exact extract_aligned p1.1.si r hi lo wa (ma x0 hx0).1.1 hwt.2.1 (by rw [ba]; exact hwt.2.2)
      (IHa.2 hs p1.1 p1.2 h1) h2
  | .concat a b, o, hg, hdef, hwt => by
    have IHa := alBV_of_guardFree anno env hctx hnrm a o hg.1 hdef.1 hwt.1
    have IHb := fun o1 => alBV_of_guardFree anno env hctx hnrm b o1 hg.2 hdef.2 hwt.2
    refine ⟨⟨IHa.1, fun p1 _ => (IHb p1.2).1⟩, ?_⟩
    intro hs av o' h
    simp only [convBV] at h
    obtain ⟨p1, h1, h⟩ := bind_ok _ _ _ h
    obtain ⟨p2, h2, h⟩ := bind_ok _ _ _ h
    obtain ⟨r, h3, h⟩ := bind_ok _ _ _ h
    have := pure_ok _ _ h
    cases this
    obtain ⟨⟨⟨wa, _⟩, ma⟩, _⟩ := convBV_rest_good anno env hctx hnrm a o p1.1 p1.2 (noRest a) IHa.1 hdef.1 hwt.1 h1
    obtain ⟨⟨⟨wb, _⟩, mb⟩, _⟩ := convBV_rest_good anno env hctx hnrm b p1.2 p2.1 p2.2 (noRest b) (IHb p1.2).1 hdef.2 hwt.2 h2
    obtain ⟨x0, hx0⟩ := defBV_some env a hdef.1
    obtain ⟨y0, hy0⟩ := defBV_some env b hdef.2
    exact concat_aligned p1.1.si p2.1.si r wa wb (ma x0 hx0).1.1 (mb y0 hy0).1.1 (IHa.2 hs.1 p1.1 p1.2 h1)
      ((IHb p1.2).2 hs.2 p2.1 p2.2 h2) h3
  | .ite c a b, o, hg, hdef, hwt => by
    have IHc := alB_of_guardFree anno env hctx hnrm c o hg.1 hdef.1 hwt.1
    have IHa := fun o1 => alBV_of_guardFree anno env hctx hnrm a o1 hg.2.1 hdef.2.1 hwt.2.1
    have IHb := fun o1 => alBV_of_guardFree anno env hctx hnrm b o1 hg.2.2 hdef.2.2 hwt.2.2.1
    refine ⟨⟨IHc, fun pc _ => ⟨(IHa pc.2).1, fun p1 _ => (IHb p1.2).1⟩⟩, ?_⟩
    intro hs av o' h
    simp only [convBV] at h
    obtain ⟨pc, hc, h⟩ := bind_ok _ _ _ h
    obtain ⟨p1, h1, h⟩ := bind_ok _ _ _ h
    obtain ⟨p2, h2, h⟩ := bind_ok _ _ _ h
    obtain ⟨r, h3, h⟩ := bind_ok _ _ _ h
    have := pure_ok _ _ h
    cases this
    obtain ⟨⟨⟨wa, ba⟩, _⟩, _⟩ := convBV_rest_good anno env hctx hnrm a pc.2 p1.1 p1.2 (noRest a) (IHa pc.2).1 hdef.2.1 hwt.2.1 h1
    obtain ⟨⟨⟨wb, bb⟩, _⟩, _⟩ := convBV_rest_good anno env hctx hnrm b p1.2 p2.1 p2.2 (noRest b) (IHb p1.2).1 hdef.2.2 hwt.2.2.1 h2
    have hbits : p1.1.si.bits = p2.1.si.bits := by rw [ba, bb]; exact hwt.2.2.2
    have ala := (IHa pc.2).2 hs.1 p1.1 p1.2 h1
    have alb := (IHb p1.2).2 hs.2 p2.1 p2.2 h2
    unfold iteBV at h3
    split at h3
    · have := pure_ok _ _ h3; cases this; exact alb
    · split at h3
      · have := pure_ok _ _ h3; cases this; exact ala
      · obtain ⟨u, hu, h3⟩ := bind_ok _ _ _ h3
        have := pure_ok _ _ h3
        cases this
        exact union_aligned p1.1.si.bits p1.1.si p2.1.si u ⟨wa, rfl⟩ ⟨wb, hbits.symm⟩ ala alb hu
theorem alB_of_guardFree (anno : Nat → SI) (env : Nat → Nat)
    (hctx : ∀ i, (anno i).WF ∧ (anno i).mem (env i)) (hnrm : ∀ i, Nrm (anno i)) :
    ∀ (c : BExp) (o : Orders), guardFreeB anno c → DefB env c → WTB anno env c → alB anno c o
  | .lit _, _, _, _, _ => trivial
  | .cmp op a b, o, hg, hdef, hwt => by
    have IHa := alBV_of_guardFree anno env hctx hnrm a o hg.1 hdef.1 hwt.1
    have IHb := fun o1 => alBV_of_guardFree anno env hctx hnrm b o1 hg.2.1 hdef.2 hwt.2.1
    exact ⟨IHa.1, fun p1 h1 => ⟨(IHb p1.2).1, fun hr p2 h2 =>
      ⟨IHa.2 (hg.2.2 hr).1 p1.1 p1.2 h1, (IHb p1.2).2 (hg.2.2 hr).2 p2.1 p2.2 h2⟩⟩⟩
  | .not c, o, hg, hdef, hwt => alB_of_guardFree anno env hctx hnrm c o hg hdef hwt
  | .and c d, o, hg, hdef, hwt =>
    ⟨alB_of_guardFree anno env hctx hnrm c o hg.1 hdef.1 hwt.1,
      fun p _ => alB_of_guardFree anno env hctx hnrm d p.2 hg.2 hdef.2 hwt.2⟩
  | .or c d, o, hg, hdef, hwt =>
    ⟨alB_of_guardFree anno env hctx hnrm c o hg.1 hdef.1 hwt.1,
      fun p _ => alB_of_guardFree anno env hctx hnrm d p.2 hg.2 hdef.2 hwt.2⟩
  | .ite c a b, o, hg, hdef, hwt =>
    ⟨alB_of_guardFree anno env hctx hnrm c o hg.1 hdef.1 hwt.1, fun pc _ =>
      ⟨alB_of_guardFree anno env hctx hnrm a pc.2 hg.2.1 hdef.2.1 hwt.2.1,
        fun p _ => alB_of_guardFree anno env hctx hnrm b p.2 hg.2.2 hdef.2.2 hwt.2.2⟩⟩
end

end Claripy.VSA
