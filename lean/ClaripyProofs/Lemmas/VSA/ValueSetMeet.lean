import ClaripyProofs.Lemmas.VSA.SetOpsSound4
/-! `ValueSet.intersection(ValueSet)` keeps, region by region, every offset both operands hold (aligned, normal intervals; the
keys of the operand's dict are distinct). -/
namespace Claripy.VSA

theorem dictDel_keep : ∀ (l : List (String × SI)) (k : String) (q : String × SI), q ∈ l →
    q ∈ dictDel l k ∨ (q.1 = k ∧ dictGet l k = some q.2)
  | [], _, q, hq => by cases hq
  | p :: ps, k, q, hq => by
    unfold dictDel
    by_cases hpk : (p.1 == k) = true
    · rw [if_pos hpk]
      rcases List.mem_cons.1 hq with he | he
      · right
        subst he
        refine ⟨by simpa using hpk, ?_⟩
        unfold dictGet
        simp only [List.find?_cons, hpk]; rfl
      · left; exact he
    · rw [if_neg hpk]
      rcases List.mem_cons.1 hq with he | he
      · left; subst he; exact List.mem_cons_self
      · rcases dictDel_keep ps k q he with h1 | ⟨h1, h2⟩
        · left; exact List.mem_cons_of_mem _ h1
        · right
          refine ⟨h1, ?_⟩
          unfold dictGet at h2 ⊢
          have hf : (p.1 == k) = false := by simpa using hpk
          simp only [List.find?_cons, hf]; exact h2

theorem dictDel_sub : ∀ (l : List (String × SI)) (k : String) (q : String × SI), q ∈ dictDel l k → q ∈ l
  | [], _, q, hq => by simp [dictDel] at hq
  | p :: ps, k, q, hq => by
    unfold dictDel at hq
    split at hq
    · exact List.mem_cons_of_mem _ hq
    · rcases List.mem_cons.1 hq with he | he
      · rw [he]; exact List.mem_cons_self
      · exact List.mem_cons_of_mem _ (dictDel_sub ps k q he)

/-- one step: regions other than `p.1` are untouched; a common offset of the entry read and of `p.2` survives -/
theorem vsMeetStep_sound (w : Nat) (acc acc' : VS) (p : String × SI)
    (hacc : ∀ q, q ∈ acc.regions → q.1 = p.1 → NEa w q.2) (hp : NEa w p.2) (h : vsMeetStep acc p = .ok acc') :
    (∀ q, q ∈ acc'.regions → q.1 ≠ p.1 → q ∈ acc.regions) ∧
    (∀ region x, region ≠ p.1 → acc.memAt region x → acc'.memAt region x) ∧
    (∀ x, acc.memAt p.1 x → p.2.mem x → acc'.memAt p.1 x) := by
  unfold vsMeetStep at h
  cases hg : dictGet acc.regions p.1 with
  | none =>
    rw [hg] at h
    have := pure_ok' h
    subst this
    refine ⟨fun q hq _ => hq, fun _ _ _ hm => hm, ?_⟩
    intro x ⟨q, hq, hreg, _⟩ _
    exact absurd hreg (dictGet_none _ _ hg q hq)
  | some s =>
    rw [hg] at h
    obtain ⟨u, hu, h⟩ := bind_ok' h
    have := pure_ok' h
    subst this
    have hsin := dictGet_mem _ _ _ hg
    have hs : NEa w s := hacc (p.1, s) hsin rfl
    have hmeet := meet_sound w s p.2 u (NE_WFw hs.1) (NE_WFw hp.1) hs.1.nb hp.1.nb hs.2.2 hp.2.2 hs.2.1 hp.2.1 hu
    refine ⟨?_, ?_, ?_⟩
    · intro q hq hne
      show q ∈ acc.regions
      have hq' : q ∈ (if u.bottom = true then dictDel acc.regions p.1 else dictSet acc.regions p.1 u) := hq
      split at hq'
      · exact dictDel_sub _ _ q hq'
      · rcases dictSet_sub _ _ _ q hq' with h1 | h1
        · exact h1
        · exact absurd (by rw [h1]) hne
    · intro region x hne ⟨q, hq, hreg, hm⟩
      show ∃ q', q' ∈ (if u.bottom = true then dictDel acc.regions p.1 else dictSet acc.regions p.1 u) ∧ _
      split
      · rcases dictDel_keep acc.regions p.1 q hq with h1 | ⟨h1, _⟩
        · exact ⟨q, h1, hreg, hm⟩
        · exact absurd (by rw [← hreg, h1]) hne
      · rcases dictSet_keep acc.regions p.1 u q hq with h1 | ⟨h1, _⟩
        · exact ⟨q, h1, hreg, hm⟩
        · exact absurd (by rw [← hreg, h1]) hne
    · intro x ⟨q, hq, hreg, hm⟩ hpx
      show ∃ q', q' ∈ (if u.bottom = true then dictDel acc.regions p.1 else dictSet acc.regions p.1 u) ∧ _
      by_cases hfirst : dictGet acc.regions p.1 = some q.2
      · -- `q` is the entry that is read: the common offset is in the meet, which is therefore not empty
        rw [hg] at hfirst
        have e : s = q.2 := by injection hfirst
        have hux : u.mem x := hmeet.2 x (by rw [e]; exact hm) hpx
        rw [if_neg (by rw [hux.1]; decide)]
        exact ⟨(p.1, u), dictSet_new _ _ _, rfl, hux⟩
      · split
        · rcases dictDel_keep acc.regions p.1 q hq with h1 | ⟨_, h2⟩
          · exact ⟨q, h1, hreg, hm⟩
          · exact absurd h2 hfirst
        · rcases dictSet_keep acc.regions p.1 u q hq with h1 | ⟨_, h2⟩
          · exact ⟨q, h1, hreg, hm⟩
          · exact absurd h2 hfirst

/-- **`valueset.intersection(valueset)`**: every offset that both operands hold in a region is in that region of the result
(intervals aligned and normal — the guard of the interval meet; the keys of the operand are distinct, as in a Python dict) -/
theorem vs_meetVS (w : Nat) (v b r : VS) (hv : ∀ p, p ∈ v.regions → NEa w p.2) (hb : ∀ p, p ∈ b.regions → NEa w p.2)
    (hnd : (b.regions.map (·.1)).Nodup) (h : v.meetVS b = .ok r) (region : String) (x : Nat)
    (hx : v.memAt region x) (hbx : b.memAt region x) : r.memAt region x := by
  unfold VS.meetVS at h
  obtain ⟨r0, hr0, h⟩ := bind_ok' h
  obtain ⟨si, _, h⟩ := bind_ok' h
  have hr := pure_ok' h
  subst hr
  have key : ∀ (ps : List (String × SI)) (acc r0 : VS), (ps.map (·.1)).Nodup → (∀ p, p ∈ ps → NEa w p.2) →
      (∀ q, q ∈ acc.regions → q.1 ∈ ps.map (·.1) → NEa w q.2) → vsFold vsMeetStep acc ps = .ok r0 →
      ∀ region x, acc.memAt region x → (region ∉ ps.map (·.1) ∨ ∃ p, p ∈ ps ∧ p.1 = region ∧ p.2.mem x) →
        r0.memAt region x := by
    intro ps
    induction ps with
    | nil =>
      intro acc r0 _ _ _ h region x hm _
      unfold vsFold at h
      have := pure_ok' h
      subst this
      exact hm
    | cons p ps ih =>
      intro acc r0 hnd hps hacc h region x hm hcond
      unfold vsFold at h
      obtain ⟨acc', hacc', h⟩ := bind_ok' h
      rw [List.map_cons, List.nodup_cons] at hnd
      obtain ⟨g1, g2, g3⟩ := vsMeetStep_sound w acc acc' p
        (fun q hq hk => hacc q hq (by rw [List.map_cons, hk]; exact List.mem_cons_self)) (hps p List.mem_cons_self) hacc'
      apply ih acc' r0 hnd.2 (fun q hq => hps q (List.mem_cons_of_mem _ hq)) ?_ h region x
      · by_cases hreg : region = p.1
        · subst hreg
          rcases hcond with hc | ⟨p', hp', hk, hm'⟩
          · exact absurd (by rw [List.map_cons]; exact List.mem_cons_self) hc
          · rcases List.mem_cons.1 hp' with he | he
            · subst he; exact g3 x hm hm'
            · exfalso
              apply hnd.1
              rw [← hk]
              exact List.mem_map.2 ⟨p', he, rfl⟩
        · exact g2 region x hreg hm
      · by_cases hreg : region = p.1
        · left
          rw [hreg]; exact hnd.1
        · rcases hcond with hc | ⟨p', hp', hk, hm'⟩
          · left
            intro hin
            apply hc
            rw [List.map_cons]; exact List.mem_cons_of_mem _ hin
          · right
            rcases List.mem_cons.1 hp' with he | he
            · subst he; exact absurd hk.symm hreg
            · exact ⟨p', he, hk, hm'⟩
      · intro q hq hk
        by_cases hqp : q.1 = p.1
        · exfalso
          apply hnd.1
          rw [← hqp]; exact hk
        · exact hacc q (g1 q hq hqp) (by rw [List.map_cons]; exact List.mem_cons_of_mem _ hk)
  have := key b.regions v r0 hnd hb (fun q hq _ => hv q hq) hr0 region x hx (Or.inr (by
    obtain ⟨p, hp, hreg, hm⟩ := hbx
    exact ⟨p, hp, hreg, hm⟩))
  exact this

end Claripy.VSA
