import ClaripyProofs.Lemmas.VSA.EvalExact
/-! `eval(n, signed=True)` lists exactly the signed values of the first `n` members, in member-list order (the pieces of
`_nsplit` are visited in order, each from its lower bound upwards). -/
namespace Claripy.VSA

/-- number of terms `L, L + stride, …` that are `≤ U` (integer bounds) -/
def cntI (stride : Nat) (U L : Int) : Nat := if L ≤ U then (U - L).toNat / stride + 1 else 0

/-- the progression `L, L + stride, …` with `c` terms -/
def progI (stride : Nat) (L : Int) (c : Nat) : List Int := (List.range c).map fun j => L + ((j * stride : Nat) : Int)

theorem cntI_succ (stride : Nat) (U L : Int) (hs : 0 < stride) (h : L ≤ U) :
    cntI stride U L = cntI stride U (L + (stride : Int)) + 1 := by
  unfold cntI
  rw [if_pos h]
  by_cases h2 : L + (stride : Int) ≤ U
  · rw [if_pos h2]
    have : (U - L).toNat = (U - (L + (stride : Int))).toNat + stride := by omega
    rw [this, Nat.add_div_right _ hs]
  · rw [if_neg h2]
    have : (U - L).toNat / stride = 0 := Nat.div_eq_of_lt (by omega)
    omega

theorem progI_succ (stride : Nat) (L : Int) (c : Nat) :
    progI stride L (c + 1) = L :: progI stride (L + (stride : Int)) c := by
  unfold progI
  rw [List.range_succ_eq_map, List.map_cons, List.map_map]
  congr 1
  · simp
  · apply List.map_congr_left
    intro j _
    simp only [Function.comp]
    rw [Nat.succ_mul]; push_cast; omega

theorem progI_length (stride : Nat) (L : Int) (c : Nat) : (progI stride L c).length = c := by simp [progI]

theorem evalLoop_specI (stride n : Nat) (U : Int) (hs : 0 < stride) :
    ∀ (fuel : Nat) (L : Int) (acc : List Int), n ≤ acc.length + fuel →
      evalLoop stride n U fuel L acc = acc ++ (progI stride L (cntI stride U L)).take (n - acc.length) := by
  intro fuel
  induction fuel with
  | zero =>
    intro L acc h
    unfold evalLoop
    have : n - acc.length = 0 := by omega
    rw [this, List.take_zero, List.append_nil]
  | succ f ih =>
    intro L acc h
    unfold evalLoop
    by_cases hc : acc.length < n ∧ L ≤ U
    · rw [if_pos hc]
      rw [ih (L + (stride : Int)) (acc ++ [L]) (by rw [List.length_append]; simp; omega)]
      rw [cntI_succ stride U L hs hc.2, progI_succ]
      have hk : n - acc.length = (n - (acc ++ [L]).length) + 1 := by rw [List.length_append]; simp; omega
      rw [hk, List.take_succ_cons, List.append_assoc]
      rfl
    · rw [if_neg hc]
      by_cases h1 : acc.length < n
      · have hLU : ¬ L ≤ U := fun h2 => hc ⟨h1, h2⟩
        unfold cntI; rw [if_neg hLU]
        unfold progI; simp
      · have : n - acc.length = 0 := by omega
        rw [this, List.take_zero, List.append_nil]

/-! ### the signed value along an arc that does not cross the north pole -/

theorem ti_arc_nostraddle (H lb ub d : Nat) (hH : 0 < H) (hl : lb < 2 * H) (hu : ub < 2 * H)
    (hns : ¬ (if ub ≥ H then (lb > ub ∨ lb ≤ H - 1) else (lb > ub ∧ lb ≤ H - 1)))
    (hd : d ≤ cd (2 * H) lb ub) : ti H ((lb + d) % (2 * H)) = ti H lb + (d : Int) := by
  have hdl : d < 2 * H := Nat.lt_of_le_of_lt hd (cd_lt _ _ _ hl hu)
  obtain ⟨hz1, hz2⟩ := mod_two_cases (lb + d) (2 * H) (by omega) (by omega)
  generalize (lb + d) % (2 * H) = z at hz1 hz2
  unfold cd at hd
  unfold ti
  split_ifs at hns hd ⊢ <;> omega

theorem ti_arc_A (H lb K d : Nat) (hH : 0 < H) (hl : lb < 2 * H) (hK : K ≤ cd (2 * H) lb (H - 1)) (hd : d ≤ K) :
    ti H ((lb + d) % (2 * H)) = ti H lb + (d : Int) := by
  have hKl : K < 2 * H := Nat.lt_of_le_of_lt hK (cd_lt _ _ _ hl (by omega))
  obtain ⟨hz1, hz2⟩ := mod_two_cases (lb + d) (2 * H) (by omega) (by omega)
  generalize (lb + d) % (2 * H) = z at hz1 hz2
  unfold cd at hK
  unfold ti
  split_ifs at hK ⊢ <;> omega

theorem ti_arc_B (H lb K' bl e span : Nat) (hH : 0 < H) (hl : lb < 2 * H) (hbl : bl < 2 * H)
    (hble : bl = lb + K' ∨ bl + 2 * H = lb + K') (hK : cd (2 * H) lb (H - 1) < K') (he : K' + e ≤ span) (hsp : span < 2 * H) :
    ti H ((bl + e) % (2 * H)) = ti H bl + (e : Int) := by
  obtain ⟨hz1, hz2⟩ := mod_two_cases (bl + e) (2 * H) (by omega) (by omega)
  generalize (bl + e) % (2 * H) = z at hz1 hz2
  unfold cd at hK
  unfold ti
  split_ifs at hK ⊢ <;> omega

/-- the member list, signed -/
theorem members_signed (s : SI) (hnb : s.bottom = false) (hz : s.stride ≠ 0) :
    s.members.map (fun (v : Nat) => Conc.toInt s.bits v) =
      (List.range (s.span / s.stride + 1)).map fun k => Conc.toInt s.bits ((s.lb + k * s.stride) % 2 ^ s.bits) := by
  unfold SI.members
  rw [hnb]
  simp only [Bool.false_eq_true, if_false, if_neg hz, List.map_map]
  rfl

theorem foldl_eval_zero' (stride : Nat) (bs : List (Int × Int)) :
    bs.foldl (fun results p => evalLoop stride 0 p.2 0 p.1 results) [] = [] := foldl_eval_zero stride bs

/-- **`eval(n, signed=True)` returns exactly the signed values of the first `n` members**, in member-list order
(interval in constructor-normal form) -/
theorem eval_signed_exact (s : SI) (n : Nat) (l : List Int) (hs : s.WF) (hnb : s.bottom = false) (hn : s.renorm = s)
    (h : s.eval n true = .ok l) : l = (s.members.take n).map fun (v : Nat) => Conc.toInt s.bits v := by
  have hwf := hs
  obtain ⟨h0, hl, hu, hst⟩ := hs
  have hm2 := two_pow_half s.bits h0
  have hH := two_pow_pos' (s.bits - 1)
  have hm := two_pow_pos' s.bits
  unfold SI.eval at h
  rw [hnb] at h
  simp only [Bool.false_eq_true, if_false, if_true] at h
  by_cases hc : s.stride = 0 ∧ n > 0
  · rw [if_pos hc] at h
    have : l = [toSigned (s.lb : Int) s.bits] := by cases h; rfl
    subst this
    unfold SI.members
    rw [hnb]
    simp only [Bool.false_eq_true, if_false, if_pos hc.1]
    obtain ⟨k, hk⟩ : ∃ k, n = k + 1 := ⟨n - 1, by omega⟩
    rw [hk, toSigned_nat _ _ h0 hl]; simp
  rw [if_neg hc] at h
  by_cases hn0 : n = 0
  · subst hn0
    cases hb : s.signedBounds with
    | error e => rw [hb] at h; cases h
    | ok bs =>
      rw [hb] at h
      have : l = bs.foldl (fun results p => evalLoop s.stride 0 p.2 0 p.1 results) [] := by cases h; rfl
      rw [this, foldl_eval_zero]; rfl
  have hz : s.stride ≠ 0 := by intro hh; exact hc ⟨hh, by omega⟩
  have hsp : 0 < s.stride := Nat.pos_of_ne_zero hz
  have hspan := span_eq s hwf
  rw [List.map_take, members_signed s hnb hz, hspan]
  generalize hSg : cd (2 ^ s.bits) s.lb s.ub = span
  have hspanlt : span < 2 ^ s.bits := by rw [← hSg]; exact cd_lt _ _ _ hl hu
  by_cases hstr : (if s.ub ≥ 2 ^ (s.bits - 1) then (decide (s.lb > s.ub) || decide (s.lb ≤ maxInt (s.bits - 1)))
          else (decide (s.lb > s.ub) && decide (s.lb ≤ maxInt (s.bits - 1)))) = true
  · -- straddling the north pole: one or two pieces
    have hstrP : (if s.ub ≥ 2 ^ (s.bits - 1) then (s.lb > s.ub ∨ s.lb ≤ 2 ^ (s.bits - 1) - 1)
        else (s.lb > s.ub ∧ s.lb ≤ 2 ^ (s.bits - 1) - 1)) := by
      unfold maxInt at hstr
      split_ifs at hstr ⊢ <;> simpa using hstr
    have hns := nsplit_straddle s hwf hz hstr
    simp only [] at hns
    rw [hSg] at hns
    generalize hDg : cd (2 ^ s.bits) s.lb (2 ^ (s.bits - 1) - 1) = D at hns
    generalize hKg : D - D % s.stride = K at hns
    have hDS : D < span := by
      rw [← hDg, ← hSg]
      unfold cd
      split_ifs at hstrP ⊢ <;> omega
    have hK1 : s.stride ∣ K := by rw [← hKg]; exact Nat.dvd_sub_mod _
    have hK2 : D < K + s.stride := by
      have := Nat.mod_lt D hsp
      have := Nat.mod_le D s.stride
      omega
    have hK3 : K ≤ D := by rw [← hKg]; exact Nat.sub_le _ _
    obtain ⟨c1', hc1'⟩ := hK1
    have hKdiv : K / s.stride = c1' := by rw [hc1', Nat.mul_div_cancel_left _ hsp]
    obtain ⟨hak1, hak2⟩ := mod_two_cases (s.lb + K) (2 ^ s.bits) hm (by omega)
    have hAb := new_bounds s.bits s.stride s.lb ((s.lb + K) % 2 ^ s.bits) hl hak1 (by
      rintro ⟨h1, _⟩
      rw [succ_mod_cases _ _ hak1] at h1
      split_ifs at h1 <;> omega)
    -- signed values along the first piece
    have hlowA : ∀ k, k < c1' + 1 →
        Conc.toInt s.bits ((s.lb + k * s.stride) % 2 ^ s.bits) = Conc.toInt s.bits s.lb + ((k * s.stride : Nat) : Int) := by
      intro k hk
      have hkK : k * s.stride ≤ K := by
        rw [hc1', Nat.mul_comm s.stride c1']; exact Nat.mul_le_mul_right _ (by omega)
      rw [toInt_ti _ _ h0, toInt_ti _ _ h0, hm2]
      exact ti_arc_A _ _ K _ hH (by rw [← hm2]; exact hl) (by rw [← hm2, hDg]; exact hK3) hkK
    have hakS : Conc.toInt s.bits ((s.lb + K) % 2 ^ s.bits) = Conc.toInt s.bits s.lb + (K : Int) := by
      rw [toInt_ti _ _ h0, toInt_ti _ _ h0, hm2]
      exact ti_arc_A _ _ K _ hH (by rw [← hm2]; exact hl) (by rw [← hm2, hDg]; exact hK3) (Nat.le_refl _)
    have hcntA : cntI s.stride (Conc.toInt s.bits ((s.lb + K) % 2 ^ s.bits)) (Conc.toInt s.bits s.lb) = c1' + 1 := by
      unfold cntI
      rw [hakS, if_pos (by omega)]
      have : (Conc.toInt s.bits s.lb + (K : Int) - Conc.toInt s.bits s.lb).toNat = K := by omega
      rw [this, hKdiv]
    have hP1 : (List.range (c1' + 1)).map (fun k => Conc.toInt s.bits ((s.lb + k * s.stride) % 2 ^ s.bits)) =
        progI s.stride (Conc.toInt s.bits s.lb) (c1' + 1) := by
      unfold progI
      apply List.map_congr_left
      intro k hk
      exact hlowA k (List.mem_range.1 hk)
    by_cases hbr : K + s.stride > span
    · rw [if_pos hbr] at hns
      have hb : s.signedBounds = .ok [(Conc.toInt s.bits s.lb, Conc.toInt s.bits ((s.lb + K) % 2 ^ s.bits))] := by
        unfold SI.signedBounds; rw [hns]
        simp only [bind, Except.bind, pure, Except.pure, List.map_cons, List.map_nil, hAb.1, hAb.2,
          toSigned_nat _ _ h0 hl, toSigned_nat _ _ h0 hak1]
      rw [hb] at h
      have hl' : l = evalLoop s.stride n (Conc.toInt s.bits ((s.lb + K) % 2 ^ s.bits)) n (Conc.toInt s.bits s.lb) [] := by
        cases h; rfl
      rw [hl', evalLoop_specI s.stride n _ hsp n _ [] (by simp), hcntA]
      simp only [List.nil_append, List.length_nil, Nat.sub_zero]
      have hcount : span / s.stride + 1 = c1' + 1 := by
        have h1 : c1' ≤ span / s.stride := by
          apply (Nat.le_div_iff_mul_le hsp).2
          rw [Nat.mul_comm, ← hc1']; omega
        have h2 : span / s.stride < c1' + 1 := by
          apply (Nat.div_lt_iff_lt_mul hsp).2
          rw [Nat.mul_comm, Nat.mul_succ, ← hc1']; omega
        omega
      rw [hcount, hP1]
    · rw [if_neg hbr] at hns
      obtain ⟨hbl1, hbl2⟩ := mod_two_cases (s.lb + K + s.stride) (2 ^ s.bits) hm (by omega)
      generalize hblg : (s.lb + K + s.stride) % 2 ^ s.bits = bl at hns hbl1 hbl2
      have hBb := new_bounds s.bits s.stride bl s.ub hbl1 hu (by
        rintro ⟨h1, _⟩
        rw [succ_mod_cases _ _ hu] at h1
        rw [← hSg] at hbr hspanlt
        unfold cd at hbr hspanlt
        split_ifs at h1 hbr hspanlt <;> omega)
      have hb : s.signedBounds = .ok [(Conc.toInt s.bits s.lb, Conc.toInt s.bits ((s.lb + K) % 2 ^ s.bits)),
          (Conc.toInt s.bits bl, Conc.toInt s.bits s.ub)] := by
        unfold SI.signedBounds; rw [hns]
        simp only [bind, Except.bind, pure, Except.pure, List.map_cons, List.map_nil, hAb.1, hAb.2, hBb.1, hBb.2,
          toSigned_nat _ _ h0 hl, toSigned_nat _ _ h0 hak1, toSigned_nat _ _ h0 hbl1, toSigned_nat _ _ h0 hu]
      rw [hb] at h
      have hl' : l = evalLoop s.stride n (Conc.toInt s.bits s.ub) n (Conc.toInt s.bits bl)
          (evalLoop s.stride n (Conc.toInt s.bits ((s.lb + K) % 2 ^ s.bits)) n (Conc.toInt s.bits s.lb) []) := by
        cases h; rfl
      rw [hl', evalLoop_specI s.stride n _ hsp n _ [] (by simp), hcntA]
      simp only [List.nil_append, List.length_nil, Nat.sub_zero]
      rw [evalLoop_specI s.stride n _ hsp n _ _ (by omega)]
      -- the second piece: from `bl` (at distance K + stride from the lower bound) to the upper bound
      have hrest : K + s.stride ≤ span := by omega
      generalize hE : span - (K + s.stride) = E
      have hubE : s.ub = (bl + E) % 2 ^ s.bits := by
        -- both are at distance `span` from the lower bound
        have h1 : s.ub = (s.lb + span) % 2 ^ s.bits := by rw [← hSg]; exact eq_of_cd _ _ _ hl hu
        rw [h1, ← hblg, Nat.mod_add_mod]
        congr 1; omega
      have hBti : ∀ e, e ≤ E → Conc.toInt s.bits ((bl + e) % 2 ^ s.bits) = Conc.toInt s.bits bl + (e : Int) := by
        intro e he
        rw [toInt_ti _ _ h0, toInt_ti _ _ h0, hm2]
        exact ti_arc_B _ s.lb (K + s.stride) bl e span hH (by rw [← hm2]; exact hl) (by rw [← hm2]; exact hbl1)
          (by rw [← hm2]; omega) (by rw [← hm2, hDg]; exact hK2) (by omega) (by rw [← hm2]; exact hspanlt)
      have hubS : Conc.toInt s.bits s.ub = Conc.toInt s.bits bl + (E : Int) := by rw [hubE]; exact hBti E (Nat.le_refl _)
      generalize hc2 : cntI s.stride (Conc.toInt s.bits s.ub) (Conc.toInt s.bits bl) = c2
      have hc2' : c2 = E / s.stride + 1 := by
        rw [← hc2]; unfold cntI
        rw [hubS, if_pos (by omega)]
        have : (Conc.toInt s.bits bl + (E : Int) - Conc.toInt s.bits bl).toNat = E := by omega
        rw [this]
      have hcount : span / s.stride + 1 = (c1' + 1) + c2 := by
        have e : span = E + s.stride * (c1' + 1) := by rw [Nat.mul_succ, ← hc1']; omega
        rw [e, Nat.add_mul_div_left _ _ hsp, hc2']; omega
      rw [hcount, List.range_add, List.map_append, List.map_map, List.take_append, hP1]
      have hP2 : (List.range c2).map ((fun k => Conc.toInt s.bits ((s.lb + k * s.stride) % 2 ^ s.bits)) ∘ fun x => c1' + 1 + x) =
          progI s.stride (Conc.toInt s.bits bl) c2 := by
        unfold progI
        apply List.map_congr_left
        intro j hj
        have hj' := List.mem_range.1 hj
        simp only [Function.comp]
        have hje : j * s.stride ≤ E := by
          have : j * s.stride ≤ E / s.stride * s.stride := Nat.mul_le_mul_right _ (by omega)
          have := Nat.div_mul_le_self E s.stride
          omega
        rw [← hBti (j * s.stride) hje]
        congr 1
        rw [← hblg, Nat.mod_add_mod]
        congr 1
        rw [Nat.add_mul, Nat.succ_mul, Nat.mul_comm c1' s.stride, ← hc1']; omega
      rw [hP2, progI_length]
      congr 2
      rw [List.length_take, progI_length]
      omega
  · -- not straddling: one piece, the interval itself
    have hnsP : ¬ (if s.ub ≥ 2 ^ (s.bits - 1) then (s.lb > s.ub ∨ s.lb ≤ 2 ^ (s.bits - 1) - 1)
        else (s.lb > s.ub ∧ s.lb ≤ 2 ^ (s.bits - 1) - 1)) := by
      unfold maxInt at hstr
      intro hP
      apply hstr
      split_ifs at hP ⊢ <;> simpa using hP
    have hns : s.nsplit = .ok [s] := by
      unfold SI.nsplit
      simp only []
      rw [if_neg hstr, hn]; rfl
    have hb : s.signedBounds = .ok [(Conc.toInt s.bits s.lb, Conc.toInt s.bits s.ub)] := by
      unfold SI.signedBounds; rw [hns]
      simp only [bind, Except.bind, pure, Except.pure, List.map_cons, List.map_nil,
        toSigned_nat _ _ h0 hl, toSigned_nat _ _ h0 hu]
    rw [hb] at h
    have hl' : l = evalLoop s.stride n (Conc.toInt s.bits s.ub) n (Conc.toInt s.bits s.lb) [] := by cases h; rfl
    rw [hl', evalLoop_specI s.stride n _ hsp n _ [] (by simp)]
    simp only [List.nil_append, List.length_nil, Nat.sub_zero]
    have harc : ∀ d, d ≤ span → Conc.toInt s.bits ((s.lb + d) % 2 ^ s.bits) = Conc.toInt s.bits s.lb + (d : Int) := by
      intro d hd
      rw [toInt_ti _ _ h0, toInt_ti _ _ h0, hm2]
      exact ti_arc_nostraddle _ _ s.ub _ hH (by rw [← hm2]; exact hl) (by rw [← hm2]; exact hu) hnsP
        (by rw [← hm2, hSg]; exact hd)
    have hubS : Conc.toInt s.bits s.ub = Conc.toInt s.bits s.lb + (span : Int) := by
      have h1 : s.ub = (s.lb + span) % 2 ^ s.bits := by rw [← hSg]; exact eq_of_cd _ _ _ hl hu
      conv => lhs; rw [h1]
      exact harc span (Nat.le_refl _)
    have hcnt : cntI s.stride (Conc.toInt s.bits s.ub) (Conc.toInt s.bits s.lb) = span / s.stride + 1 := by
      unfold cntI
      rw [hubS, if_pos (by omega)]
      have : (Conc.toInt s.bits s.lb + (span : Int) - Conc.toInt s.bits s.lb).toNat = span := by omega
      rw [this]
    rw [hcnt]
    congr 1
    unfold progI
    apply List.map_congr_left
    intro k hk
    have hk' := List.mem_range.1 hk
    symm
    apply harc
    have : k * s.stride ≤ span / s.stride * s.stride := Nat.mul_le_mul_right _ (by omega)
    have := Nat.div_mul_le_self span s.stride
    omega

end Claripy.VSA
