import ClaripyProofs.Lemmas.VSA.BalancerHandle
/-!
`_doit` (model `doit`) on one comparison: the constructors of the reversed truism and of the implicit assumption
(`mkUGE` = `ge_simplifier`), then the composite statement for the paths on which no constant is moved across `+` / `-`
(and for `==` / `!=` on every path).
-/
set_option linter.unusedSectionVars false
namespace Claripy.VSA.Bal
open Claripy.VSA

theorem conv_concat_right (anno : Nat → SI) (a b : BV) (o : Orders) (p : AV × Orders)
    (h : convBV anno (.concat a b) o = .ok p) : ∃ o' q, convBV anno b o' = .ok q := by
  simp only [convBV] at h
  obtain ⟨q, _, h⟩ := bind_ok _ _ _ h
  obtain ⟨q', hq', _⟩ := bind_ok _ _ _ h
  exact ⟨_, q', hq'⟩

theorem mkCmpT_sym (op : CmpOp) (l : BV) (r w : Nat) (hs : symBV l = true) : mkCmpT op l r w = .tru ⟨op, l, r, w⟩ := by
  unfold mkCmpT asConst
  rw [if_pos hs]

section
variable (anno : Nat → SI) (env : Nat → Nat) (hctx : ∀ i, (anno i).WF ∧ (anno i).mem (env i)) (hnrm : ∀ i, Nrm (anno i))
include hctx hnrm

/-- `UGE(e, BVV(r, w))` through `ge_simplifier`: when it stays a comparison, that comparison holds whenever the
original one does -/
theorem mkUGE_spec (e : BV) (r w : Nat) : ∀ (v : Nat), ExprOK anno env e → symBV e = true → wd e = w → r < 2 ^ w →
    (∃ o p, convBV anno e o = .ok p) → evalBV env e = some v → r ≤ v →
    ∀ t, mkUGE e r w = .tru t → TruOK anno env t ∧ t.holds env ∧ t.op = .uge ∧
      (∀ x, evalBV env t.lhs = some x → x < 2 ^ t.w) ∧ ∃ o p, convBV anno t.lhs o = .ok p := by
  fun_induction mkUGE e r w with
  | case1 k a r w hg ih =>
    intro v hok hs hw hr hconv hv hge t ht
    have hoa : ExprOK anno env a := ok_zext hok
    have hwa : w = k + wd a := by rw [← hw]; rfl
    have hpos : 0 < wd a := wd_pos anno env (fun i => (hctx i).1) a hoa.1
    have hr' := high_zero' w k r (by omega) hr hg
    have hlow : Conc.extract (w - k - 1) 0 r = r := low_id (w - k) r (by omega) hr'
    obtain ⟨o, p, hp⟩ := hconv
    obtain ⟨q, hq⟩ := conv_zext_inner anno k a o p hp
    refine ih v hoa (by simpa [symBV] using hs) (by omega) (by rw [hlow]; exact hr') ⟨o, q, hq⟩
      (by simpa [evalBV] using hv) (by rw [hlow]; exact hge) t ht
  | case2 k a r w hg =>
    intro v _ _ _ _ _ _ _ t ht; cases ht
  | case3 k a r w hg ih =>
    intro v hok hs hw hr hconv hv hge t ht
    obtain ⟨hoc, hoa⟩ := ok_concat hok
    have hwa : w = k + wd a := by rw [← hw]; rfl
    have hpos : 0 < wd a := wd_pos anno env (fun i => (hctx i).1) a hoa.1
    have hr' := high_zero' w k r (by omega) hr hg
    have hlow : Conc.extract (w - k - 1) 0 r = r := low_id (w - k) r (by omega) hr'
    obtain ⟨o, p, hp⟩ := hconv
    obtain ⟨o', q, hq⟩ := conv_concat_right anno _ a o p hp
    obtain ⟨x, hx⟩ := exprOK_val anno env a hoa
    have hvx : v = x := by
      simp only [evalBV, hx, Option.bind_eq_bind, Option.bind_some, Option.some.injEq] at hv
      rw [← hv]; simp [Conc.concat]
    subst hvx
    refine ih v hoa (by simpa [symBV] using hs) (by omega) (by rw [hlow]; exact hr') ⟨o', q, hq⟩
      hx (by rw [hlow]; exact hge) t ht
  | case4 k a r w hg =>
    intro v _ _ _ _ _ _ _ t ht; cases ht
  | case5 e r w h1 h2 =>
    intro v hok hs hw hr hconv hv hge t ht
    rw [mkCmpT_sym _ _ _ _ hs] at ht
    cases ht
    obtain ⟨o, p, hp⟩ := hconv
    refine ⟨⟨hok, hs, hw, hr⟩, ⟨v, hv, by simpa [concCmp] using hge⟩, rfl, ?_, ⟨o, p, hp⟩⟩
    intro x hx
    have := (conv_val anno env hctx hnrm e hok o p hp x hx).2.2.2.1
    simp only; rw [← hw]; exact this


/-- the four unsigned orderings -/
def uOrd (op : CmpOp) : Prop := op = .ult ∨ op = .ule ∨ op = .ugt ∨ op = .uge

omit hctx hnrm in
theorem uOrd_uns (op : CmpOp) (h : uOrd op) : unsOp op = true := by rcases h with h | h | h | h <;> rw [h] <;> rfl

/-- `_get_assumptions` of an unsigned ordering: a comparison that holds for every value of the left side -/
theorem assumption_spec (t : Tru) (hok : TruOK anno env t) (hop : uOrd t.op) (hconv : ∃ o p, convBV anno t.lhs o = .ok p) :
    ∀ A, assumption t = some A → ∀ ta, A = .tru ta →
      TruOK anno env ta ∧ ta.holds env ∧ uOrd ta.op ∧ (∀ x, evalBV env ta.lhs = some x → x < 2 ^ ta.w) ∧
        ((∃ o p, convBV anno ta.lhs o = .ok p) ∧ (isModLhs t.lhs = true → ta.lhs = t.lhs ∧ ta.w = t.w ∧
          ((t.op = .ule ∨ t.op = .ult) → ta.op = .uge ∧ ta.r = 0) ∧ ((t.op = .uge ∨ t.op = .ugt) → ta.op = .ule ∧ ta.r = 2 ^ t.w - 1))) := by
  intro A hA ta hta
  obtain ⟨v, hv⟩ := exprOK_val anno env t.lhs hok.ok
  obtain ⟨o, p, hp⟩ := hconv
  have hvlt : v < 2 ^ wd t.lhs := (conv_val anno env hctx hnrm t.lhs hok.ok o p hp v hv).2.2.2.1
  have hpos : 0 < wd t.lhs := (conv_val anno env hctx hnrm t.lhs hok.ok o p hp v hv).2.2.2.2
  have hwd := hok.wd_eq
  unfold assumption at hA
  have low : (t.op = .ule ∨ t.op = .ult) → mkCmp .uge t.lhs 0 (wd t.lhs) = .tru ta → TruOK anno env ta ∧ ta.holds env ∧ uOrd ta.op ∧
      (∀ x, evalBV env ta.lhs = some x → x < 2 ^ ta.w) ∧ ((∃ o p, convBV anno ta.lhs o = .ok p) ∧
        (isModLhs t.lhs = true → ta.lhs = t.lhs ∧ ta.w = t.w ∧
          ((t.op = .ule ∨ t.op = .ult) → ta.op = .uge ∧ ta.r = 0) ∧ ((t.op = .uge ∨ t.op = .ugt) → ta.op = .ule ∧ ta.r = 2 ^ t.w - 1))) := fun hlo hh => by
    have hh' : mkUGE t.lhs 0 (wd t.lhs) = .tru ta := hh
    have := mkUGE_spec anno env hctx hnrm t.lhs 0 (wd t.lhs) v hok.ok hok.sym rfl (two_pow_pos' _) ⟨o, p, hp⟩ hv (Nat.zero_le _) ta hh'
    refine ⟨this.1, this.2.1, Or.inr (Or.inr (Or.inr this.2.2.1)), this.2.2.2.1, this.2.2.2.2, ?_⟩
    intro hm
    rcases isModLhs_cases t.lhs hm with ⟨x, y, hl⟩ | ⟨x, y, hl⟩ <;>
    · rw [hl] at hh'
      unfold mkUGE at hh'
      have hsy : symBV (t.lhs) = true := hok.sym
      rw [hl] at hsy
      rw [mkCmpT_sym _ _ _ _ hsy] at hh'
      cases hh'
      refine ⟨hl.symm, by simp only; rw [← hwd, hl], fun _ => ⟨rfl, rfl⟩, fun hhi => ?_⟩
      rcases hlo with h1 | h1 <;> rcases hhi with h2 | h2 <;> rw [h1] at h2 <;> cases h2
  have high : (t.op = .uge ∨ t.op = .ugt) → mkCmp .ule t.lhs (2 ^ wd t.lhs - 1) (wd t.lhs) = .tru ta → TruOK anno env ta ∧ ta.holds env ∧ uOrd ta.op ∧
      (∀ x, evalBV env ta.lhs = some x → x < 2 ^ ta.w) ∧ ((∃ o p, convBV anno ta.lhs o = .ok p) ∧
        (isModLhs t.lhs = true → ta.lhs = t.lhs ∧ ta.w = t.w ∧
          ((t.op = .ule ∨ t.op = .ult) → ta.op = .uge ∧ ta.r = 0) ∧ ((t.op = .uge ∨ t.op = .ugt) → ta.op = .ule ∧ ta.r = 2 ^ t.w - 1))) := fun hhi hh => by
    unfold mkCmp at hh
    rw [mkCmpT_sym _ _ _ _ hok.sym] at hh
    cases hh
    refine ⟨⟨hok.ok, hok.sym, rfl, by simp only; omega⟩, ⟨v, hv, by simp only [concCmp, decide_eq_true_eq]; omega⟩,
      Or.inr (Or.inl rfl), ?_, ⟨o, p, hp⟩, fun _ => ⟨rfl, hwd, fun hlo => ?_, fun _ => ⟨rfl, by simp only; rw [hwd]⟩⟩⟩
    · intro x hx
      rw [hv] at hx; cases hx; exact hvlt
    · rcases hlo with h1 | h1 <;> rcases hhi with h2 | h2 <;> rw [h1] at h2 <;> cases h2
  rcases hop with ho | ho | ho | ho <;> rw [ho] at hA <;> simp only [Option.some.injEq] at hA
  · exact low (Or.inr ho) (hA.trans hta)
  · exact low (Or.inl ho) (hA.trans hta)
  · exact high (Or.inr ho) (hA.trans hta)
  · exact high (Or.inl ho) (hA.trans hta)

omit hctx hnrm in
theorem card_nonsym (e : BV) (hs : symBV e = false) : card anno e = .ok 1 := by
  unfold card; rw [if_neg (by simp [hs])]; rfl

/-- balance and handle one truism that holds: the bounds stay plain bounds -/
theorem processTru_pt (t : Tru) (bs : Bounds) (res : Bounds × BalOut) (hok : TruOK anno env t) (hop : unsOp t.op = true)
    (hh : t.holds env) (hps : PSound env bs) (h : processTru anno t bs = .ok res)
    (hcov : res.2.usedMod = true → (t.op = .eq ∨ t.op = .ne)) : PSound env res.1 := by
  unfold processTru at h
  obtain ⟨out, hout, h⟩ := bindM_ok h
  obtain ⟨bs', hbs', h⟩ := bindM_ok h
  have := pureM_ok h; subst this
  simp only at hcov ⊢
  by_cases hs : symBV out.t.lhs = true
  · obtain ⟨h1, h2, h3⟩ := balance1_holds anno env hctx hnrm t out hok hop hh hout hs hcov
    exact handle_pt anno env hctx hnrm out.t bs bs' h1 (by rw [h2]; exact hop) h3 hps hbs'
  · have hs' : symBV out.t.lhs = false := by simpa using hs
    unfold handle at hbs'
    rw [card_nonsym anno out.t.lhs hs'] at hbs'
    obtain ⟨c, hc, hbs'⟩ := bindM_ok hbs'
    have := pureM_ok hc; subst this
    simp only [if_true] at hbs'
    have := pureM_ok hbs'; subst this; exact hps

/-- what the check's guard says about the two paths: no constant moved across `+` / `-` by an ordering -/
def CoveredPt (op : CmpOp) (info : PathInfo) : Prop :=
  (∀ m, info.main = some m → m.usedMod = true → (op = .eq ∨ op = .ne)) ∧ (∀ a, info.assum = some a → a.usedMod = false)

omit hctx hnrm in
theorem opposite_uns (op : CmpOp) (h : unsOp op = true) : unsOp (opposite op) = true := by cases op <;> simp_all [unsOp, opposite]
omit hctx hnrm in
theorem opposite_uOrd (op : CmpOp) (h : unsOp (opposite op) = true) (hne : ¬ (op = .eq ∨ op = .ne)) : uOrd (opposite op) := by
  cases op <;> simp_all [unsOp, opposite, uOrd]
omit hctx hnrm in
theorem uns_cases (op : CmpOp) (h : unsOp op = true) : (op = .eq ∨ op = .ne) ∨ uOrd op := by
  cases op <;> simp_all [unsOp, uOrd]

/-- **`_doit` on a comparison: the recorded bounds are plain bounds of the values** — unsigned orderings on whose paths
no constant is moved across `+` / `-`, and `==` / `!=` on every path -/
theorem doit_pt (op : CmpOp) (a b : BV) (bs : Bounds) (info : PathInfo) (hoa : ExprOK anno env a) (hob : ExprOK anno env b)
    (hwab : wd a = wd b) (hop : unsOp op = true) (hsym : ∀ r w, b = .const r w → symBV a = true)
    (h : doit anno (.cmp op a b) = .ok (.sat bs info))
    (hcov : CoveredPt op info) (hsat : evalB env (.cmp op a b) = some true) : PSound env bs := by
  unfold doit at h
  obtain ⟨tv, _, h⟩ := bindM_ok h
  by_cases htv : tv = .f
  · rw [if_pos htv] at h; cases h
  · rw [if_neg htv] at h
    obtain ⟨ca, hca, h⟩ := bindM_ok h
    obtain ⟨cb, hcb, h⟩ := bindM_ok h
    by_cases hboth : ca > 1 ∧ cb > 1
    · rw [if_pos hboth] at h
      have := pureM_ok h; cases this; exact psound_nil env
    · rw [if_neg hboth] at h
      obtain ⟨T, hT, h⟩ := bindM_ok h
      -- the adjusted truism holds
      obtain ⟨x, hx⟩ := exprOK_val anno env a hoa
      obtain ⟨y, hy⟩ := exprOK_val anno env b hob
      have hcmp : concCmp op (wd a) x y = true := by
        simp only [evalB, hx, hy, Option.bind_eq_bind, Option.bind_some, Option.some.injEq] at hsat; exact hsat
      have conv_of_card : ∀ e c, symBV e = true → cardNE anno e = .ok c → ∃ o p, convBV anno e o = .ok p := by
        intro e c hs hc
        unfold cardNE at hc
        obtain ⟨c', hc', _⟩ := bindM_ok hc
        obtain ⟨p, hp, _⟩ := card_conv e hs c' hc'
        exact ⟨[], p, hp⟩
      have main : ∀ t, T = .tru t → (TruOK anno env t ∧ t.holds env ∧ unsOp t.op = true ∧
          ((t.op = .eq ∨ t.op = .ne) ↔ (op = .eq ∨ op = .ne)) ∧ ∃ o p, convBV anno t.lhs o = .ok p) := by
        intro t hTt
        subst hTt
        unfold adjust at hT
        by_cases hrev : ca = 1 ∧ cb > 1
        · rw [if_pos hrev] at hT
          have hsb : symBV b = true := card_gt_one_sym anno b cb hcb hrev.2
          cases a with
          | const r w =>
            have hTT := pureM_ok hT
            have hrw : r < 2 ^ w ∧ 0 < w := by have := hoa.1; simp only [WTBV] at this; exact ⟨this.2, this.1⟩
            have hxr : x = r := by simp only [evalBV, Option.some.injEq] at hx; exact hx.symm
            subst hxr
            have hwb : wd b = w := by rw [← hwab]; rfl
            have hcmp' : concCmp (opposite op) w y x = true := by rw [concCmp_opposite]; exact hcmp
            by_cases huge : opposite op = .uge
            · rw [huge] at hTT hcmp'
              unfold mkCmp at hTT
              have hge : x ≤ y := by simpa [concCmp] using hcmp'
              obtain ⟨h1, h2, h3, _, hconvt⟩ := mkUGE_spec anno env hctx hnrm b x w y hob hsb hwb hrw.1
                (conv_of_card b cb hsb hcb) hy hge t hTT.symm
              have hopne : ¬ (op = .eq ∨ op = .ne) := by
                intro hh; rcases hh with hh | hh <;> rw [hh] at huge <;> cases huge
              exact ⟨h1, h2, by rw [h3]; rfl, by rw [h3]; simp [hopne], hconvt⟩
            · have hTT' : Tr.tru t = mkCmpT (opposite op) b x w := by
                rw [hTT]; unfold mkCmp; cases hop' : opposite op <;> simp_all
              rw [mkCmpT_sym _ _ _ _ hsb] at hTT'
              cases hTT'
              refine ⟨⟨hob, hsb, hwb, hrw.1⟩, ⟨y, hy, hcmp'⟩, opposite_uns op hop, ?_, conv_of_card b cb hsb hcb⟩
              simp only; cases op <;> simp [opposite]
          | _ => cases hT
        · rw [if_neg hrev] at hT
          cases b with
          | const r w =>
            have hTT := pureM_ok hT
            have hsa : symBV a = true := hsym r w rfl
            have hrw : r < 2 ^ w ∧ 0 < w := by have := hob.1; simp only [WTBV] at this; exact ⟨this.2, this.1⟩
            have hyr : y = r := by simp only [evalBV, Option.some.injEq] at hy; exact hy.symm
            subst hyr
            cases hTT
            exact ⟨⟨hoa, hsa, hwab, hrw.1⟩, ⟨x, hx, by simp only; rw [← show wd a = w from hwab]; exact hcmp⟩, hop,
              Iff.rfl, conv_of_card a ca hsa hca⟩
          | _ => cases hT
      cases T with
      | lit _ => have := pureM_ok h; cases this; exact psound_nil env
      | tru t =>
        dsimp only at h
        obtain ⟨p1, hp1, h⟩ := bindM_ok h
        obtain ⟨hokt, hht, hopt, hiff, hconvt⟩ := main t rfl
        have first : (p1.2.usedMod = true → (op = .eq ∨ op = .ne)) → PSound env p1.1 := fun hc =>
          processTru_pt anno env hctx hnrm t [] p1 hokt hopt hht (psound_nil env) hp1 (fun hm => hiff.2 (hc hm))
        cases hA : assumption t with
        | none =>
          rw [hA] at h
          have := pureM_ok h; cases this
          exact first (hcov.1 p1.2 rfl)
        | some A =>
          rw [hA] at h
          dsimp only at h
          by_cases hAc : A.toB = BExp.cmp op a b
          · rw [if_pos hAc] at h
            have := pureM_ok h; cases this
            exact first (hcov.1 p1.2 rfl)
          · rw [if_neg hAc] at h
            obtain ⟨av, _, h⟩ := bindM_ok h
            by_cases hav : av = .f
            · rw [if_pos hav] at h; cases h
            · rw [if_neg hav] at h
              cases A with
              | lit _ =>
                have := pureM_ok h; cases this
                exact first (hcov.1 p1.2 rfl)
              | tru ta =>
                dsimp only at h
                obtain ⟨_, _, h⟩ := bindM_ok h
                obtain ⟨p2, hp2, h⟩ := bindM_ok h
                have := pureM_ok h; cases this
                have hord : uOrd t.op := by
                  rcases uns_cases t.op hopt with he | ho
                  · unfold assumption at hA
                    rcases he with he | he <;> rw [he] at hA <;> simp at hA
                  · exact ho
                obtain ⟨a1, a2, a3, _, _⟩ := assumption_spec anno env hctx hnrm t hokt hord hconvt _ hA ta rfl
                have hps1 := first (hcov.1 p1.2 rfl)
                have hm2 := hcov.2 p2.2 rfl
                exact processTru_pt anno env hctx hnrm ta p1.1 p2 a1 (uOrd_uns _ a3) a2 hps1 hp2
                  (fun hm => by rw [hm2] at hm; cases hm)

end

end Claripy.VSA.Bal
