import ClaripyProofs.Lemmas.VSA.AlignedExtract
import ClaripyProofs.Lemmas.VSA.ModSound
/-! `udiv`, the meet, `mul` and `__mod__` return aligned intervals.
`udiv` and the meet do so whatever the operands are (stride-1 pieces; `meetFrom` ends at the last multiple of the new stride). -/
namespace Claripy.VSA

/-- **`udiv` always returns an aligned interval** (every partial result has stride 1 or is empty) -/
theorem udiv_aligned (s o r : SI) (order : List Nat) (hs : s.WF) (ho : o.WF) (hbits : s.bits = o.bits)
    (hsb : s.bottom = false) (hob : o.bottom = false) (h : s.udiv o order = .ok r) : r.Aligned := by
  obtain ⟨ds, hds, hdp, _, _⟩ := ssplit_spec s hs hsb
  obtain ⟨vs, hvs, hvp, _, _⟩ := ssplit_spec o ho hob
  unfold SI.udiv at h
  rw [hds, hvs] at h
  simp only [bind, Except.bind] at h
  generalize hrs : (ds.map fun d => vs.map fun v => wrappedUnsignedDiv d v).flatten = rs at h
  cases hperm : permute (dedupe rs) order with
  | none => rw [hperm] at h; cases h
  | some l =>
    rw [hperm] at h
    simp only [] at h
    cases hlub : leastUpperBound l with
    | error e => rw [hlub] at h; cases h
    | ok u =>
      rw [hlub] at h
      have hr : r = u.renorm := by cases h; rfl
      subst hr
      have hrsP : ∀ t, t ∈ rs → WFw s.bits t ∧ t.Aligned := by
        intro t ht
        rw [← hrs, List.mem_flatten] at ht
        obtain ⟨row, hrow, htr⟩ := ht
        obtain ⟨d, hd, hde⟩ := List.mem_map.1 hrow
        subst hde
        obtain ⟨v, hv, hve⟩ := List.mem_map.1 htr
        subst hve
        obtain ⟨hdw, _, hdle, _⟩ := hdp d hd
        obtain ⟨hvw, _, hvle, _⟩ := hvp v hv
        rw [← hbits] at hvw
        refine ⟨(wudiv_piece s.bits d v hdw hvw hs.1 hdle hvle).1, ?_⟩
        by_cases hb : (wrappedUnsignedDiv d v).bottom = false
        · exact wud_aligned s.bits d v hdw hvw hb
        · -- the empty interval has stride 1
          have hbits' : Nat.max d.bits v.bits = s.bits := by rw [hdw.2, hvw.2]; exact Nat.max_self _
          unfold wrappedUnsignedDiv at hb ⊢
          simp only [hbits'] at hb ⊢
          split
          · exact empty_aligned _
          · rename_i hz; rw [if_neg hz] at hb; simp at hb
      have hlP : ∀ t, t ∈ l → WFw s.bits t ∧ t.Aligned := by
        intro t ht
        unfold permute at hperm
        split at hperm
        · cases hperm
        · have hl' : l = order.filterMap fun i => (dedupe rs)[i]? := by cases hperm; rfl
          subst hl'
          obtain ⟨i, _, hi⟩ := List.mem_filterMap.1 ht
          exact hrsP t (dedupe_subset _ t (List.mem_of_getElem? hi))
      have hu1 := (lub_sup s.bits l u (fun t ht => (hlP t ht).1) hlub).1
      exact renorm_aligned u hu1.1 (lub_aligned s.bits l u hlP hlub)

/-! ### the meet -/

theorem imod_add_nat (K : Nat) (l : Int) (w : Nat) : imod ((K : Int) + l) w = (imod l w + K) % 2 ^ w := by
  have h := Int.emod_add_mul_ediv l ((2 ^ w : Nat) : Int)
  have hc := imod_cast l w
  apply imod_shift ((K : Int) + l) (l / ((2 ^ w : Nat) : Int)) (imod l w + K) w
  rw [Int.natCast_add, hc]
  have : l = l % ((2 ^ w : Nat) : Int) + ((2 ^ w : Nat) : Int) * (l / ((2 ^ w : Nat) : Int)) := h.symm
  rw [Int.mul_comm] at this
  omega

/-- an interval built from a lower bound and a multiple of its stride as span is aligned -/
theorem new_offset_aligned (w st : Nat) (l : Int) (K : Nat) (hK : K < 2 ^ w) (hd : st ∣ K) :
    (SI.new w st l ((modAdd (K : Int) l w : Nat) : Int)).Aligned := by
  apply new_aligned_of_mem
  have hn := imod_lt l w
  unfold modAdd
  rw [mem_new, imod_of_lt _ _ (imod_lt _ _), imod_add_nat, cd_add_right _ _ _ hn hK]
  refine ⟨Nat.mod_lt _ (two_pow_pos' w), Nat.le_refl _, ?_⟩
  split
  · rename_i h0; rw [h0] at hd; exact Nat.eq_zero_of_zero_dvd hd
  · exact Nat.mod_eq_zero_of_dvd hd

theorem meetFin_aligned (w ns : Nat) (o : Option Int) (U : Nat) (r : SI) (_hU : U < 2 ^ w)
    (h : meetFin w ns o U = .ok r) : r.Aligned := by
  unfold meetFin at h
  cases o with
  | none => rw [pure_ok' h]; exact empty_aligned w
  | some m =>
    simp only [] at h
    split at h
    · cases h
    · rw [pure_ok' h]
      unfold meetFrom
      simp only []
      apply new_offset_aligned
      · have h1 : modSub (U : Int) m w < 2 ^ w := by unfold modSub; exact imod_lt _ _
        exact Nat.lt_of_le_of_lt (Nat.div_mul_le_self _ _) h1
      · exact Nat.dvd_mul_left _ _

theorem konst_aligned (w : Nat) (c : Prop) [Decidable c] (v : Int) :
    (if c then SI.new w 0 v v else SI.empty w).Aligned := by
  split
  · exact new_singleton_aligned _ _ _
  · exact empty_aligned _

/-- **every result of `_multi_valued_intersection` is aligned**, whatever the operands -/
theorem multiMeet_aligned (w : Nat) (s b : SI) (hs : WFw w s) (hb : WFw w b) (hsb : s.bottom = false)
    (hbb : b.bottom = false) (l : List SI) (h : s.multiMeet b = .ok l) : ∀ r, r ∈ l → r.Aligned := by
  have hbits : s.bits = b.bits := by rw [hs.2, hb.2]
  have hsu : s.ub < 2 ^ s.bits := hs.1.2.2.1
  have hbu : b.ub < 2 ^ s.bits := by rw [hbits]; exact hb.1.2.2.1
  have single : ∀ (X : R (Option Int)) (ns U : Nat), U < 2 ^ s.bits →
      (X >>= fun m => meetFin s.bits ns m U >>= fun r => pure [r]) = .ok l → ∀ r, r ∈ l → r.Aligned := by
    intro X ns U hU hh r hr
    obtain ⟨m, _, hh⟩ := bind_ok' hh
    obtain ⟨r0, hr0, hh⟩ := bind_ok' hh
    have := pure_ok' hh
    subst this
    rw [List.mem_singleton] at hr
    rw [hr]; exact meetFin_aligned _ _ _ _ _ hU hr0
  by_cases hsi : s.lb = s.ub
  · by_cases hbi : b.lb = b.ub
    · rw [multiMeet_int_int s b hsb hbb hbits hsi hbi] at h
      have hl : l = _ := (Except.ok.inj h).symm
      intro r hr; rw [hl, List.mem_singleton] at hr; rw [hr]; exact konst_aligned _ _ _
    · have hbs : b.stride ≠ 0 := fun h0 => hbi (hb.1.2.2.2.1 h0)
      rw [multiMeet_int_left s b hsb hbb hbits hsi hbi hbs] at h
      have hl : l = _ := (Except.ok.inj h).symm
      intro r hr; rw [hl, List.mem_singleton] at hr; rw [hr]; exact konst_aligned _ _ _
  · by_cases hbi : b.lb = b.ub
    · have hss : s.stride ≠ 0 := fun h0 => hsi (hs.1.2.2.2.1 h0)
      rw [multiMeet_int s b hsb hbb hbits hsi hss hbi] at h
      have hl : l = _ := (Except.ok.inj h).symm
      intro r hr; rw [hl, List.mem_singleton] at hr; rw [hr]; exact konst_aligned _ _ _
    · have h1 : s.isInteger = false := by simp [SI.isInteger, hsi]
      have h2 : b.isInteger = false := by simp [SI.isInteger, hbi]
      rw [multiMeet_general s b hsb hbb hbits h1 h2] at h
      split at h
      · exact single _ _ _ hsu h
      · split at h
        · exact single _ _ _ hbu h
        · split at h
          · obtain ⟨l0, _, h⟩ := bind_ok' h
            obtain ⟨l1, _, h⟩ := bind_ok' h
            obtain ⟨r0, hr0, h⟩ := bind_ok' h
            obtain ⟨r1, hr1, h⟩ := bind_ok' h
            have := pure_ok' h
            subst this
            intro r hr
            rcases List.mem_cons.1 hr with he | he
            · rw [he]; exact meetFin_aligned _ _ _ _ _ hbu hr0
            · rw [List.mem_singleton] at he
              rw [he]; exact meetFin_aligned _ _ _ _ _ hsu hr1
          · split at h
            · exact single _ _ _ hsu h
            · split at h
              · exact single _ _ _ hbu h
              · split at h
                · exact single _ _ _ hbu h
                · split at h
                  · exact single _ _ _ hsu h
                  · have := pure_ok' h
                    subst this
                    intro r hr
                    rw [List.mem_singleton] at hr
                    rw [hr]; exact empty_aligned _

/-- **`intersection` always returns an aligned interval** -/
theorem meet_aligned (w : Nat) (s b r : SI) (hs : WFw w s) (hb : WFw w b) (hsb : s.bottom = false)
    (hbb : b.bottom = false) (hsA : s.Aligned) (hbA : b.Aligned) (ns : Nrm s) (nb : Nrm b)
    (h : s.intersection b = .ok r) : r.Aligned := by
  unfold SI.intersection at h
  obtain ⟨l, hl, h⟩ := bind_ok' h
  have hal := multiMeet_aligned w s b hs hb hsb hbb l hl
  have hwf := (multiMeet_sound w s b hs hb hsb hbb hsA hbA ns nb l hl).1
  match l, hal, hwf, h with
  | [v], hal, _, h => rw [pure_ok' h]; exact hal v List.mem_cons_self
  | [v, u], hal, hwf, h =>
    rw [pure_ok' h]
    have wv := hwf v List.mem_cons_self
    have wu := hwf u (List.mem_cons_of_mem _ List.mem_cons_self)
    exact pseudoJoin_aligned v u true wv.1 wu.1 (by rw [wv.2, wu.2]) (hal v List.mem_cons_self)
      (hal u (List.mem_cons_of_mem _ List.mem_cons_self))
  | [], _, _, h => cases h
  | _ :: _ :: _ :: _, _, _, h => cases h

/-! ### mul -/

/-- **`mul` of aligned operands (constructor-normal form) is aligned** -/
theorem mul_aligned (w : Nat) (s o r : SI) (hs : WFw w s) (ho : WFw w o) (hsb : s.bottom = false) (hob : o.bottom = false)
    (hsA : s.Aligned) (hoA : o.Aligned) (ns : Nrm s) (no : Nrm o) (h : s.mul o = .ok r) : r.Aligned := by
  rw [mul_eq] at h
  by_cases hint : (s.isInteger && o.isInteger) = true
  · rw [if_pos hint] at h
    rw [pure_ok' h]; exact new_singleton_aligned _ _ _
  · rw [if_neg hint] at h
    obtain ⟨p1, hp1, h⟩ := bind_ok' h
    obtain ⟨p2, hp2, h⟩ := bind_ok' h
    obtain ⟨all, hall, h⟩ := bind_ok' h
    obtain ⟨u, hu, h⟩ := bind_ok' h
    have hr := pure_ok' h
    obtain ⟨q1, e1, pr1, _⟩ := psplit_spec s hs.1 hsb ns
    obtain ⟨q2, e2, pr2, _⟩ := psplit_spec o ho.1 hob no
    rw [hp1] at e1; cases e1
    rw [hp2] at e2; cases e2
    rw [hs.2] at pr1
    rw [ho.2] at pr2
    have al1 := psplit_aligned s hs.1 hsb ns hsA p1 hp1
    have al2 := psplit_aligned o ho.1 hob no hoA p2 hp2
    have ok1 : ∀ a, a ∈ p1 → PieceOK w a := fun a ha => by
      obtain ⟨c1, c2, c3, c4, _, _⟩ := pr1 a ha
      exact ⟨c1, c2, c3, c4, al1 a ha⟩
    have ok2 : ∀ b, b ∈ p2 → PieceOK w b := fun b hb => by
      obtain ⟨c1, c2, c3, c4, _, _⟩ := pr2 b hb
      exact ⟨c1, c2, c3, c4, al2 b hb⟩
    have hmem := mulOuter_mem p2 p1 [] all hall
    have hP : ∀ q, q ∈ all → WFw w q ∧ q.Aligned := by
      intro q hq
      rcases (hmem q).1 hq with h1 | ⟨a, b, lab, ha, hb, hl, hql⟩
      · cases h1
      · refine ⟨(mulPair_sound w a b (ok1 a ha) (ok2 b hb) lab hl).1 q hql, ?_⟩
        unfold mulPair at hl
        obtain ⟨sm, hsm, hl⟩ := bind_ok' hl
        have hma := mem_lb a (ok1 a ha).wf.1 (ok1 a ha).nb
        have hmb := mem_lb b (ok2 b hb).wf.1 (ok2 b hb).nb
        obtain ⟨u1, _, _, u4⟩ := umul_piece w a b a.lb b.lb (ok1 a ha) (ok2 b hb) hma hmb
        obtain ⟨s1, _, _, s4⟩ := smul_piece w a b sm a.lb b.lb (ok1 a ha) (ok2 b hb) hma hmb hsm
        exact multiMeet_aligned w _ sm u1 s1 u4.1 s4.1 lab hl q hql
    have m1 := (lub_sup w all u (fun q hq => (hP q hq).1) hu).1
    rw [hr]
    exact renorm_aligned u m1.1 (lub_aligned w all u hP hu)

/-! ### mod -/

theorem new_stride1_aligned (w : Nat) (l u : Int) : (SI.new w 1 l u).Aligned := by
  rcases new_stride_dvd w 1 l u with h | h
  · left; exact h
  · exact aligned_of_stride_one _ h

/-- **`__mod__` of aligned operands is aligned** -/
theorem mod_aligned (w : Nat) (s o r : SI) (hs : WFw w s) (ho : WFw w o) (hsb : s.bottom = false) (hob : o.bottom = false)
    (hsA : s.Aligned) (hoA : o.Aligned) (h : s.mod o = .ok r) : r.Aligned := by
  rw [mod_eq] at h
  by_cases c1 : (o.isInteger && o.lb == 0) = true
  · rw [if_pos c1] at h
    rw [pure_ok' h]; exact empty_aligned _
  · rw [if_neg c1] at h
    by_cases c2 : (s.isInteger && o.isInteger) = true
    · rw [if_pos c2] at h
      rw [pure_ok' h]; exact new_singleton_aligned _ _ _
    · rw [if_neg c2] at h
      obtain ⟨ss, hss, h⟩ := bind_ok' h
      obtain ⟨ts, hts, h⟩ := bind_ok' h
      obtain ⟨all, hall, h⟩ := bind_ok' h
      obtain ⟨u, hu, h⟩ := bind_ok' h
      have hr := pure_ok' h
      obtain ⟨q1, e1, pr1, _, _⟩ := ssplit_spec s hs.1 hsb
      obtain ⟨q2, e2, pr2, _, _⟩ := ssplit_spec o ho.1 hob
      rw [hss] at e1; cases e1
      rw [hts] at e2; cases e2
      rw [hs.2] at pr1 hall
      rw [ho.2] at pr2
      have al1 := ssplit_aligned s hs.1 hsA ss hss
      have al2 := ssplit_aligned o ho.1 hoA ts hts
      have nr2 := ssplit_nrm o ho.1 ts hts
      have hmem := pairOuter_mem (modPair w) ts ss [] all hall
      have hP : ∀ q, q ∈ all → WFw w q ∧ q.Aligned := by
        intro q hq
        rcases (hmem q).1 hq with h1 | ⟨p, t, l, hp, ht, hl, hql⟩
        · cases h1
        · obtain ⟨a1, a2, a3, _⟩ := pr1 p hp
          obtain ⟨b1, b2, b3, _⟩ := pr2 t ht
          refine ⟨(modPair_sound w p t a1 b1 a2 b2 a3 b3 (al2 t ht) (nr2 t ht) l hl).1 q hql, ?_⟩
          unfold modPair at hl
          obtain ⟨qq, hqq, hl⟩ := bind_ok' hl
          obtain ⟨card, hc, hl⟩ := bind_ok' hl
          obtain ⟨qw, qn, qal, qm⟩ := udivPiece_spec w p t qq a1 b1 a2 b2 a3 b3 hqq
          by_cases hc1 : card = 1
          · rw [if_pos hc1] at hl
            obtain ⟨m, hm, hl⟩ := bind_ok' hl
            have hl' := pure_ok' hl
            subst hl'
            rw [List.mem_singleton] at hql
            rw [hc1] at hc
            obtain ⟨k, hk, _⟩ := single_member qq qw.1 hc
            have qb : qq.bottom = false := hk.1
            obtain ⟨mw, mm⟩ := mul_sound w qq t m qw b1 qb b2 (qal qb) (al2 t ht) qn (nr2 t ht) hm
            have hmb : m.bottom = false := (mm k t.lb hk (mem_lb t b1.1 b2)).1
            rw [hql]
            exact sub_aligned p m a1.1 mw.1 (by rw [a1.2, mw.2]) a2 hmb (al1 p hp)
          · rw [if_neg hc1] at hl
            have hl' := pure_ok' hl
            subst hl'
            rw [List.mem_singleton] at hql
            rw [hql]; exact new_stride1_aligned _ _ _
      have m1 := (lub_sup w all u (fun q hq => (hP q hq).1) hu).1
      rw [hr]
      exact renorm_aligned u m1.1 (lub_aligned w all u hP hu)

end Claripy.VSA
