import ClaripyProofs.Lemmas.VSA.Cmp
import Claripy.VSA.Conc
/-! `_nsplit` (split at the north pole), `_signed_bounds`, and the signed orderings `SLT`, `SLE`, `SGT`, `SGE`. -/
namespace Claripy.VSA

theorem two_pow_half (w : Nat) (hw : 0 < w) : 2 ^ w = 2 * 2 ^ (w - 1) := by
  have h : w = (w - 1) + 1 := by omega
  conv => lhs; rw [h, Nat.pow_succ]
  exact Nat.mul_comm _ _

/-- signed value in terms of the half-range `H = 2^(w-1)` -/
def ti (H v : Nat) : Int := if v < H then (v : Int) else (v : Int) - ((2 * H : Nat) : Int)

theorem toInt_ti (w v : Nat) (hw : 0 < w) : Conc.toInt w v = ti (2 ^ (w - 1)) v := by
  unfold Conc.toInt ti
  rw [← two_pow_half w hw]

theorem toSigned_nat (v w : Nat) (hw : 0 < w) (hv : v < 2 ^ w) : toSigned (v : Int) w = Conc.toInt w v := by
  have hm := two_pow_half w hw
  have hH := two_pow_pos' (w - 1)
  unfold toSigned isMsbZero Conc.toInt
  rw [imod_of_lt v w hv]
  by_cases h : v < 2 ^ (w - 1)
  · rw [Nat.div_eq_of_lt h]; simp [h]
  · have h1 : v / 2 ^ (w - 1) = 1 := Nat.div_eq_of_lt_le (by omega) (by omega)
    rw [h1]
    simp only [h, if_false]
    simp
    omega

theorem signed_arc_nostraddle (H lb ub x : Nat) (hH : 0 < H) (hl : lb < 2 * H) (hu : ub < 2 * H) (hx : x < 2 * H)
    (hns : ¬ (if ub ≥ H then (lb > ub ∨ lb ≤ H - 1) else (lb > ub ∧ lb ≤ H - 1)))
    (hd : cd (2 * H) lb x ≤ cd (2 * H) lb ub) :
    ti H lb ≤ ti H x ∧ ti H x ≤ ti H ub := by
  unfold cd at hd
  unfold ti
  split_ifs at hns hd ⊢ <;> omega

theorem signed_arc_A (H lb x K ak : Nat) (hH : 0 < H) (hl : lb < 2 * H) (hx : x < 2 * H) (hak : ak < 2 * H)
    (hake : ak = lb + K ∨ ak + 2 * H = lb + K)
    (hK : K ≤ cd (2 * H) lb (H - 1)) (hd : cd (2 * H) lb x ≤ K) :
    ti H lb ≤ ti H x ∧ ti H x ≤ ti H ak := by
  unfold cd at hd hK
  unfold ti
  split_ifs at hd hK ⊢ <;> omega

theorem signed_arc_B (H lb ub x K' bl : Nat) (hH : 0 < H) (hl : lb < 2 * H) (hu : ub < 2 * H) (hx : x < 2 * H) (hbl : bl < 2 * H)
    (hble : bl = lb + K' ∨ bl + 2 * H = lb + K')
    (hK : cd (2 * H) lb (H - 1) < K') (hd1 : K' ≤ cd (2 * H) lb x) (hd2 : cd (2 * H) lb x ≤ cd (2 * H) lb ub) :
    ti H bl ≤ ti H x ∧ ti H x ≤ ti H ub := by
  unfold cd at hK hd1 hd2
  unfold ti
  split_ifs at hK hd1 hd2 ⊢ <;> omega

theorem emod_eq_imod (x : Int) (w : Nat) : x % ((2 ^ w : Nat) : Int) = ((imod x w : Nat) : Int) := by
  unfold imod
  rw [Int.toNat_of_nonneg]
  apply Int.emod_nonneg
  have := two_pow_pos' w
  omega

theorem imod_shift (x j : Int) (n w : Nat) (h : x = (n : Int) + j * ((2 ^ w : Nat) : Int)) : imod x w = n % 2 ^ w := by
  subst h
  unfold imod
  rw [Int.add_mul_emod_self_right, ← Int.natCast_emod, Int.toNat_natCast]

theorem new_congr (b s : Nat) (l u l' u' : Int) (h1 : imod l b = imod l' b) (h2 : imod u b = imod u' b) :
    SI.new b s l u = SI.new b s l' u' := by
  rw [new_eq, new_eq, h1, h2]

/-- the result of `_nsplit` on an interval that straddles the north pole, in natural-number form -/
theorem nsplit_straddle (s : SI) (hw : s.WF) (hsne : s.stride ≠ 0)
    (hstr : (if s.ub ≥ 2 ^ (s.bits - 1) then (decide (s.lb > s.ub) || decide (s.lb ≤ maxInt (s.bits - 1)))
          else (decide (s.lb > s.ub) && decide (s.lb ≤ maxInt (s.bits - 1)))) = true) :
    let m := 2 ^ s.bits
    let D := cd m s.lb (2 ^ (s.bits - 1) - 1)
    let K := D - D % s.stride
    s.nsplit = .ok (if K + s.stride > cd m s.lb s.ub
      then [SI.new s.bits s.stride (s.lb : Int) (((s.lb + K) % m : Nat) : Int)]
      else [SI.new s.bits s.stride (s.lb : Int) (((s.lb + K) % m : Nat) : Int),
            SI.new s.bits s.stride (((s.lb + K + s.stride) % m : Nat) : Int) (s.ub : Int)]) := by
  intro m D K
  obtain ⟨h0, hl, hu, hst⟩ := hw
  have hm2 := two_pow_half s.bits h0
  have hH := two_pow_pos' (s.bits - 1)
  have hnpl : 2 ^ (s.bits - 1) - 1 < 2 ^ s.bits := by omega
  have hDlt : D < m := cd_lt _ _ _ hl hnpl
  have hKle : K ≤ D := Nat.sub_le _ _
  have hrle : D % s.stride ≤ D := Nat.mod_le _ _
  unfold SI.nsplit
  simp only []
  rw [if_pos hstr, if_neg hsne]
  have hD : (((maxInt (s.bits - 1) : Nat) : Int) - (s.lb : Int)) % ((2 ^ s.bits : Nat) : Int) = ((D : Nat) : Int) := by
    rw [emod_eq_imod]
    unfold maxInt
    rw [imod_sub _ _ _ hnpl hl]
  have hau : ((maxInt (s.bits - 1) : Nat) : Int) -
      ((((maxInt (s.bits - 1) : Nat) : Int) - (s.lb : Int)) % ((2 ^ s.bits : Nat) : Int)) % (s.stride : Int) =
      ((2 ^ (s.bits - 1) - 1 : Nat) : Int) - ((D % s.stride : Nat) : Int) := by
    rw [hD, ← Int.natCast_emod]; rfl
  simp only [hau]
  -- the two shapes of D
  have hDcase : (s.lb ≤ 2 ^ (s.bits - 1) - 1 ∧ D = 2 ^ (s.bits - 1) - 1 - s.lb) ∨
      (2 ^ (s.bits - 1) - 1 < s.lb ∧ D = 2 ^ (s.bits - 1) - 1 + 2 ^ s.bits - s.lb) := by
    show (_ ∧ cd _ _ _ = _) ∨ (_ ∧ cd _ _ _ = _)
    unfold cd; split_ifs <;> omega
  have e1 : imod (((2 ^ (s.bits - 1) - 1 : Nat) : Int) - ((D % s.stride : Nat) : Int)) s.bits = (s.lb + K) % m := by
    rcases hDcase with ⟨h1, h2⟩ | ⟨h1, h2⟩
    · apply imod_shift _ 0; show _ = ((s.lb + (D - D % s.stride) : Nat) : Int) + _; omega
    · apply imod_shift _ (-1); show _ = ((s.lb + (D - D % s.stride) : Nat) : Int) + _; omega
  have e2 : modSub (((2 ^ (s.bits - 1) - 1 : Nat) : Int) - ((D % s.stride : Nat) : Int)) (s.lb : Int) s.bits = K := by
    have : K % 2 ^ s.bits = K := Nat.mod_eq_of_lt (by omega)
    rw [← this]
    unfold modSub
    rcases hDcase with ⟨h1, h2⟩ | ⟨h1, h2⟩
    · apply imod_shift _ 0; show _ = ((D - D % s.stride : Nat) : Int) + _; omega
    · apply imod_shift _ (-1); show _ = ((D - D % s.stride : Nat) : Int) + _; omega
  have e3 : imod (((2 ^ (s.bits - 1) - 1 : Nat) : Int) - ((D % s.stride : Nat) : Int) + (s.stride : Int)) s.bits =
      (s.lb + K + s.stride) % m := by
    rcases hDcase with ⟨h1, h2⟩ | ⟨h1, h2⟩
    · apply imod_shift _ 0; show _ = ((s.lb + (D - D % s.stride) + s.stride : Nat) : Int) + _; omega
    · apply imod_shift _ (-1); show _ = ((s.lb + (D - D % s.stride) + s.stride : Nat) : Int) + _; omega
  rw [e2, modSub_nat _ _ _ hu hl]
  have cA : SI.new s.bits s.stride (s.lb : Int) (((2 ^ (s.bits - 1) - 1 : Nat) : Int) - ((D % s.stride : Nat) : Int)) =
      SI.new s.bits s.stride (s.lb : Int) (((s.lb + K) % m : Nat) : Int) :=
    new_congr _ _ _ _ _ _ rfl (by rw [e1, imod_nat]; exact (Nat.mod_mod _ _).symm)
  have cB : SI.new s.bits s.stride (((2 ^ (s.bits - 1) - 1 : Nat) : Int) - ((D % s.stride : Nat) : Int) + (s.stride : Int)) (s.ub : Int) =
      SI.new s.bits s.stride (((s.lb + K + s.stride) % m : Nat) : Int) (s.ub : Int) :=
    new_congr _ _ _ _ _ _ (by rw [e3, imod_nat]; exact (Nat.mod_mod _ _).symm) rfl
  rw [cA, cB]
  split_ifs <;> rfl

/-- the constructor keeps the bounds unless it rewrites a full circle to `[0, 2^b - 1]` -/
theorem new_bounds (b s l u : Nat) (hl : l < 2 ^ b) (hu : u < 2 ^ b) (hnt : ¬ (l = (u + 1) % 2 ^ b ∧ s = 1)) :
    (SI.new b s (l : Int) (u : Int)).lb = l ∧ (SI.new b s (l : Int) (u : Int)).ub = u := by
  rw [new_eq, imod_of_lt _ _ hl, imod_of_lt _ _ hu]
  split
  · exact ⟨rfl, rfl⟩
  · first | exact ⟨rfl, rfl⟩ | (rw [if_neg hnt]; exact ⟨rfl, rfl⟩)

theorem mod_two_cases (v m : Nat) (hm : 0 < m) (h : v < 2 * m) : v % m < m ∧ (v % m = v ∨ v % m + m = v) := by
  refine ⟨Nat.mod_lt _ hm, ?_⟩
  by_cases h1 : v < m
  · left; exact Nat.mod_eq_of_lt h1
  · right
    have : v = (v - m) + m := by omega
    rw [this, Nat.add_mod_right, Nat.mod_eq_of_lt (by omega)]

/-- **the signed bounds enclose the signed value of every member** (for an interval in constructor-normal form) -/
theorem signedBounds_spec (s : SI) (hw : s.WF) (hnb : s.bottom = false) (hn : s.renorm = s) :
    ∃ bs, s.signedBounds = .ok bs ∧
      ∀ x, s.mem x → ∃ p, p ∈ bs ∧ p.1 ≤ Conc.toInt s.bits x ∧ Conc.toInt s.bits x ≤ p.2 := by
  have hwf := hw
  obtain ⟨h0, hl, hu, hst⟩ := hw
  have hm2 := two_pow_half s.bits h0
  have hH := two_pow_pos' (s.bits - 1)
  have hm := two_pow_pos' s.bits
  by_cases hstr : (if s.ub ≥ 2 ^ (s.bits - 1) then (decide (s.lb > s.ub) || decide (s.lb ≤ maxInt (s.bits - 1)))
          else (decide (s.lb > s.ub) && decide (s.lb ≤ maxInt (s.bits - 1)))) = true
  · have hstrP : (if s.ub ≥ 2 ^ (s.bits - 1) then (s.lb > s.ub ∨ s.lb ≤ 2 ^ (s.bits - 1) - 1)
        else (s.lb > s.ub ∧ s.lb ≤ 2 ^ (s.bits - 1) - 1)) := by
      unfold maxInt at hstr
      split_ifs at hstr ⊢ <;> simpa using hstr
    have hsne : s.stride ≠ 0 := by
      intro h
      have := hst.1 h
      split_ifs at hstrP <;> omega
    have hns := nsplit_straddle s hwf hsne hstr
    simp only [] at hns
    generalize hDg : cd (2 ^ s.bits) s.lb (2 ^ (s.bits - 1) - 1) = D at hns
    generalize hKg : D - D % s.stride = K at hns
    generalize hSg : cd (2 ^ s.bits) s.lb s.ub = span at hns
    have hspanlt : span < 2 ^ s.bits := by rw [← hSg]; exact cd_lt _ _ _ hl hu
    have hDS : D < span := by
      rw [← hDg, ← hSg]
      unfold cd
      split_ifs at hstrP ⊢ <;> omega
    have hK1 : s.stride ∣ K := by rw [← hKg]; exact Nat.dvd_sub_mod _
    have hK2 : D < K + s.stride := by
      have := Nat.mod_lt D (Nat.pos_of_ne_zero hsne)
      have := Nat.mod_le D s.stride
      omega
    have hK3 : K ≤ D := by rw [← hKg]; exact Nat.sub_le _ _
    obtain ⟨hak1, hak2⟩ := mod_two_cases (s.lb + K) (2 ^ s.bits) hm (by omega)
    generalize hakg : (s.lb + K) % 2 ^ s.bits = ak at hns hak1 hak2
    have hAb := new_bounds s.bits s.stride s.lb ak hl hak1 (by
      rintro ⟨h1, _⟩
      rw [succ_mod_cases _ _ hak1] at h1
      split_ifs at h1 <;> omega)
    -- membership of a point at distance ≤ K from the lower bound
    have hA : ∀ x, s.mem x → cd (2 ^ s.bits) s.lb x ≤ K →
        toSigned (((SI.new s.bits s.stride (s.lb : Int) (ak : Int)).lb : Nat) : Int) s.bits ≤ Conc.toInt s.bits x ∧
        Conc.toInt s.bits x ≤ toSigned (((SI.new s.bits s.stride (s.lb : Int) (ak : Int)).ub : Nat) : Int) s.bits := by
      intro x hx hd
      have hxl : x < 2 ^ s.bits := hx.2.1
      rw [hAb.1, hAb.2, toSigned_nat _ _ h0 hl, toSigned_nat _ _ h0 hak1, toInt_ti _ _ h0, toInt_ti _ _ h0, toInt_ti _ _ h0]
      rw [hm2] at hl hxl hak1 hak2 hd
      rw [← hDg, hm2] at hK3
      exact signed_arc_A _ _ _ K _ hH hl hxl hak1 (by omega) hK3 hd
    by_cases hbr : K + s.stride > span
    · rw [if_pos hbr] at hns
      refine ⟨_, by unfold SI.signedBounds; rw [hns]; rfl, ?_⟩
      intro x hx
      obtain ⟨_, hxl, hx1, hx2⟩ := mem_facts s x hwf hx
      rw [hSg] at hx1
      have hd : cd (2 ^ s.bits) s.lb x ≤ K := by
        by_cases hle : cd (2 ^ s.bits) s.lb x ≤ K
        · exact hle
        · have := dvd_gap _ _ _ hK1 hx2 (by omega)
          omega
      exact ⟨_, List.mem_cons_self, hA x hx hd⟩
    · rw [if_neg hbr] at hns
      obtain ⟨hbl1, hbl2⟩ := mod_two_cases (s.lb + K + s.stride) (2 ^ s.bits) hm (by omega)
      generalize hblg : (s.lb + K + s.stride) % 2 ^ s.bits = bl at hns hbl1 hbl2
      have hBb := new_bounds s.bits s.stride bl s.ub hbl1 hu (by
        rintro ⟨h1, _⟩
        rw [succ_mod_cases _ _ hu] at h1
        rw [← hSg] at hbr hspanlt
        unfold cd at hbr hspanlt
        split_ifs at h1 hbr hspanlt <;> omega)
      refine ⟨_, by unfold SI.signedBounds; rw [hns]; rfl, ?_⟩
      intro x hx
      obtain ⟨_, hxl, hx1, hx2⟩ := mem_facts s x hwf hx
      by_cases hle : cd (2 ^ s.bits) s.lb x ≤ K
      · exact ⟨_, List.mem_cons_self, hA x hx hle⟩
      · have hgap := dvd_gap _ _ _ hK1 hx2 (by omega)
        refine ⟨_, List.mem_cons_of_mem _ List.mem_cons_self, ?_⟩
        show toSigned (((SI.new s.bits s.stride (bl : Int) (s.ub : Int)).lb : Nat) : Int) s.bits ≤ _ ∧
          _ ≤ toSigned (((SI.new s.bits s.stride (bl : Int) (s.ub : Int)).ub : Nat) : Int) s.bits
        rw [hBb.1, hBb.2, toSigned_nat _ _ h0 hbl1, toSigned_nat _ _ h0 hu, toInt_ti _ _ h0, toInt_ti _ _ h0, toInt_ti _ _ h0]
        rw [hm2] at hl hu hxl hbl1 hbl2 hgap hx1
        rw [← hDg, hm2] at hK2
        exact signed_arc_B _ _ _ _ (K + s.stride) _ hH hl hu hxl hbl1 (by omega) hK2 hgap hx1
  · have hnsP : ¬ (if s.ub ≥ 2 ^ (s.bits - 1) then (s.lb > s.ub ∨ s.lb ≤ 2 ^ (s.bits - 1) - 1)
        else (s.lb > s.ub ∧ s.lb ≤ 2 ^ (s.bits - 1) - 1)) := by
      unfold maxInt at hstr
      intro hP
      apply hstr
      split_ifs at hP ⊢ <;> simpa using hP
    have hns : s.nsplit = .ok [s] := by
      unfold SI.nsplit
      simp only []
      rw [if_neg hstr, hn]; rfl
    refine ⟨_, by unfold SI.signedBounds; rw [hns]; rfl, ?_⟩
    intro x hx
    obtain ⟨_, hxl, hx1, _⟩ := mem_facts s x hwf hx
    refine ⟨_, List.mem_cons_self, ?_⟩
    show toSigned ((s.lb : Nat) : Int) s.bits ≤ _ ∧ _ ≤ toSigned ((s.ub : Nat) : Int) s.bits
    rw [toSigned_nat _ _ h0 hl, toSigned_nat _ _ h0 hu, toInt_ti _ _ h0, toInt_ti _ _ h0, toInt_ti _ _ h0]
    rw [hm2] at hl hu hxl hx1
    exact signed_arc_nostraddle _ _ _ _ hH hl hu hxl hnsP hx1

/-- **`SLT`, `SLE`, `SGT`, `SGE` are sound** (all widths; operands as the constructor returns them) -/
theorem scmp_sound (op : CmpOp) (hop : op = .slt ∨ op = .sle ∨ op = .sgt ∨ op = .sge) (a b : AV) (br : BoolRes)
    (ha : a.si.WF) (hb : b.si.WF) (hbits : a.si.bits = b.si.bits) (hna : a.si.renorm = a.si) (hnb : b.si.renorm = b.si)
    (h : applyCmp op a b = .ok br) (x y : Nat) (hx : a.si.mem x) (hy : b.si.mem y) :
    br.has (concCmp op a.si.bits x y) = true := by
  obtain ⟨ba, hba, hca⟩ := signedBounds_spec a.si ha hx.1 hna
  obtain ⟨bb, hbb, hcb⟩ := signedBounds_spec b.si hb hy.1 hnb
  obtain ⟨p, hp, hp1, hp2⟩ := hca x hx
  obtain ⟨q, hq, hq1, hq2⟩ := hcb y hy
  rw [← hbits] at hq1 hq2
  rcases hop with h1 | h1 | h1 | h1 <;> subst h1
  · simp only [applyCmp, SI.SLT, hba, hbb] at h
    have : br = cmpWith ba bb ltT ltF := by cases h; rfl
    subst this
    apply cmpWith_sound ba bb ltT ltF p q hp hq
    · intro ht; simp only [ltT, decide_eq_true_eq] at ht; simp only [concCmp, decide_eq_true_eq]; omega
    · intro hf; simp only [ltF, ge_iff_le, decide_eq_true_eq] at hf; simp only [concCmp, decide_eq_false_iff_not]; omega
  · simp only [applyCmp, SI.SLE, hba, hbb] at h
    have : br = cmpWith ba bb leT leF := by cases h; rfl
    subst this
    apply cmpWith_sound ba bb leT leF p q hp hq
    · intro ht; simp only [leT, decide_eq_true_eq] at ht; simp only [concCmp, decide_eq_true_eq]; omega
    · intro hf; simp only [leF, gt_iff_lt, decide_eq_true_eq] at hf; simp only [concCmp, decide_eq_false_iff_not]; omega
  · simp only [applyCmp, SI.SGT, hba, hbb] at h
    have : br = cmpWith ba bb gtT gtF := by cases h; rfl
    subst this
    apply cmpWith_sound ba bb gtT gtF p q hp hq
    · intro ht; simp only [gtT, gt_iff_lt, decide_eq_true_eq] at ht; simp only [concCmp, gt_iff_lt, decide_eq_true_eq]; omega
    · intro hf; simp only [gtF, decide_eq_true_eq] at hf; simp only [concCmp, gt_iff_lt, decide_eq_false_iff_not]; omega
  · simp only [applyCmp, SI.SGE, hba, hbb] at h
    have : br = cmpWith ba bb geT geF := by cases h; rfl
    subst this
    apply cmpWith_sound ba bb geT geF p q hp hq
    · intro ht; simp only [geT, ge_iff_le, decide_eq_true_eq] at ht; simp only [concCmp, ge_iff_le, decide_eq_true_eq]; omega
    · intro hf; simp only [geF, decide_eq_true_eq] at hf; simp only [concCmp, ge_iff_le, decide_eq_false_iff_not]; omega

/-- what the constructor returns is in constructor-normal form -/
theorem new_renorm (b s : Nat) (l u : Int) (hb : 0 < b) : (SI.new b s l u).renorm = SI.new b s l u := by
  unfold SI.renorm
  rw [new_bottom]
  simp only [Bool.false_eq_true, if_false, new_bits]
  have hl := imod_lt l b
  have hu := imod_lt u b
  have hm := two_pow_pos' b
  have h2 : 2 ≤ 2 ^ b := by
    have : 2 ^ 1 ≤ 2 ^ b := Nat.pow_le_pow_right (by omega) hb
    simpa using this
  rw [new_eq b s l u]
  generalize imod l b = l' at hl
  generalize imod u b = u' at hu
  by_cases h1 : l' = u'
  · rw [if_pos h1]
    subst h1
    rw [new_eq]; simp [imod_of_lt _ _ hl]
  · rw [if_neg h1]
    by_cases h3 : l' = (u' + 1) % 2 ^ b ∧ s = 1
    · rw [if_pos h3]
      simp only []
      rw [new_eq, imod_of_lt 0 b hm, imod_of_lt _ _ (by omega : 2 ^ b - 1 < 2 ^ b)]
      have e : (2 ^ b - 1 + 1) % 2 ^ b = 0 := by
        have : 2 ^ b - 1 + 1 = 2 ^ b := by omega
        rw [this, Nat.mod_self]
      rw [if_neg (by omega), e]
      simp [h3.2]
    · rw [if_neg h3]
      simp only []
      rw [new_eq, imod_of_lt _ _ hl, imod_of_lt _ _ hu, if_neg h1, if_neg h3]

end Claripy.VSA
