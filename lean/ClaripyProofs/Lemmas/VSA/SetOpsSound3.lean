import ClaripyProofs.Lemmas.VSA.SetOpsSound2
/-! `union` and `intersection` of `DiscreteStridedIntervalSet`s (with an interval, with a set). -/
namespace Claripy.VSA

/-- the result of a lifted operation inherits a property `P` of the per-member results that `collapse()` keeps -/
theorem finishSet_P (wr : Nat) (P : SI → Prop) (results : List SI) (order : List Nat) (v : Val)
    (hcol : ∀ (d : DSIS) (r : SI), d.bits = wr → (∀ s, s ∈ results → s ∈ d.sis) → (∀ s, s ∈ d.sis → P s) →
      d.collapse = .ok r → P r)
    (hbits : ∀ s, s ∈ results → s.bits = wr)
    (hP : ∀ s, s ∈ results → P s) (h : finishSet wr results order = .ok v) : Vok wr P v := by
  unfold finishSet at h
  cases hp : permute (dedupe results) order with
  | none => rw [hp] at h; cases h
  | some l =>
    rw [hp] at h
    have hsub : ∀ s, s ∈ results → s ∈ l := fun s hs => permute_mem _ _ _ hp s (dedupe_mem _ s hs)
    have hsup : ∀ s, s ∈ l → s ∈ results := by
      intro s hs
      unfold permute at hp
      split at hp
      · cases hp
      · have hl : l = order.filterMap fun i => (dedupe results)[i]? := by cases hp; rfl
        subst hl
        obtain ⟨i, _, hi⟩ := List.mem_filterMap.1 hs
        exact dedupe_subset _ s (List.mem_of_getElem? hi)
    have hPl : ∀ s, s ∈ l → P s := fun s hs => hP s (hsup s hs)
    have hb : setBits wr l = wr := by
      cases l with
      | nil => rfl
      | cons q qs => exact hbits q (hsup q List.mem_cons_self)
    simp only [] at h
    generalize hd : ({ bits := setBits wr l, sis := l } : DSIS) = d at h
    have hdb : d.bits = wr := by rw [← hd]; exact hb
    have hds : d.sis = l := by rw [← hd]
    unfold DSIS.normalize at h
    cases hc : d.cardinality with
    | error e => rw [hc] at h; cases h
    | ok c =>
      rw [hc] at h
      simp only [] at h
      by_cases hbig : c > maxCardinality
      · rw [if_pos hbig] at h
        cases hcoll : d.collapse with
        | error e => rw [hcoll] at h; cases h
        | ok r =>
          rw [hcoll] at h
          have hv : v = Val.si r := by injection h with h3; exact h3.symm
          subst hv
          exact hcol d r hdb (by rw [hds]; exact hsub) (by rw [hds]; exact hPl) hcoll
      · rw [if_neg hbig] at h
        split at h
        · rename_i s hs
          have hv : v = Val.si s := by injection h with h3; exact h3.symm
          subst hv
          exact hPl s (by rw [← hds, hs]; exact List.mem_cons_self)
        · have hv : v = Val.ds d := by injection h with h3; exact h3.symm
          subst hv
          exact ⟨hdb, by rw [hds]; exact hPl⟩

theorem pseudoJoin_nb (a b : SI) (smart : Bool) (h : a.bottom = false ∨ b.bottom = false) :
    (pseudoJoin a b smart).bottom = false := by
  unfold pseudoJoin
  by_cases ha : a.bottom = true
  · rw [if_pos ha]
    rcases h with h | h
    · rw [h] at ha; cases ha
    · exact h
  · rw [if_neg ha]
    by_cases hb : b.bottom = true
    · rw [if_pos hb]; simpa using ha
    · rw [if_neg hb]
      repeat' split
      all_goals first | exact new_bottom _ _ _ _ | (simp only []; split <;> exact new_bottom _ _ _ _)

/-- `collapse()` of a non-empty set of non-empty intervals is a non-empty interval -/
theorem collapse_NE (w : Nat) (d : DSIS) (r : SI) (hne : ∃ s, s ∈ d.sis) (hP : ∀ s, s ∈ d.sis → NE w s)
    (h : d.collapse = .ok r) : NE w r := by
  obtain ⟨s0, hs0⟩ := hne
  have hw : 0 < w := by rw [← (hP s0 hs0).bits]; exact (hP s0 hs0).wf.1
  have hm : r.mem s0.lb := collapse_sound (WFw w) (joinOK w) d r (fun s hs => ⟨(hP s hs).wf, (hP s hs).bits⟩) h s0.lb
    ⟨s0, hs0, mem_lb s0 (hP s0 hs0).wf (hP s0 hs0).nb⟩
  -- width and well-formedness: by the closure of the join, whatever `d.bits` is
  have hwf : WFw w r := by
    unfold DSIS.collapse at h
    cases hc : d.cardinality with
    | error e => rw [hc] at h; cases h
    | ok c =>
      rw [hc] at h
      simp only [] at h
      by_cases hc0 : c = 0
      · subst hc0
        exact absurd ⟨s0, hs0, mem_lb s0 (hP s0 hs0).wf (hP s0 hs0).nb⟩ (dsis_card_zero d hc s0.lb)
      · rw [if_neg hc0] at h
        cases hsis : d.sis with
        | nil => rw [hsis] at hs0; cases hs0
        | cons y ys =>
          rw [hsis] at h
          simp only [] at h
          have hr : r = ys.foldl (fun r s => pseudoJoin r s true) y := by injection h with h3; exact h3.symm
          subst hr
          have hy : WFw w y := ⟨(hP y (by rw [hsis]; exact List.mem_cons_self)).wf, (hP y (by rw [hsis]; exact List.mem_cons_self)).bits⟩
          exact (foldl_join_sup (fun r s => pseudoJoin r s true) (WFw w) (joinOK w) ys y hy
            (fun s hs => ⟨(hP s (by rw [hsis]; exact List.mem_cons_of_mem _ hs)).wf,
              (hP s (by rw [hsis]; exact List.mem_cons_of_mem _ hs)).bits⟩)).1
  exact ⟨hwf.1, hwf.2, hm.1⟩

theorem finishSet_NE (w : Nat) (results : List SI) (order : List Nat) (v : Val) (hne : ∃ s, s ∈ results)
    (hP : ∀ s, s ∈ results → NE w s) (h : finishSet w results order = .ok v) : Vok w (NE w) v :=
  finishSet_P w (NE w) results order v
    (fun d r _ hsub hd hc => collapse_NE w d r (by obtain ⟨s, hs⟩ := hne; exact ⟨s, hsub s hs⟩) hd hc)
    (fun s hs => (hP s hs).bits) hP h

theorem Vok_mono (w : Nat) (P Q : SI → Prop) (hPQ : ∀ s, P s → Q s) (v : Val) (h : Vok w P v) : Vok w Q v := by
  cases v with
  | si s => exact hPQ s h
  | ds d => exact ⟨h.1, fun t ht => hPQ t (h.2 t ht)⟩

theorem NE_WFw {w : Nat} {s : SI} (h : NE w s) : WFw w s := ⟨h.wf, h.bits⟩

/-! ### union -/

theorem eq_true (a b : SI) (h : a.eq b = .ok .t) : a.lb = a.ub ∧ b.lb = b.ub ∧ a.lb = b.lb := by
  unfold SI.eq at h
  by_cases hint : (a.isInteger && b.isInteger) = true
  · rw [if_pos hint] at h
    have hi : a.lb = a.ub ∧ b.lb = b.ub := by simpa [SI.isInteger] using hint
    have := pure_ok' h
    by_cases hl : a.lb = b.lb
    · exact ⟨hi.1, hi.2, hl⟩
    · rw [if_neg hl] at this; cases this
  · rw [if_neg hint] at h
    obtain ⟨m, _, h⟩ := bind_ok' h
    have := pure_ok' h
    split at this <;> cases this

theorem unionFind_true (s : SI) : ∀ l : List SI, unionFind s l = .ok true → ∃ m, m ∈ l ∧ m.eq s = .ok .t
  | [], h => by unfold unionFind at h; cases h
  | m :: ms, h => by
    unfold unionFind at h
    obtain ⟨r, hr, h⟩ := bind_ok' h
    by_cases ht : r = .t
    · subst ht; exact ⟨m, List.mem_cons_self, hr⟩
    · rw [if_neg ht] at h
      obtain ⟨m', hm', he⟩ := unionFind_true s ms h
      exact ⟨m', List.mem_cons_of_mem _ hm', he⟩

/-- **`set.union(interval)`** contains the members of both (non-empty members; an empty operand is ignored) -/
theorem dsis_unionSI (w : Nat) (d : DSIS) (s : SI) (order : List Nat) (v : Val) (hdb : d.bits = w)
    (hd : ∀ m, m ∈ d.sis → NE w m) (hs : WFw w s) (h : d.unionSI s order = .ok v) :
    Vok w (NE w) v ∧ ∀ x, (d.mem x ∨ s.mem x) → v.mem x := by
  unfold DSIS.unionSI at h
  by_cases hsb : s.bottom = true
  · rw [if_pos hsb] at h
    have hv := pure_ok' h
    subst hv
    refine ⟨⟨hdb, hd⟩, ?_⟩
    rintro x (hx | hx)
    · exact hx
    · have := hx.1; rw [hsb] at this; cases this
  · rw [if_neg hsb] at h
    have hsN : NE w s := ⟨hs.1, hs.2, by simpa using hsb⟩
    obtain ⟨found, hf, h⟩ := bind_ok' h
    cases found with
    | true =>
      simp only [if_true] at h
      have hv := pure_ok' h
      subst hv
      refine ⟨⟨hdb, hd⟩, ?_⟩
      rintro x (hx | hx)
      · exact hx
      · obtain ⟨m, hm, he⟩ := unionFind_true s d.sis hf
        obtain ⟨e1, e2, e3⟩ := eq_true m s he
        have : x = s.lb := mem_integer s x hs.1 e2 hx
        refine ⟨m, hm, ?_⟩
        rw [this, ← e3]
        exact mem_lb m (hd m hm).wf (hd m hm).nb
    | false =>
      simp only [Bool.false_eq_true, if_false] at h
      rw [hdb] at h
      have hP : ∀ t, t ∈ d.sis ++ [s] → NE w t := by
        intro t ht
        rcases List.mem_append.1 ht with h1 | h1
        · exact hd t h1
        · rw [List.mem_singleton] at h1; rw [h1]; exact hsN
      refine ⟨finishSet_NE w _ order v ⟨s, by simp⟩ hP h, ?_⟩
      intro x hx
      apply finishSet_sound (WFw w) (joinOK w) w _ order v (fun t ht => NE_WFw (hP t ht)) h x
      rcases hx with ⟨m, hm, hmx⟩ | hx
      · exact ⟨m, List.mem_append.2 (Or.inl hm), hmx⟩
      · exact ⟨s, by simp, hx⟩

theorem val_unionSI (w : Nat) (v : Val) (s : SI) (order : List Nat) (v' : Val) (hv : Vok w (NE w) v) (hs : WFw w s)
    (h : v.unionSI s order = .ok v') : Vok w (NE w) v' ∧ ∀ x, (v.mem x ∨ s.mem x) → v'.mem x := by
  cases v with
  | ds d => exact dsis_unionSI w d s order v' hv.1 hv.2 hs h
  | si t =>
    unfold Val.unionSI at h
    obtain ⟨u, hu, h⟩ := bind_ok' h
    have hv' := pure_ok' h
    subst hv'
    have ht : NE w t := hv
    obtain ⟨g1, g2⟩ := union_sup w t s u (NE_WFw ht) hs hu
    refine ⟨⟨g1.1, g1.2, ?_⟩, g2⟩
    unfold SI.union leastUpperBound at hu
    have := pure_ok' hu
    rw [this]; exact pseudoJoin_nb t s true (Or.inl ht.nb)

theorem unionFold_sound (w : Nat) : ∀ (ss : List SI) (os : List (List Nat)) (v r : Val), Vok w (NE w) v →
    (∀ s, s ∈ ss → WFw w s) → unionFold v ss os = .ok r →
    Vok w (NE w) r ∧ ∀ x, (v.mem x ∨ memL ss x) → r.mem x
  | [], _, v, r, hv, _, h => by
    unfold unionFold at h
    have := pure_ok' h
    subst this
    refine ⟨hv, ?_⟩
    rintro x (hx | ⟨s, hs, _⟩)
    · exact hx
    · cases hs
  | s :: ss, [], v, r, _, _, h => by unfold unionFold at h; cases h
  | s :: ss, o :: os, v, r, hv, hss, h => by
    unfold unionFold at h
    obtain ⟨v', hv', h⟩ := bind_ok' h
    obtain ⟨g1, g2⟩ := val_unionSI w v s o v' hv (hss s List.mem_cons_self) hv'
    obtain ⟨k1, k2⟩ := unionFold_sound w ss os v' r g1 (fun t ht => hss t (List.mem_cons_of_mem _ ht)) h
    refine ⟨k1, ?_⟩
    rintro x (hx | ⟨t, ht, htx⟩)
    · exact k2 x (Or.inl (g2 x (Or.inl hx)))
    · rcases List.mem_cons.1 ht with he | he
      · subst he; exact k2 x (Or.inl (g2 x (Or.inr htx)))
      · exact k2 x (Or.inr ⟨t, he, htx⟩)

/-- **`set.union(set)`** contains the members of both, for every sequence of recorded set orders -/
theorem dsis_unionDS (w : Nat) (a b : DSIS) (orders : List (List Nat)) (v : Val) (hab : a.bits = w)
    (ha : ∀ m, m ∈ a.sis → NE w m) (hb : ∀ m, m ∈ b.sis → WFw w m) (h : a.unionDS b orders = .ok v) :
    ∀ x, (a.mem x ∨ b.mem x) → v.mem x := by
  unfold DSIS.unionDS at h
  obtain ⟨u, hu, h⟩ := bind_ok' h
  obtain ⟨g1, g2⟩ := unionFold_sound w b.sis orders (.ds a) u ⟨hab, ha⟩ hb hu
  intro x hx
  have hux : u.mem x := g2 x hx
  cases u with
  | si s =>
    have := pure_ok' h
    subst this
    have hs : NE w s := g1
    exact (renorm_mem s hs.wf x).2 hux
  | ds d => exact normalize_sound (WFw w) (joinOK w) d v (fun t ht => NE_WFw (g1.2 t ht)) h x hux

/-! ### intersection -/

/-- **`set.intersection(interval)`** contains every common member — members and operand aligned and normal (the guard of
the interval meet) -/
theorem dsis_meetSI (w : Nat) (hw : 0 < w) (a : DSIS) (s : SI) (order : List Nat) (v : Val) (hab : a.bits = w)
    (ha : ∀ m, m ∈ a.sis → NEa w m) (hs : NEa w s) (h : a.meetSI s order = .ok v) :
    Vok w (WFw w) v ∧ ∀ x, a.mem x → s.mem x → v.mem x := by
  unfold DSIS.meetSI at h
  obtain ⟨L, hL, h⟩ := bind_ok' h
  simp only [] at h
  have hPL : ∀ r, r ∈ L → WFw w r := by
    intro r hr
    obtain ⟨m, hm, hmr⟩ := mapM_ok_mem_rev _ _ _ hL r hr
    exact (meet_sound w m s r (NE_WFw (ha m hm).1) (NE_WFw hs.1) (ha m hm).1.nb hs.1.nb (ha m hm).2.2 hs.2.2 (ha m hm).2.1 hs.2.1 hmr).1
  cases hp : permute (dedupe L) order with
  | none => rw [hp] at h; cases h
  | some l =>
    rw [hp] at h
    have hsup : ∀ t, t ∈ l → WFw w t := by
      intro t ht
      unfold permute at hp
      split at hp
      · cases hp
      · have hl : l = order.filterMap fun i => (dedupe L)[i]? := by cases hp; rfl
        subst hl
        obtain ⟨i, _, hi⟩ := List.mem_filterMap.1 ht
        exact hPL t (dedupe_subset _ t (List.mem_of_getElem? hi))
    have hcommon : ∀ x, a.mem x → s.mem x → memL l x := by
      intro x ⟨m, hm, hmx⟩ hsx
      obtain ⟨r, hrL, hmr⟩ := applyEach1_mem _ a.sis L hL m hm
      have := (meet_sound w m s r (NE_WFw (ha m hm).1) (NE_WFw hs.1) (ha m hm).1.nb hs.1.nb (ha m hm).2.2 hs.2.2
        (ha m hm).2.1 hs.2.1 hmr).2 x hmx hsx
      exact ⟨r, permute_mem _ _ _ hp r (dedupe_mem _ r hrL), this⟩
    match l, hsup, hcommon, h with
    | [], _, hcommon, h =>
      have hv := pure_ok' h
      subst hv
      refine ⟨by rw [hab]; exact empty_WFw w hw, ?_⟩
      intro x hx hsx
      obtain ⟨r, hr, _⟩ := hcommon x hx hsx
      cases hr
    | q :: qs, hsup, hcommon, h =>
      simp only [] at h
      obtain ⟨c, hc, h⟩ := bind_ok' h
      split at h
      · obtain ⟨r, hr, h⟩ := bind_ok' h
        have hv := pure_ok' h
        subst hv
        exact ⟨collapse_WFw w hw { bits := a.bits, sis := q :: qs } r hab hsup hr,
          fun x hx hsx => collapse_sound (WFw w) (joinOK w) _ r hsup hr x (hcommon x hx hsx)⟩
      · have hv := pure_ok' h
        subst hv
        exact ⟨⟨hab, hsup⟩, fun x hx hsx => hcommon x hx hsx⟩

theorem meetParts_sound (w : Nat) (hw : 0 < w) (a : DSIS) (hab : a.bits = w) (ha : ∀ m, m ∈ a.sis → NEa w m) :
    ∀ (ss : List SI) (os : List (List Nat)) (acc out : List SI), (∀ s, s ∈ ss → NEa w s) → (∀ t, t ∈ acc → WFw w t) →
      meetParts a ss os acc = .ok out →
      (∀ t, t ∈ out → WFw w t) ∧ (∀ x, memL acc x → memL out x) ∧ ∀ x, a.mem x → memL ss x → memL out x
  | [], _, acc, out, _, hacc, h => by
    unfold meetParts at h
    have := pure_ok' h
    subst this
    exact ⟨hacc, fun x hx => hx, fun x _ ⟨s, hs, _⟩ => by cases hs⟩
  | s :: ss, [], acc, out, _, _, h => by unfold meetParts at h; cases h
  | s :: ss, o :: os, acc, out, hss, hacc, h => by
    unfold meetParts at h
    obtain ⟨r, hr, h⟩ := bind_ok' h
    obtain ⟨g1, g2⟩ := dsis_meetSI w hw a s o r hab ha (hss s List.mem_cons_self) hr
    have hss' : ∀ t, t ∈ ss → NEa w t := fun t ht => hss t (List.mem_cons_of_mem _ ht)
    cases r with
    | ds d =>
      simp only [] at h
      have hacc' : ∀ t, t ∈ acc ++ d.sis → WFw w t := by
        intro t ht
        rcases List.mem_append.1 ht with h1 | h1
        · exact hacc t h1
        · exact g1.2 t h1
      obtain ⟨k1, k2, k3⟩ := meetParts_sound w hw a hab ha ss os _ out hss' hacc' h
      refine ⟨k1, fun x ⟨t, ht, htx⟩ => k2 x ⟨t, List.mem_append.2 (Or.inl ht), htx⟩, ?_⟩
      intro x hx ⟨t, ht, htx⟩
      rcases List.mem_cons.1 ht with he | he
      · subst he
        obtain ⟨q, hq, hqx⟩ := g2 x hx htx
        exact k2 x ⟨q, List.mem_append.2 (Or.inr hq), hqx⟩
      · exact k3 x hx ⟨t, he, htx⟩
    | si t0 =>
      simp only [] at h
      have hacc' : ∀ t, t ∈ (if t0.bottom then acc else acc ++ [t0]) → WFw w t := by
        intro t ht
        split at ht
        · exact hacc t ht
        · rcases List.mem_append.1 ht with h1 | h1
          · exact hacc t h1
          · rw [List.mem_singleton] at h1; rw [h1]; exact g1
      obtain ⟨k1, k2, k3⟩ := meetParts_sound w hw a hab ha ss os _ out hss' hacc' h
      refine ⟨k1, ?_, ?_⟩
      · intro x ⟨t, ht, htx⟩
        apply k2 x
        split
        · exact ⟨t, ht, htx⟩
        · exact ⟨t, List.mem_append.2 (Or.inl ht), htx⟩
      · intro x hx ⟨t, ht, htx⟩
        rcases List.mem_cons.1 ht with he | he
        · subst he
          have hm : t0.mem x := g2 x hx htx
          apply k2 x
          rw [if_neg (by rw [hm.1]; decide)]
          exact ⟨t0, List.mem_append.2 (Or.inr List.mem_cons_self), hm⟩
        · exact k3 x hx ⟨t, he, htx⟩

/-- **`set.intersection(set)`** contains every common member (members aligned and normal) -/
theorem dsis_meetDS (w : Nat) (hw : 0 < w) (a b : DSIS) (orders : List (List Nat)) (order : List Nat) (v : Val)
    (hab : a.bits = w) (ha : ∀ m, m ∈ a.sis → NEa w m) (hb : ∀ m, m ∈ b.sis → NEa w m)
    (h : a.meetDS b orders order = .ok v) : ∀ x, a.mem x → b.mem x → v.mem x := by
  unfold DSIS.meetDS at h
  obtain ⟨parts, hp, h⟩ := bind_ok' h
  obtain ⟨k1, _, k3⟩ := meetParts_sound w hw a hab ha b.sis orders [] parts hb (fun t ht => by cases ht) hp
  intro x hx hbx
  have hm := k3 x hx hbx
  match parts, k1, hm, h with
  | [], _, hm, _ => obtain ⟨t, ht, _⟩ := hm; cases ht
  | q :: qs, k1, hm, h =>
    simp only [] at h
    rw [hab] at h
    exact finishSet_sound (WFw w) (joinOK w) w _ order v k1 h x hm

end Claripy.VSA
