import ClaripyProofs.Lemmas.VSA.EvalExact
import ClaripyProofs.Lemmas.VSA.Extract
import ClaripyProofs.Lemmas.VSA.NotExt
import ClaripyProofs.Lemmas.VSA.NormalForm
/-! `sign_extend`. -/
namespace Claripy.VSA

/-- the mask of the new high bits -/
theorem mask_eq (w nl : Nat) (h : w ≤ nl) : 2 ^ nl - 2 ^ w = 2 ^ w * (2 ^ (nl - w) - 1) := by
  have e : 2 ^ nl = 2 ^ w * 2 ^ (nl - w) := by rw [← Nat.pow_add]; congr 1; omega
  rw [e, Nat.mul_sub, Nat.mul_one]

theorem or_mask (v w nl : Nat) (hv : v < 2 ^ w) (h : w ≤ nl) : v ||| (2 ^ nl - 2 ^ w) = v + (2 ^ nl - 2 ^ w) := by
  rw [mask_eq w nl h, Nat.or_comm, ← Nat.two_pow_add_eq_or_of_lt hv, Nat.add_comm]

/-- sign extension of a `w`-bit value, as arithmetic -/
theorem sext_val (w nl x : Nat) (hw : 0 < w) (hx : x < 2 ^ w) (h : w ≤ nl) :
    Conc.sext w nl x = if x < 2 ^ (w - 1) then x else x + (2 ^ nl - 2 ^ w) := by
  unfold Conc.sext
  have hpow : 2 ^ w ≤ 2 ^ nl := Nat.pow_le_pow_right (by omega) h
  rw [BitVec.toNat_signExtend, BitVec.toNat_setWidth, BitVec.msb_eq_decide, BitVec.toNat_ofNat, Nat.mod_eq_of_lt hx,
    Nat.mod_eq_of_lt (by omega)]
  by_cases hlt : x < 2 ^ (w - 1)
  · rw [if_pos hlt]; simp; omega
  · rw [if_neg hlt]; simp; omega

/-- what `sign_extend` learns from `extract(bits-1, bits-1).eval(2)`: if that list has one entry, it is the most significant
bit of EVERY member -/
theorem msb_all (s E : SI) (c : Int) (hs : s.WF) (hnb : s.bottom = false)
    (hE : s.extract (s.bits - 1) (s.bits - 1) = .ok E) (hl : E.eval 2 false = .ok [c]) :
    ∀ x, s.mem x → ((x / 2 ^ (s.bits - 1) : Nat) : Int) = c := by
  have h0 := hs.1
  obtain ⟨hEw, hEm⟩ := extract_sound s E (s.bits - 1) (s.bits - 1) hs hnb (Nat.le_refl _) (by omega) hE
  have hbit : ∀ x, s.mem x → E.mem (x / 2 ^ (s.bits - 1)) := by
    intro x hx
    have := hEm x hx
    unfold Conc.extract at this
    have e : s.bits - 1 + 1 - (s.bits - 1) = 1 := by omega
    rw [e, Nat.shiftRight_eq_div_pow] at this
    have hq : x / 2 ^ (s.bits - 1) < 2 := by
      apply (Nat.div_lt_iff_lt_mul (two_pow_pos' _)).2
      have := two_pow_half s.bits h0
      have := hx.2.1
      omega
    rwa [Nat.mod_eq_of_lt (by simpa using hq)] at this
  have hEnb : E.bottom = false := (hbit s.lb (mem_lb s hs hnb)).1
  have hex := eval_exact E 2 [c] hEw.1 hEnb hl
  -- the member list of E has exactly one entry
  have hlen : (E.members.take 2).length = 1 := by
    have := congrArg List.length hex
    simpa using this.symm
  have hlen2 : E.members.length = 1 := by
    rw [List.length_take] at hlen
    omega
  obtain ⟨v, hv⟩ : ∃ v, E.members = [v] := by
    cases hm : E.members with
    | nil => rw [hm] at hlen2; cases hlen2
    | cons a t =>
      cases t with
      | nil => exact ⟨a, rfl⟩
      | cons b t' => rw [hm] at hlen2; simp at hlen2
  rw [hv] at hex
  have hcv : c = (v : Int) := by simpa using hex
  intro x hx
  have := (mem_members E hEw.1 _).2 (hbit x hx)
  rw [hv] at this
  have : x / 2 ^ (s.bits - 1) = v := by simpa using this
  rw [this, hcv]

theorem div_half_zero (w x : Nat) (h : x / 2 ^ (w - 1) = 0) : x < 2 ^ (w - 1) := by
  have := (Nat.div_eq_zero_iff).1 h
  rcases this with h1 | h1
  · have := two_pow_pos' (w - 1); omega
  · exact h1

theorem div_half_one (w x : Nat) (h : x / 2 ^ (w - 1) = 1) : 2 ^ (w - 1) ≤ x := by
  have hp := two_pow_pos' (w - 1)
  by_cases hlt : x < 2 ^ (w - 1)
  · rw [Nat.div_eq_of_lt hlt] at h; cases h
  · omega

/-- the arc `lb → ub` passes from `H - 1` to `H` (what `_nsplit` tests) -/
def Str (H lb ub : Nat) : Prop := if ub ≥ H then (lb > ub ∨ lb ≤ H - 1) else (lb > ub ∧ lb ≤ H - 1)

/-- sign extension of a value below `2H` to the modulus `N` -/
def sx (H N v : Nat) : Nat := if v < H then v else v + (N - 2 * H)

/-- along an arc that does not cross the north pole, sign extension keeps the distances -/
theorem sx_arc (H N lb ub x : Nat) (hH : 0 < H) (hN : 2 * H ≤ N) (hl : lb < 2 * H) (hu : ub < 2 * H) (hx : x < 2 * H)
    (hns : ¬ Str H lb ub) (hd : cd (2 * H) lb x ≤ cd (2 * H) lb ub) :
    cd N (sx H N lb) (sx H N x) = cd (2 * H) lb x ∧ cd N (sx H N lb) (sx H N ub) = cd (2 * H) lb ub ∧
      sx H N lb < N ∧ sx H N ub < N ∧ sx H N x < N := by
  unfold Str at hns
  unfold cd at hd ⊢
  unfold sx
  split_ifs at hns hd ⊢ <;> omega

theorem isMsbZero_iff (v w : Nat) (hw : 0 < w) (hv : v < 2 ^ w) : isMsbZero (v : Int) w = true ↔ v < 2 ^ (w - 1) := by
  have hm := two_pow_half w hw
  have hH := two_pow_pos' (w - 1)
  unfold isMsbZero
  rw [imod_of_lt v w hv]
  by_cases h : v < 2 ^ (w - 1)
  · rw [Nat.div_eq_of_lt h]; simp [h]
  · have h1 : v / 2 ^ (w - 1) = 1 := Nat.div_eq_of_lt_le (by omega) (by omega)
    rw [h1]; simp [h]

/-- the bound of a piece with the sign mask or-ed in is the sign extension of the bound -/
theorem or_signmask (v w nl : Nat) (hw : 0 < w) (hv : v < 2 ^ w) (h : w ≤ nl) :
    (v ||| (if getMsb (v : Int) w = 1 then (2 ^ (nl - w) - 1) <<< w else 0)) = sx (2 ^ (w - 1)) (2 ^ nl) v := by
  have hm := two_pow_half w hw
  have hmask : (2 ^ (nl - w) - 1) <<< w = 2 ^ nl - 2 ^ w := by
    rw [Nat.shiftLeft_eq, mask_eq w nl h, Nat.mul_comm]
  unfold getMsb sx
  by_cases hz : isMsbZero (v : Int) w = true
  · have := (isMsbZero_iff v w hw hv).1 hz
    rw [if_pos hz, if_neg (by decide), if_pos this, Nat.or_zero]
  · have hge : ¬ v < 2 ^ (w - 1) := fun hh => hz ((isMsbZero_iff v w hw hv).2 hh)
    rw [if_neg hz, if_pos rfl, if_neg hge, hmask, or_mask v w nl hv h, ← hm]

/-- **one piece of `sign_extend`**: an interval that does not cross the north pole, its bounds sign-extended -/
theorem sext_piece (p : SI) (nl : Nat) (hp : p.WF) (hnb : p.bottom = false) (hnl : p.bits ≤ nl)
    (hns : ¬ Str (2 ^ (p.bits - 1)) p.lb p.ub) :
    let q := SI.new nl p.stride
      ((p.lb ||| (if getMsb (p.lb : Int) p.bits = 1 then (2 ^ (nl - p.bits) - 1) <<< p.bits else 0) : Nat) : Int)
      ((p.ub ||| (if getMsb (p.ub : Int) p.bits = 1 then (2 ^ (nl - p.bits) - 1) <<< p.bits else 0) : Nat) : Int)
    WFw nl q ∧ ∀ x, p.mem x → q.mem (Conc.sext p.bits nl x) := by
  intro q
  obtain ⟨h0, hl, hu, hst⟩ := hp
  have hwf : p.WF := ⟨h0, hl, hu, hst⟩
  have hm := two_pow_half p.bits h0
  have hH := two_pow_pos' (p.bits - 1)
  have hN : 2 * 2 ^ (p.bits - 1) ≤ 2 ^ nl := by rw [← hm]; exact Nat.pow_le_pow_right (by omega) hnl
  have hnl0 : 0 < nl := by omega
  have eq : q = SI.new nl p.stride ((sx (2 ^ (p.bits - 1)) (2 ^ nl) p.lb : Nat) : Int) ((sx (2 ^ (p.bits - 1)) (2 ^ nl) p.ub : Nat) : Int) := by
    show SI.new _ _ _ _ = _
    rw [or_signmask p.lb p.bits nl h0 hl hnl, or_signmask p.ub p.bits nl h0 hu hnl]
  rw [eq]
  have hl' := hl; have hu' := hu
  rw [hm] at hl' hu'
  refine ⟨⟨new_WF _ _ _ _ hnl0 ?_, new_bits _ _ _ _⟩, ?_⟩
  · intro hz
    have := hst.1 hz
    rw [this]
  · intro x hx
    obtain ⟨_, hxl, hd1, hd2⟩ := mem_facts p x hwf hx
    have hxl' := hxl
    rw [hm] at hxl' hd1 hd2
    obtain ⟨a1, a2, a3, a4, a5⟩ := sx_arc _ (2 ^ nl) p.lb p.ub x hH hN hl' hu' hxl' hns hd1
    have hsx : Conc.sext p.bits nl x = sx (2 ^ (p.bits - 1)) (2 ^ nl) x := by
      rw [sext_val p.bits nl x h0 hxl hnl]
      unfold sx; rw [← hm]
    rw [hsx]
    apply mem_new_of nl _ _ _ _ a3 a4 a5
    · rw [a1, a2]; exact hd1
    · rw [a1]; exact hd2
    · intro hz; rw [a1]; rw [hz] at hd2; exact Nat.eq_zero_of_zero_dvd hd2

theorem nostr_A (H lb K ak : Nat) (hH : 0 < H) (hl : lb < 2 * H) (hak : ak < 2 * H)
    (hake : ak = lb + K ∨ ak + 2 * H = lb + K) (hK : K ≤ cd (2 * H) lb (H - 1)) : ¬ Str H lb ak := by
  unfold Str
  unfold cd at hK
  split_ifs at hK ⊢ <;> omega

theorem nostr_B (H lb ub K' bl : Nat) (hH : 0 < H) (hl : lb < 2 * H) (hu : ub < 2 * H) (hbl : bl < 2 * H)
    (hble : bl = lb + K' ∨ bl + 2 * H = lb + K') (hK : cd (2 * H) lb (H - 1) < K') (hK2 : K' ≤ cd (2 * H) lb ub) :
    ¬ Str H bl ub := by
  unfold Str
  unfold cd at hK hK2
  split_ifs at hK hK2 ⊢ <;> omega

/-- **`_nsplit`**: the pieces are well formed, not empty, do not cross the north pole, and cover the members -/
theorem nsplit_cover (s : SI) (hw : s.WF) (hnb : s.bottom = false) (hn : s.renorm = s) :
    ∃ ps, s.nsplit = .ok ps ∧
      (∀ p, p ∈ ps → WFw s.bits p ∧ p.bottom = false ∧ ¬ Str (2 ^ (s.bits - 1)) p.lb p.ub) ∧
      (∀ x, s.mem x → ∃ p, p ∈ ps ∧ p.mem x) := by
  have hwf := hw
  obtain ⟨h0, hl, hu, hst⟩ := hw
  have hm2 := two_pow_half s.bits h0
  have hH := two_pow_pos' (s.bits - 1)
  have hm := two_pow_pos' s.bits
  by_cases hstr : (if s.ub ≥ 2 ^ (s.bits - 1) then (decide (s.lb > s.ub) || decide (s.lb ≤ maxInt (s.bits - 1)))
          else (decide (s.lb > s.ub) && decide (s.lb ≤ maxInt (s.bits - 1)))) = true
  · have hstrP : (if s.ub ≥ 2 ^ (s.bits - 1) then (s.lb > s.ub ∨ s.lb ≤ 2 ^ (s.bits - 1) - 1)
        else (s.lb > s.ub ∧ s.lb ≤ 2 ^ (s.bits - 1) - 1)) := by
      unfold maxInt at hstr
      split_ifs at hstr ⊢ <;> simpa using hstr
    have hsne : s.stride ≠ 0 := by
      intro h
      have := hst.1 h
      split_ifs at hstrP <;> omega
    have hns := nsplit_straddle s hwf hsne hstr
    simp only [] at hns
    generalize hDg : cd (2 ^ s.bits) s.lb (2 ^ (s.bits - 1) - 1) = D at hns
    generalize hKg : D - D % s.stride = K at hns
    generalize hSg : cd (2 ^ s.bits) s.lb s.ub = span at hns
    have hspanlt : span < 2 ^ s.bits := by rw [← hSg]; exact cd_lt _ _ _ hl hu
    have hDS : D < span := by
      rw [← hDg, ← hSg]
      unfold cd
      split_ifs at hstrP ⊢ <;> omega
    have hK1 : s.stride ∣ K := by rw [← hKg]; exact Nat.dvd_sub_mod _
    have hK2 : D < K + s.stride := by
      have := Nat.mod_lt D (Nat.pos_of_ne_zero hsne)
      have := Nat.mod_le D s.stride
      omega
    have hK3 : K ≤ D := by rw [← hKg]; exact Nat.sub_le _ _
    obtain ⟨hak1, hak2⟩ := mod_two_cases (s.lb + K) (2 ^ s.bits) hm (by omega)
    generalize hakg : (s.lb + K) % 2 ^ s.bits = ak at hns hak1 hak2
    have hAb := new_bounds s.bits s.stride s.lb ak hl hak1 (by
      rintro ⟨h1, _⟩
      rw [succ_mod_cases _ _ hak1] at h1
      split_ifs at h1 <;> omega)
    have hcdak : cd (2 ^ s.bits) s.lb ak = K := by unfold cd; split_ifs <;> omega
    have hAw : WFw s.bits (SI.new s.bits s.stride (s.lb : Int) (ak : Int)) :=
      ⟨new_WF _ _ _ _ h0 (fun h => absurd h hsne), new_bits _ _ _ _⟩
    have hAns : ¬ Str (2 ^ (s.bits - 1)) (SI.new s.bits s.stride (s.lb : Int) (ak : Int)).lb
        (SI.new s.bits s.stride (s.lb : Int) (ak : Int)).ub := by
      rw [hAb.1, hAb.2]
      rw [hm2] at hl hak1 hak2
      rw [← hDg, hm2] at hK3
      exact nostr_A _ _ K _ hH hl hak1 (by omega) hK3
    have hAmem : ∀ x, s.mem x → cd (2 ^ s.bits) s.lb x ≤ K → (SI.new s.bits s.stride (s.lb : Int) (ak : Int)).mem x := by
      intro x hx hd
      obtain ⟨_, hxl, _, hx2⟩ := mem_facts s x hwf hx
      apply mem_new_of _ _ _ _ x hl hak1 hxl _ hx2 (fun h => absurd h hsne)
      rw [hcdak]; exact hd
    by_cases hbr : K + s.stride > span
    · rw [if_pos hbr] at hns
      refine ⟨_, hns, ?_, ?_⟩
      · intro p hp
        have : p = SI.new s.bits s.stride (s.lb : Int) (ak : Int) := by simpa using hp
        subst this
        exact ⟨hAw, new_bottom _ _ _ _, hAns⟩
      · intro x hx
        obtain ⟨_, hxl, hx1, hx2⟩ := mem_facts s x hwf hx
        rw [hSg] at hx1
        have hd : cd (2 ^ s.bits) s.lb x ≤ K := by
          by_cases hle : cd (2 ^ s.bits) s.lb x ≤ K
          · exact hle
          · have := dvd_gap _ _ _ hK1 hx2 (by omega)
            omega
        exact ⟨_, List.mem_cons_self, hAmem x hx hd⟩
    · rw [if_neg hbr] at hns
      obtain ⟨hbl1, hbl2⟩ := mod_two_cases (s.lb + K + s.stride) (2 ^ s.bits) hm (by omega)
      generalize hblg : (s.lb + K + s.stride) % 2 ^ s.bits = bl at hns hbl1 hbl2
      have hBb := new_bounds s.bits s.stride bl s.ub hbl1 hu (by
        rintro ⟨h1, _⟩
        rw [succ_mod_cases _ _ hu] at h1
        rw [← hSg] at hbr hspanlt
        unfold cd at hbr hspanlt
        split_ifs at h1 hbr hspanlt <;> omega)
      have hBw : WFw s.bits (SI.new s.bits s.stride (bl : Int) (s.ub : Int)) :=
        ⟨new_WF _ _ _ _ h0 (fun h => absurd h hsne), new_bits _ _ _ _⟩
      have hBns : ¬ Str (2 ^ (s.bits - 1)) (SI.new s.bits s.stride (bl : Int) (s.ub : Int)).lb
          (SI.new s.bits s.stride (bl : Int) (s.ub : Int)).ub := by
        rw [hBb.1, hBb.2]
        have hbr' : K + s.stride ≤ span := by omega
        rw [hm2] at hl hu hbl1 hbl2
        rw [← hDg, hm2] at hK2
        rw [← hSg, hm2] at hbr'
        exact nostr_B _ _ _ (K + s.stride) _ hH hl hu hbl1 (by omega) hK2 hbr'
      refine ⟨_, hns, ?_, ?_⟩
      · intro p hp
        rcases List.mem_cons.1 hp with h | h
        · subst h; exact ⟨hAw, new_bottom _ _ _ _, hAns⟩
        · have : p = SI.new s.bits s.stride (bl : Int) (s.ub : Int) := by simpa using h
          subst this
          exact ⟨hBw, new_bottom _ _ _ _, hBns⟩
      · intro x hx
        obtain ⟨_, hxl, hx1, hx2⟩ := mem_facts s x hwf hx
        by_cases hle : cd (2 ^ s.bits) s.lb x ≤ K
        · exact ⟨_, List.mem_cons_self, hAmem x hx hle⟩
        · have hgap := dvd_gap _ _ _ hK1 hx2 (by omega)
          refine ⟨_, List.mem_cons_of_mem _ List.mem_cons_self, ?_⟩
          rw [hSg] at hx1
          have e1 : cd (2 ^ s.bits) bl x = cd (2 ^ s.bits) s.lb x - (K + s.stride) := by
            unfold cd at hx1 hgap hle ⊢; rw [← hSg] at hx1 hspanlt; unfold cd at hx1 hspanlt
            split_ifs at hx1 hgap hle hspanlt ⊢ <;> omega
          have e2 : cd (2 ^ s.bits) bl s.ub = span - (K + s.stride) := by
            rw [← hSg] at hbr hspanlt ⊢
            unfold cd at hbr hspanlt ⊢; split_ifs at hbr hspanlt ⊢ <;> omega
          apply mem_new_of _ _ _ _ x hbl1 hu hxl
          · rw [e1, e2]; omega
          · rw [e1]
            exact Nat.dvd_sub hx2 (Nat.dvd_add hK1 (Nat.dvd_refl _))
          · intro h; exact absurd h hsne
  · have hnsP : ¬ Str (2 ^ (s.bits - 1)) s.lb s.ub := by
      unfold Str
      unfold maxInt at hstr
      intro hP
      apply hstr
      split_ifs at hP ⊢ <;> simpa using hP
    have hns : s.nsplit = .ok [s] := by
      unfold SI.nsplit
      simp only []
      rw [if_neg hstr, hn]; rfl
    refine ⟨_, hns, ?_, ?_⟩
    · intro p hp
      have : p = s := by simpa using hp
      subst this
      exact ⟨⟨hwf, rfl⟩, hnb, hnsP⟩
    · intro x hx
      exact ⟨s, List.mem_cons_self, hx⟩

/-- **`sign_extend` is sound and closed** (operand in constructor-normal form) -/
theorem sext_sound (s r : SI) (nl : Nat) (hs : s.WF) (hnb : s.bottom = false) (hn : Nrm s) (hnl : s.bits ≤ nl)
    (h : s.signExtend nl = .ok r) : WFw nl r ∧ ∀ x, s.mem x → r.mem (Conc.sext s.bits nl x) := by
  have hwf := hs
  obtain ⟨h0, hl, hu, hst⟩ := hs
  have hm2 := two_pow_half s.bits h0
  have hH := two_pow_pos' (s.bits - 1)
  have hpow : 2 ^ s.bits ≤ 2 ^ nl := Nat.pow_le_pow_right (by omega) hnl
  unfold SI.signExtend at h
  simp only [bind, Except.bind] at h
  cases hE : s.extract (s.bits - 1) (s.bits - 1) with
  | error e => rw [hE] at h; cases h
  | ok E =>
    rw [hE] at h
    simp only [] at h
    cases hl2 : E.eval 2 false with
    | error e => rw [hl2] at h; cases h
    | ok msb =>
      rw [hl2] at h
      simp only [] at h
      by_cases h1 : msb = [0]
      · rw [if_pos h1] at h
        subst h1
        have hmsb := msb_all s E 0 hwf hnb hE hl2
        obtain ⟨z1, z2⟩ := zext_sound s r nl hwf hnb hnl h
        refine ⟨z1, ?_⟩
        intro x hx
        have hx0 : x / 2 ^ (s.bits - 1) = 0 := by have := hmsb x hx; omega
        rw [sext_val s.bits nl x h0 hx.2.1 hnl, if_pos (div_half_zero s.bits x hx0)]
        exact z2 x hx
      · rw [if_neg h1] at h
        by_cases h2 : msb = [1] ∧ s.lb ≤ s.ub
        · rw [if_pos h2] at h
          obtain ⟨h2a, hle⟩ := h2
          subst h2a
          have hmsb := msb_all s E 1 hwf hnb hE hl2
          have hmask : (2 ^ nl - 1) - (2 ^ s.bits - 1) = 2 ^ nl - 2 ^ s.bits := by
            have := two_pow_pos' s.bits; omega
          have hrn : s.renorm = s := hn
          have hr : r = { s with bits := nl, lb := s.lb + (2 ^ nl - 2 ^ s.bits), ub := s.ub + (2 ^ nl - 2 ^ s.bits) } := by
            simp only [pure, Except.pure, hrn, hmask, or_mask s.lb s.bits nl hl hnl, or_mask s.ub s.bits nl hu hnl] at h
            cases h; rfl
          subst hr
          have hlN : s.lb + (2 ^ nl - 2 ^ s.bits) < 2 ^ nl := by omega
          have huN : s.ub + (2 ^ nl - 2 ^ s.bits) < 2 ^ nl := by omega
          refine ⟨⟨⟨by show 0 < nl; omega, hlN, huN, ?_⟩, rfl⟩, ?_⟩
          · show s.stride = 0 ↔ s.lb + (2 ^ nl - 2 ^ s.bits) = s.ub + (2 ^ nl - 2 ^ s.bits)
            constructor
            · intro hz; rw [hst.1 hz]
            · intro he; exact hst.2 (by omega)
          · intro x hx
            obtain ⟨_, hxl, hd1, hd2⟩ := mem_facts s x hwf hx
            obtain ⟨hb1, hb2⟩ := mem_between s s.bits ⟨hwf, rfl⟩ hle x hx
            have hx1 : x / 2 ^ (s.bits - 1) = 1 := by have := hmsb x hx; omega
            have hge := div_half_one s.bits x hx1
            rw [sext_val s.bits nl x h0 hxl hnl, if_neg (by omega)]
            rw [mem_iff _ _ hlN huN]
            have e1 : cd (2 ^ nl) (s.lb + (2 ^ nl - 2 ^ s.bits)) (x + (2 ^ nl - 2 ^ s.bits)) = cd (2 ^ s.bits) s.lb x := by
              unfold cd; split_ifs <;> omega
            have e2 : cd (2 ^ nl) (s.lb + (2 ^ nl - 2 ^ s.bits)) (s.ub + (2 ^ nl - 2 ^ s.bits)) = cd (2 ^ s.bits) s.lb s.ub := by
              unfold cd; split_ifs <;> omega
            show s.bottom = false ∧ x + (2 ^ nl - 2 ^ s.bits) < 2 ^ nl ∧
              cd (2 ^ nl) (s.lb + (2 ^ nl - 2 ^ s.bits)) (x + (2 ^ nl - 2 ^ s.bits)) ≤
                cd (2 ^ nl) (s.lb + (2 ^ nl - 2 ^ s.bits)) (s.ub + (2 ^ nl - 2 ^ s.bits)) ∧
              (if s.stride = 0 then cd (2 ^ nl) (s.lb + (2 ^ nl - 2 ^ s.bits)) (x + (2 ^ nl - 2 ^ s.bits)) = 0
               else cd (2 ^ nl) (s.lb + (2 ^ nl - 2 ^ s.bits)) (x + (2 ^ nl - 2 ^ s.bits)) % s.stride = 0)
            rw [e1, e2]
            refine ⟨hnb, by omega, hd1, ?_⟩
            by_cases hz : s.stride = 0
            · rw [if_pos hz]; rw [hz] at hd2; exact Nat.eq_zero_of_zero_dvd hd2
            · rw [if_neg hz]; exact Nat.mod_eq_zero_of_dvd hd2
        · rw [if_neg h2] at h
          obtain ⟨ps, hps, hprop, hcov⟩ := nsplit_cover s hwf hnb hn
          rw [hps] at h
          simp only [] at h
          generalize hrs : (ps.map fun n =>
            SI.new nl n.stride
              ((n.lb ||| (if getMsb (n.lb : Int) n.bits = 1 then (2 ^ (nl - n.bits) - 1) <<< n.bits else 0) : Nat) : Int)
              ((n.ub ||| (if getMsb (n.ub : Int) n.bits = 1 then (2 ^ (nl - n.bits) - 1) <<< n.bits else 0) : Nat) : Int)) = rs at h
          cases hlub : leastUpperBound rs with
          | error e => rw [hlub] at h; cases h
          | ok u =>
            rw [hlub] at h
            have hr : r = u.renorm := by cases h; rfl
            subst hr
            have hpiece : ∀ p, p ∈ ps → WFw nl (SI.new nl p.stride
                ((p.lb ||| (if getMsb (p.lb : Int) p.bits = 1 then (2 ^ (nl - p.bits) - 1) <<< p.bits else 0) : Nat) : Int)
                ((p.ub ||| (if getMsb (p.ub : Int) p.bits = 1 then (2 ^ (nl - p.bits) - 1) <<< p.bits else 0) : Nat) : Int)) ∧
                ∀ x, p.mem x → (SI.new nl p.stride
                ((p.lb ||| (if getMsb (p.lb : Int) p.bits = 1 then (2 ^ (nl - p.bits) - 1) <<< p.bits else 0) : Nat) : Int)
                ((p.ub ||| (if getMsb (p.ub : Int) p.bits = 1 then (2 ^ (nl - p.bits) - 1) <<< p.bits else 0) : Nat) : Int)).mem
                  (Conc.sext s.bits nl x) := by
              intro p hp
              obtain ⟨hpw, hpb, hpn⟩ := hprop p hp
              have := sext_piece p nl hpw.1 hpb (by rw [hpw.2]; exact hnl) (by rw [hpw.2]; exact hpn)
              simp only [] at this
              rw [hpw.2] at this ⊢
              exact this
            have hP : ∀ q, q ∈ rs → WFw nl q := by
              intro q hq
              rw [← hrs] at hq
              obtain ⟨p, hp, he⟩ := List.mem_map.1 hq
              subst he
              exact (hpiece p hp).1
            obtain ⟨u1, u2⟩ := lub_sup nl rs u hP hlub
            refine ⟨renorm_WFw nl u u1, ?_⟩
            intro x hx
            obtain ⟨p, hp, hpx⟩ := hcov x hx
            apply (renorm_mem u u1.1 _).2
            apply u2
            refine ⟨_, ?_, (hpiece p hp).2 x hpx⟩
            rw [← hrs]
            exact List.mem_map.2 ⟨p, hp, rfl⟩

theorem ok_pure {α : Type} (a r : α) (h : (pure a : R α) = .ok r) : r = a := by cases h; rfl

/-- `zero_extend` returns an interval in constructor-normal form -/
theorem zeroExtend_nrm (a r : SI) (nl : Nat) (ha : a.WF) (hnb : a.bottom = false) (na : Nrm a) (hnl : a.bits ≤ nl) (hw : r.WF)
    (h : a.zeroExtend nl = .ok r) : Nrm r := by
  have hnl0 : 0 < nl := Nat.lt_of_lt_of_le ha.1 hnl
  unfold SI.zeroExtend at h
  by_cases hwrap : (!a.bottom && decide (a.lb > a.ub)) = true
  · rw [if_pos hwrap] at h
    have hw' : a.ub < a.lb := by simpa [hnb] using hwrap
    have hsp := ssplit_wrap a ha hw'
    simp only [] at hsp
    rw [hsp] at h
    simp only [bind, Except.bind] at h
    split at h
    · simp only [List.map_cons, List.map_nil] at h
      unfold leastUpperBound at h
      exact nrm_of_renorm _ r (ok_pure _ _ h) hw
    · simp only [List.map_cons, List.map_nil] at h
      unfold leastUpperBound at h
      have hr := ok_pure _ _ h
      rw [hr]
      apply pseudoJoin_nrm_nb _ _ _ hnl0
      · show (SI.new _ _ _ _).renorm.bottom = false
        unfold SI.renorm; rw [new_bottom]; simp
      · show (SI.new _ _ _ _).renorm.bottom = false
        unfold SI.renorm; rw [new_bottom]; simp
  · rw [if_neg hwrap] at h
    have hr := ok_pure _ _ h
    rw [hr, na]
    exact widen_bits_nrm a nl ha hnb na hnl

/-- when `sign_extend` takes the zero-extension route every member is non-negative, so the value is unchanged
(this is what lets the backend keep the variable's name) -/
theorem sextKeeps_sound (a : SI) (k x : Nat) (ha : a.WF) (h : sextKeeps a = .ok true) (hx : a.mem x) :
    Conc.sext a.bits (k + a.bits) x = x := by
  unfold sextKeeps at h
  simp only [bind, Except.bind] at h
  cases hE : a.extract (a.bits - 1) (a.bits - 1) with
  | error e => rw [hE] at h; cases h
  | ok E =>
    rw [hE] at h
    simp only [] at h
    cases hl : E.eval 2 false with
    | error e => rw [hl] at h; cases h
    | ok msb =>
      rw [hl] at h
      simp only [pure, Except.pure] at h
      have hb : (decide (msb = [0]) && zextKeeps a) = true := by injection h
      have h0 : msb = [0] := by
        have := (Bool.and_eq_true_iff.1 hb).1
        exact of_decide_eq_true this
      subst h0
      have hmsb := msb_all a E 0 ha hx.1 hE hl
      have hx0 : x / 2 ^ (a.bits - 1) = 0 := by have := hmsb x hx; omega
      rw [sext_val a.bits (k + a.bits) x ha.1 hx.2.1 (by omega), if_pos (div_half_zero a.bits x hx0)]

/-- `sign_extend` returns an interval in constructor-normal form -/
theorem sext_nrm (s r : SI) (nl : Nat) (hs : s.WF) (hnb : s.bottom = false) (hn : Nrm s) (hnl : s.bits ≤ nl) (hw : r.WF)
    (h : s.signExtend nl = .ok r) : Nrm r := by
  have hwf := hs
  obtain ⟨h0, hl, hu, hst⟩ := hs
  have hH := two_pow_pos' (s.bits - 1)
  have hpow : 2 ^ s.bits ≤ 2 ^ nl := Nat.pow_le_pow_right (by omega) hnl
  unfold SI.signExtend at h
  simp only [bind, Except.bind] at h
  cases hE : s.extract (s.bits - 1) (s.bits - 1) with
  | error e => rw [hE] at h; cases h
  | ok E =>
    rw [hE] at h
    simp only [] at h
    cases hl2 : E.eval 2 false with
    | error e => rw [hl2] at h; cases h
    | ok msb =>
      rw [hl2] at h
      simp only [] at h
      by_cases h1 : msb = [0]
      · rw [if_pos h1] at h
        exact zeroExtend_nrm s r nl hwf hnb hn hnl hw h
      · rw [if_neg h1] at h
        by_cases h2 : msb = [1] ∧ s.lb ≤ s.ub
        · rw [if_pos h2] at h
          obtain ⟨h2a, hle⟩ := h2
          subst h2a
          have hmsb := msb_all s E 1 hwf hnb hE hl2
          have hlb1 : s.lb / 2 ^ (s.bits - 1) = 1 := by have := hmsb s.lb (mem_lb s hwf hnb); omega
          have hge := div_half_one s.bits s.lb hlb1
          have hmask : (2 ^ nl - 1) - (2 ^ s.bits - 1) = 2 ^ nl - 2 ^ s.bits := by
            have := two_pow_pos' s.bits; omega
          have hrn : s.renorm = s := hn
          have hr : r = { s with bits := nl, lb := s.lb + (2 ^ nl - 2 ^ s.bits), ub := s.ub + (2 ^ nl - 2 ^ s.bits) } := by
            simp only [pure, Except.pure, hrn, hmask, or_mask s.lb s.bits nl hl hnl, or_mask s.ub s.bits nl hu hnl] at h
            cases h; rfl
          subst hr
          have hlN : s.lb + (2 ^ nl - 2 ^ s.bits) < 2 ^ nl := by omega
          have huN : s.ub + (2 ^ nl - 2 ^ s.bits) < 2 ^ nl := by omega
          unfold Nrm SI.renorm
          have hb' : ({ s with bits := nl, lb := s.lb + (2 ^ nl - 2 ^ s.bits), ub := s.ub + (2 ^ nl - 2 ^ s.bits) } : SI).bottom = false := hnb
          rw [hb']
          simp only [Bool.false_eq_true, if_false]
          rw [new_eq, imod_of_lt _ _ hlN, imod_of_lt _ _ huN]
          by_cases e1 : s.lb + (2 ^ nl - 2 ^ s.bits) = s.ub + (2 ^ nl - 2 ^ s.bits)
          · rw [if_pos e1]
            have hs0 : s.stride = 0 := hst.2 (by omega)
            rw [hs0]
          · rw [if_neg e1]
            rw [if_neg]
            rintro ⟨e2, _⟩
            rw [succ_mod_cases _ _ huN] at e2
            split_ifs at e2 <;> omega
        · rw [if_neg h2] at h
          cases hns : s.nsplit with
          | error e => rw [hns] at h; cases h
          | ok ps =>
            rw [hns] at h
            simp only [] at h
            split at h
            · cases h
            · rename_i u _
              have hr : r = u.renorm := by cases h; rfl
              exact nrm_of_renorm u r hr hw

end Claripy.VSA
