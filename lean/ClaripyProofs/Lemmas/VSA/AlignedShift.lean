import ClaripyProofs.Lemmas.VSA.AlignedNotExt
import ClaripyProofs.Lemmas.VSA.ShiftSound
/-! The shifts by interval amounts (`lshift`, `rshift_logical`) keep alignment: every per-amount result ends at the image of
the operand's upper bound, and the loop over the amounts joins aligned intervals. -/
namespace Claripy.VSA

/-- the accumulating loop over shift amounts keeps alignment -/
theorem overRangeAux_aligned (w : Nat) (f : Nat → R SI) (hf : ∀ k si, f k = .ok si → WFw w si ∧ si.Aligned) :
    ∀ (ks : List Nat) (acc res : Option SI), (∀ a, acc = some a → WFw w a ∧ a.Aligned) →
      overRangeAux f ks acc = .ok res → (∀ r, res = some r → WFw w r ∧ r.Aligned) := by
  intro ks
  induction ks with
  | nil =>
    intro acc res hacc h
    unfold overRangeAux at h
    have : res = acc := by cases h; rfl
    subst this
    exact hacc
  | cons k ks ih =>
    intro acc res hacc h
    unfold overRangeAux at h
    cases hfk : f k with
    | error e => rw [hfk] at h; cases h
    | ok si =>
      rw [hfk] at h
      simp only [] at h
      have hsi := hf k si hfk
      cases acc with
      | none =>
        simp only [] at h
        exact ih (some si) res (fun a ha => by cases ha; exact hsi) h
      | some a =>
        simp only [] at h
        have ha := hacc a rfl
        cases hu : a.union si with
        | error e => rw [hu] at h; cases h
        | ok u =>
          rw [hu] at h
          simp only [] at h
          have hu1 := (union_sup w a si u ha.1 hsi.1 hu).1
          have hu2 := union_aligned w a si u ha.1 hsi.1 ha.2 hsi.2 hu
          exact ih (some u) res (fun b hb => by cases hb; exact ⟨hu1, hu2⟩) h

/-- `overRange` of aligned per-amount results is aligned -/
theorem overRange_aligned (w : Nat) (self : SI) (lower upper : Nat) (f : Nat → R SI)
    (hf : ∀ k si, f k = .ok si → WFw w si ∧ si.Aligned) (r : SI) (h : overRange self lower upper f = .ok r) :
    r.Aligned := by
  unfold overRange at h
  cases haux : overRangeAux f ((List.range (upper + 1 - lower)).map (lower + ·)) none with
  | error e => rw [haux] at h; cases h
  | ok res =>
    rw [haux] at h
    have h1 := overRangeAux_aligned w f hf _ none res (fun a ha => by cases ha) haux
    cases res with
    | none =>
      simp only [] at h
      have hr : r = SI.top self.bits := by cases h; rfl
      subst hr
      exact top_aligned _
    | some u =>
      simp only [] at h
      have hr : r = u.renorm := by cases h; rfl
      subst hr
      have hu := h1 u rfl
      exact renorm_aligned u hu.1.1 hu.2

/-! ### logical right shift -/

theorem shr_lt (x k w : Nat) (hx : x < 2 ^ w) : x >>> k < 2 ^ w := by
  rw [Nat.shiftRight_eq_div_pow]
  exact Nat.lt_of_le_of_lt (Nat.div_le_self _ _) hx

/-- one non-wrapping aligned piece shifted right is aligned -/
theorem rshift_piece_aligned (w k st : Nat) (p : SI) (hp : WFw w p) (hpb : p.bottom = false) (hle : p.lb ≤ p.ub)
    (hst : p.stride = 0 ∨ p.stride = st) (al : p.Aligned) :
    (SI.new w (rshiftStride st k) ((p.lb >>> k : Nat) : Int) ((p.ub >>> k : Nat) : Int)).Aligned := by
  apply new_aligned_of_mem
  have hpu : p.ub < 2 ^ w := by have := hp.1.2.2.1; rw [hp.2] at this; exact this
  rw [imod_of_lt _ _ (shr_lt _ _ _ hpu)]
  exact rshift_piece_mem w k st p hp hle hst p.ub (mem_ub_of_aligned p hp.1 hpb al)

theorem rshiftLogicalK_nowrap_aligned (fuel k : Nat) (s r : SI) (hs : s.WF) (hnb : s.bottom = false) (hle : s.lb ≤ s.ub)
    (al : s.Aligned) (h : rshiftLogicalK (fuel + 1) s k = .ok r) : r.Aligned := by
  unfold rshiftLogicalK at h
  rw [hnb] at h
  simp only [Bool.false_eq_true, if_false] at h
  have hsp : s.ssplit = .ok [s.renorm] := by unfold SI.ssplit; rw [if_neg (by omega)]; rfl
  rw [hsp] at h
  simp only [bind, Except.bind, pure, Except.pure] at h
  have hr : r = SI.new s.bits (rshiftStride s.stride k) ((s.renorm.lb >>> k : Nat) : Int) ((s.renorm.ub >>> k : Nat) : Int) := by
    cases h; rfl
  subst hr
  have hrw := renorm_WFw s.bits s ⟨hs, rfl⟩
  have hrle : s.renorm.lb ≤ s.renorm.ub := by
    unfold SI.renorm; rw [hnb]; simp only [Bool.false_eq_true, if_false]
    exact new_nowrap _ _ _ _ hs.2.1 hs.2.2.1 hle
  have hrst : s.renorm.stride = 0 ∨ s.renorm.stride = s.stride := by
    unfold SI.renorm; rw [hnb]; simp only [Bool.false_eq_true, if_false]
    exact new_stride_dvd _ _ _ _
  have hrb : s.renorm.bottom = false := by unfold SI.renorm; rw [hnb]; simp
  exact rshift_piece_aligned s.bits k s.stride s.renorm hrw hrb hrle hrst (renorm_aligned s hs al)

/-- `_rshift_logical(k)` of an aligned interval is aligned -/
theorem rshiftLogicalK_aligned (fuel k : Nat) (s r : SI) (hs : s.WF) (hnb : s.bottom = false) (al : s.Aligned)
    (h : rshiftLogicalK (fuel + 2) s k = .ok r) : r.Aligned := by
  obtain ⟨ps, hps, hprop, _, _⟩ := ssplit_spec s hs hnb
  have hpa := ssplit_aligned s hs al ps hps
  unfold rshiftLogicalK at h
  rw [hnb] at h
  simp only [Bool.false_eq_true, if_false] at h
  rw [hps] at h
  simp only [bind, Except.bind] at h
  match ps, hprop, hpa, h with
  | [], _, _, h => cases h
  | [p], hprop, hpa, h =>
    simp only [pure, Except.pure] at h
    have hr : r = SI.new s.bits (rshiftStride s.stride k) ((p.lb >>> k : Nat) : Int) ((p.ub >>> k : Nat) : Int) := by
      cases h; rfl
    subst hr
    obtain ⟨hpw, hpb, hple, hpst⟩ := hprop p List.mem_cons_self
    exact rshift_piece_aligned s.bits k s.stride p hpw hpb hple hpst (hpa p List.mem_cons_self)
  | [p, q], hprop, hpa, h =>
    obtain ⟨hpw, hpb, hple, _⟩ := hprop p List.mem_cons_self
    obtain ⟨hqw, hqb, hqle, _⟩ := hprop q (List.mem_cons_of_mem _ List.mem_cons_self)
    dsimp only at h
    cases ha : rshiftLogicalK (fuel + 1) p k with
    | error e => rw [ha] at h; cases h
    | ok a =>
      rw [ha] at h
      simp only [] at h
      cases hb : rshiftLogicalK (fuel + 1) q k with
      | error e => rw [hb] at h; cases h
      | ok b =>
        rw [hb] at h
        simp only [] at h
        obtain ⟨ha1, _⟩ := rshiftLogicalK_nowrap fuel k p a hpw.1 hpb hple ha
        obtain ⟨hb1, _⟩ := rshiftLogicalK_nowrap fuel k q b hqw.1 hqb hqle hb
        rw [hpw.2] at ha1
        rw [hqw.2] at hb1
        have aa := rshiftLogicalK_nowrap_aligned fuel k p a hpw.1 hpb hple (hpa p List.mem_cons_self) ha
        have ab := rshiftLogicalK_nowrap_aligned fuel k q b hqw.1 hqb hqle
          (hpa q (List.mem_cons_of_mem _ List.mem_cons_self)) hb
        exact union_aligned s.bits a b r ha1 hb1 aa ab h
  | _ :: _ :: _ :: _, _, _, h => cases h

/-- **`rshift_logical` (interval shift amount) of an aligned interval is aligned** -/
theorem lshr_aligned (s amt r : SI) (hs : s.WF) (hnb : s.bottom = false) (al : s.Aligned)
    (h : s.rshiftLogical amt = .ok r) : r.Aligned := by
  unfold SI.rshiftLogical SI.rshiftLogicalRange at h
  simp only [] at h
  exact overRange_aligned s.bits s _ _ _
    (fun k si hk => ⟨(rshiftLogicalK_sound 62 k s si hs hnb hk).1, rshiftLogicalK_aligned 62 k s si hs hnb al hk⟩) r h

/-! ### left shift -/

/-- `_lshift(k)` of an aligned interval is aligned -/
theorem lshiftK_aligned (s : SI) (k : Nat) (hs : s.WF) (hnb : s.bottom = false) (al : s.Aligned) :
    (lshiftK s k).Aligned := by
  have hsnd := (lshiftK_sound s k hs hnb).2 s.ub (mem_ub_of_aligned s hs hnb al)
  obtain ⟨hw, hl, hu, hst⟩ := hs
  have hM := two_pow_pos' s.bits
  have hspan : modSub (s.ub : Int) (s.lb : Int) s.bits = cd (2 ^ s.bits) s.lb s.ub := modSub_nat _ _ _ hu hl
  unfold lshiftK at hsnd ⊢
  rw [hnb] at hsnd ⊢
  simp only [Bool.false_eq_true, if_false, hspan, Nat.shiftLeft_eq] at hsnd ⊢
  by_cases h1 : cd (2 ^ s.bits) s.lb s.ub * 2 ^ k < 2 ^ s.bits
  · rw [if_pos h1] at hsnd ⊢
    apply new_aligned_of_mem
    rw [imod_nat]
    have hxe : s.ub = (s.lb + cd (2 ^ s.bits) s.lb s.ub) % 2 ^ s.bits := eq_add_cd _ _ _ hl hu
    have : ((s.lb + cd (2 ^ s.bits) s.lb s.ub) * 2 ^ k) % 2 ^ s.bits = (s.ub * 2 ^ k) % 2 ^ s.bits := by
      conv => rhs; rw [hxe]
      rw [Nat.mod_mul_mod]
    rw [this]; exact hsnd
  · rw [if_neg h1]
    by_cases h2 : k ≥ s.bits
    · rw [if_pos h2]; left; rw [new_eq]; simp
    · rw [if_neg h2]
      have hPM : 2 ^ k ∣ 2 ^ s.bits := Nat.pow_dvd_pow 2 (by omega)
      have hP := two_pow_pos' k
      have hlt : 2 ^ k ≤ 2 ^ s.bits := Nat.le_of_dvd hM hPM
      have := aligned_new s.bits (2 ^ k) 0 (2 ^ s.bits - 2 ^ k) hM (by omega)
        (by rw [cd_zero]; exact Nat.dvd_sub hPM (Nat.dvd_refl _))
      simpa using this

/-- **`lshift` (interval shift amount) of an aligned interval is aligned** -/
theorem shl_aligned (s amt r : SI) (hs : s.WF) (hnb : s.bottom = false) (al : s.Aligned)
    (h : s.lshift amt = .ok r) : r.Aligned := by
  unfold SI.lshift SI.lshiftRange at h
  simp only [] at h
  refine overRange_aligned s.bits s _ _ _ ?_ r h
  intro k si hk
  have : si = lshiftK s k := by cases hk; rfl
  subst this
  exact ⟨(lshiftK_sound s k hs hnb).1, lshiftK_aligned s k hs hnb al⟩

end Claripy.VSA
