import ClaripyProofs.Lemmas.VSA.BalancerUnsatSigned
/-!
The composite theorems without the hypothesis "a literal other side faces a symbolic left side": when the side that is
not the literal has no symbolic leaf either (cardinality 1 from the concrete backend: two non-symbolic sides), the model of
`_doit` records nothing — `_balance` never reaches a symbolic expression and `_handle` returns at cardinality 1.
-/
set_option linter.unusedSectionVars false
namespace Claripy.VSA.Bal
open Claripy.VSA

/-- balancing and handling a truism whose left side has no symbolic leaf records nothing -/
theorem processTru_nosym (anno : Nat → SI) (t : Tru) (bs : Bounds) (res : Bounds × BalOut)
    (h : processTru anno t bs = .ok res) (hs : symBV t.lhs = false) : res.1 = bs := by
  unfold processTru at h
  obtain ⟨out, hout, h⟩ := bindM_ok h
  obtain ⟨bs', hbs', h⟩ := bindM_ok h
  have := pureM_ok h; subst this
  have hso : symBV out.t.lhs = false := by
    by_contra hc
    have hc' : symBV out.t.lhs = true := by simpa using hc
    unfold balance1 at hout
    have := balLoop_sym_back anno _ t false false out hout hc'
    rw [hs] at this; cases this
  unfold handle at hbs'
  rw [card_nonsym anno out.t.lhs hso] at hbs'
  obtain ⟨c, hc, hbs'⟩ := bindM_ok hbs'
  have := pureM_ok hc; subst this
  simp only [if_true] at hbs'
  exact pureM_ok hbs'

theorem mkCmpT_lhs (op : CmpOp) (l : BV) (r w : Nat) (t : Tru) (h : mkCmpT op l r w = .tru t) : t.lhs = l := by
  unfold mkCmpT at h
  split at h
  · cases h
  · cases h; rfl

theorem mkUGE_nosym (e : BV) (r w : Nat) : symBV e = false → ∀ t, mkUGE e r w = .tru t → symBV t.lhs = false := by
  fun_induction mkUGE e r w with
  | case1 k a r w hg ih => intro hs t ht; exact ih (by simpa [symBV] using hs) t ht
  | case2 k a r w hg => intro _ t ht; cases ht
  | case3 k a r w hg ih => intro hs t ht; exact ih (by simpa [symBV] using hs) t ht
  | case4 k a r w hg => intro _ t ht; cases ht
  | case5 e r w h1 h2 => intro hs t ht; rw [mkCmpT_lhs _ _ _ _ _ ht]; exact hs

theorem mkCmp_nosym (op : CmpOp) (e : BV) (r w : Nat) (hs : symBV e = false) (t : Tru) (h : mkCmp op e r w = .tru t) :
    symBV t.lhs = false := by
  unfold mkCmp at h
  split at h
  · exact mkUGE_nosym e r w hs t h
  · rw [mkCmpT_lhs _ _ _ _ _ h]; exact hs

theorem assumption_nosym (t : Tru) (hs : symBV t.lhs = false) (ta : Tru) (h : assumption t = some (.tru ta)) :
    symBV ta.lhs = false := by
  unfold assumption at h
  split at h <;> first | (cases h) | (simp only [Option.some.injEq] at h; exact mkCmp_nosym _ _ _ _ hs ta h)

theorem cardNE_nonsym (anno : Nat → SI) (e : BV) (c : Nat) (hs : symBV e = false) (h : cardNE anno e = .ok c) : c = 1 := by
  unfold cardNE at h
  rw [card_nonsym anno e hs] at h
  obtain ⟨c', hc', h⟩ := bindM_ok h
  have := pureM_ok hc'; subst this
  simp only [Nat.one_ne_zero, if_false] at h
  exact (pureM_ok h)

/-- **two non-symbolic sides**: the model of `_doit` records no bound -/
theorem doit_nosym_nil (anno : Nat → SI) (op : CmpOp) (a b : BV) (bs : Bounds) (info : PathInfo)
    (hsa : symBV a = false) (hsb : symBV b = false)
    (h : doit anno (.cmp op a b) = .ok (.sat bs info)) : bs = [] := by
  unfold doit at h
  obtain ⟨tv, _, h⟩ := bindM_ok h
  by_cases htv : tv = .f
  · rw [if_pos htv] at h; cases h
  · rw [if_neg htv] at h
    obtain ⟨ca, hca, h⟩ := bindM_ok h
    obtain ⟨cb, hcb, h⟩ := bindM_ok h
    have hca1 := cardNE_nonsym anno a ca hsa hca
    have hcb1 := cardNE_nonsym anno b cb hsb hcb
    subst hca1; subst hcb1
    rw [if_neg (by omega)] at h
    obtain ⟨T, hT, h⟩ := bindM_ok h
    unfold adjust at hT
    rw [if_neg (by omega)] at hT
    cases b with
    | const r w =>
      have hTT := pureM_ok hT
      subst hTT
      dsimp only at h
      obtain ⟨p1, hp1, h⟩ := bindM_ok h
      have e1 := processTru_nosym anno _ [] p1 hp1 hsa
      cases hA : assumption ⟨op, a, r, w⟩ with
      | none => rw [hA] at h; have := pureM_ok h; cases this; exact e1
      | some A =>
        rw [hA] at h
        dsimp only at h
        by_cases hAc : A.toB = BExp.cmp op a (.const r w)
        · rw [if_pos hAc] at h; have := pureM_ok h; cases this; exact e1
        · rw [if_neg hAc] at h
          obtain ⟨av, _, h⟩ := bindM_ok h
          by_cases hav : av = .f
          · rw [if_pos hav] at h; cases h
          · rw [if_neg hav] at h
            cases A with
            | lit _ => have := pureM_ok h; cases this; exact e1
            | tru ta =>
              dsimp only at h
              obtain ⟨_, _, h⟩ := bindM_ok h
              obtain ⟨p2, hp2, h⟩ := bindM_ok h
              have := pureM_ok h; cases this
              have hsta := assumption_nosym ⟨op, a, r, w⟩ hsa ta hA
              rw [processTru_nosym anno ta p1.1 p2 hp2 hsta]; exact e1
    | _ => cases hT

end Claripy.VSA.Bal
