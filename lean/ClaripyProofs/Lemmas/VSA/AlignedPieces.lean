import ClaripyProofs.Lemmas.VSA.MulAux
import ClaripyProofs.Lemmas.VSA.Psplit
/-! The pieces `_psplit` makes of an aligned interval are aligned (their upper bounds are members). -/
namespace Claripy.VSA

theorem aligned_new (w st l u : Nat) (hl : l < 2 ^ w) (hu : u < 2 ^ w) (hd : st ∣ cd (2 ^ w) l u) :
    (SI.new w st (l : Int) (u : Int)).Aligned := by
  unfold SI.Aligned SI.span
  rw [new_eq, imod_of_lt _ _ hl, imod_of_lt _ _ hu]
  by_cases he : l = u
  · rw [if_pos he]; left; rfl
  · rw [if_neg he]
    by_cases ht : l = (u + 1) % 2 ^ w ∧ st = 1
    · rw [if_pos ht]; right
      show modSub _ _ _ % st = 0
      rw [ht.2]; exact Nat.mod_one _
    · rw [if_neg ht]; right
      show modSub (u : Int) (l : Int) w % st = 0
      rw [modSub_nat _ _ _ hu hl]
      exact Nat.mod_eq_zero_of_dvd hd

theorem aligned_dvd (X : SI) (hX : X.WF) (hal : X.Aligned) : X.stride ∣ cd (2 ^ X.bits) X.lb X.ub := by
  obtain ⟨_, hl, hu, hst⟩ := hX
  unfold SI.Aligned SI.span at hal
  rw [modSub_nat _ _ _ hu hl] at hal
  rcases hal with h | h
  · rw [h, (hst.1 h), cd_self]
  · exact Nat.dvd_of_mod_eq_zero h

theorem renorm_aligned (X : SI) (hX : X.WF) (hal : X.Aligned) : X.renorm.Aligned := by
  unfold SI.renorm
  split
  · exact hal
  · exact aligned_new _ _ _ _ hX.2.1 hX.2.2.1 (aligned_dvd X hX hal)

/-- the distance from a point `d` steps after `l` to `u` -/
theorem cd_shift (N l u d : Nat) (hl : l < N) (hu : u < N) (hd : d ≤ cd N l u) :
    cd N ((l + d) % N) u = cd N l u - d := by
  have hlt := cd_lt N l u hl hu
  have hm : (l + d) % N = l + d ∨ (l + d) % N + N = l + d := by
    by_cases h : l + d < N
    · left; exact Nat.mod_eq_of_lt h
    · right
      have : l + d = (l + d - N) + N := by omega
      rw [this, Nat.add_mod_right, Nat.mod_eq_of_lt (by omega)]
  generalize (l + d) % N = z at *
  unfold cd at *
  split_ifs at * <;> omega

/-- the pieces of `_ssplit` of an aligned interval -/
theorem ssplit_aligned (X : SI) (hX : X.WF) (hal : X.Aligned) (l : List SI) (hl : X.ssplit = .ok l) :
    ∀ q, q ∈ l → q.Aligned := by
  by_cases hwrap : X.ub < X.lb
  · have hsp := ssplit_wrap X hX hwrap
    have hsd := aligned_dvd X hX hal
    obtain ⟨h0, hlb, hub, hst⟩ := hX
    simp only [] at hsp
    have hsne : X.stride ≠ 0 := by intro h; have := hst.1 h; omega
    generalize hK : (2 ^ X.bits - 1 - X.lb) - (2 ^ X.bits - 1 - X.lb) % X.stride = K at hsp
    have hK1 : X.stride ∣ K := by rw [← hK]; exact Nat.dvd_sub_mod _
    have hK3 : K ≤ 2 ^ X.bits - 1 - X.lb := by rw [← hK]; exact Nat.sub_le _ _
    have hlk : X.lb + K < 2 ^ X.bits := by omega
    have hA : (SI.new X.bits X.stride (X.lb : Int) ((X.lb + K : Nat) : Int)).Aligned := by
      apply aligned_new _ _ _ _ hlb hlk
      have : cd (2 ^ X.bits) X.lb (X.lb + K) = K := by unfold cd; split_ifs <;> omega
      rw [this]; exact hK1
    rw [hsp] at hl
    split at hl
    · cases hl
      intro q hq
      rw [List.mem_singleton] at hq
      rw [hq]; exact hA
    · rename_i hbr
      cases hl
      intro q hq
      rcases List.mem_cons.1 hq with h | h
      · rw [h]; exact hA
      · rw [List.mem_singleton] at h
        rw [h]
        apply aligned_new _ _ _ _ (Nat.mod_lt _ (two_pow_pos' _)) hub
        have hle : K + X.stride ≤ cd (2 ^ X.bits) X.lb X.ub := by omega
        rw [Nat.add_assoc, cd_shift _ _ _ _ hlb hub hle]
        exact Nat.dvd_sub hsd (Nat.dvd_add hK1 (Nat.dvd_refl _))
  · have hsp : X.ssplit = .ok [X.renorm] := by unfold SI.ssplit; rw [if_neg hwrap]; rfl
    rw [hsp] at hl; cases hl
    intro q hq
    have : q = X.renorm := by simpa using hq
    rw [this]; exact renorm_aligned X hX hal

/-- the pieces of `_nsplit` of an aligned interval -/
theorem nsplit_aligned (X : SI) (hX : X.WF) (hal : X.Aligned) (l : List SI) (hl : X.nsplit = .ok l) :
    ∀ q, q ∈ l → q.Aligned := by
  by_cases hstr : (if X.ub ≥ 2 ^ (X.bits - 1) then (decide (X.lb > X.ub) || decide (X.lb ≤ maxInt (X.bits - 1)))
          else (decide (X.lb > X.ub) && decide (X.lb ≤ maxInt (X.bits - 1)))) = true
  · have hsne : X.stride ≠ 0 := by
      intro h0
      have he := hX.2.2.2.1 h0
      have := two_pow_pos' (X.bits - 1)
      unfold maxInt at hstr
      split_ifs at hstr <;> simp at hstr <;> omega
    have hns := nsplit_straddle X hX hsne hstr
    have hsd := aligned_dvd X hX hal
    obtain ⟨h0, hlb, hub, hst⟩ := hX
    simp only [] at hns
    generalize hD : cd (2 ^ X.bits) X.lb (2 ^ (X.bits - 1) - 1) = D at hns
    generalize hK : D - D % X.stride = K at hns
    have hK1 : X.stride ∣ K := by rw [← hK]; exact Nat.dvd_sub_mod _
    have hKD : K ≤ D := by rw [← hK]; exact Nat.sub_le _ _
    have hH := two_pow_pos' (X.bits - 1)
    have hm2 := two_pow_half X.bits h0
    have hDlt : D < 2 ^ X.bits := by rw [← hD]; exact cd_lt _ _ _ hlb (by omega)
    have hA : (SI.new X.bits X.stride (X.lb : Int) (((X.lb + K) % 2 ^ X.bits : Nat) : Int)).Aligned := by
      apply aligned_new _ _ _ _ hlb (Nat.mod_lt _ (two_pow_pos' _))
      rw [cd_add_right _ _ _ hlb (by omega)]; exact hK1
    rw [hns] at hl
    split at hl
    · cases hl
      intro q hq
      rw [List.mem_singleton] at hq
      rw [hq]; exact hA
    · rename_i hbr
      cases hl
      intro q hq
      rcases List.mem_cons.1 hq with h | h
      · rw [h]; exact hA
      · rw [List.mem_singleton] at h
        rw [h]
        apply aligned_new _ _ _ _ (Nat.mod_lt _ (two_pow_pos' _)) hub
        have hle : K + X.stride ≤ cd (2 ^ X.bits) X.lb X.ub := by omega
        rw [Nat.add_assoc, cd_shift _ _ _ _ hlb hub hle]
        exact Nat.dvd_sub hsd (Nat.dvd_add hK1 (Nat.dvd_refl _))
  · have hns : X.nsplit = .ok [X.renorm] := by
      unfold SI.nsplit
      simp only []
      rw [if_neg hstr]; rfl
    rw [hns] at hl; cases hl
    intro q hq
    have : q = X.renorm := by simpa using hq
    rw [this]; exact renorm_aligned X hX hal

/-- **the pieces of `_psplit` of an aligned interval are aligned** -/
theorem psplit_aligned (s : SI) (hw : s.WF) (hnb : s.bottom = false) (hn : s.renorm = s) (hal : s.Aligned)
    (ps : List SI) (h : s.psplit = .ok ps) : ∀ q, q ∈ ps → q.Aligned := by
  obtain ⟨ns, hns, hnp, _⟩ := nsplit_cover s hw hnb hn
  have hna := nsplit_aligned s hw hal ns hns
  obtain ⟨out, ho, hout⟩ := ssplitAll_spec (fun p => p.WF ∧ p.bottom = false)
    (fun p hp => by obtain ⟨l, hl, _⟩ := ssplit_spec p hp.1 hp.2; exact ⟨l, hl⟩) ns []
    (fun p hp => ⟨(hnp p hp).1.1, (hnp p hp).2.1⟩)
  rw [psplit_eq, hns] at h
  have : ps = out := by
    have h' : ssplitAll ns [] = .ok ps := h
    rw [ho] at h'; cases h'; rfl
  subst this
  intro q hq
  rcases (hout q).1 hq with h1 | ⟨p, l, hp, hl, hql⟩
  · cases h1
  · exact ssplit_aligned p (hnp p hp).1.1 (hna p hp) l hl q hql

end Claripy.VSA
