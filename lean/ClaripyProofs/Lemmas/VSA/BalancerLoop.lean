import ClaripyProofs.Lemmas.VSA.BalancerArms
/-!
`_balance_signext`, `_balance_add`, `_balance_sub` against the concrete meaning; the dispatch `balStep`; the loop `balLoop`.
-/
set_option linter.unusedSectionVars false
namespace Claripy.VSA.Bal
open Claripy.VSA

/-! ### arithmetic of the rotation -/

theorem sub_neg_eq_add (w r c : Nat) (hc : c < 2 ^ w) : Conc.sub w r ((2 ^ w - c) % 2 ^ w) = Conc.add w r c := by
  unfold Conc.sub Conc.add
  have hm := two_pow_pos' w
  generalize 2 ^ w = m at *
  by_cases h0 : c = 0
  · subst h0; simp
  · have e1 : (m - c) % m = m - c := Nat.mod_eq_of_lt (by omega)
    rw [e1, e1]
    have : m - (m - c) = c := by omega
    rw [this]

theorem sub_zero' (w r : Nat) (hr : r < 2 ^ w) : Conc.sub w r 0 = r := by
  unfold Conc.sub
  simp [Nat.mod_eq_of_lt hr]

theorem add_zero' (w v : Nat) (hv : v < 2 ^ w) : Conc.add w v 0 = v := by
  unfold Conc.add
  simp [Nat.mod_eq_of_lt hv]

theorem add_assoc' (w v c c' : Nat) : Conc.add w (Conc.add w v c') c = Conc.add w v (Conc.add w c c') := by
  unfold Conc.add
  rw [Nat.mod_add_mod, Nat.add_mod_mod]
  congr 1; omega

theorem sub_sub' (w r c c' : Nat) (hr : r < 2 ^ w) (hc : c < 2 ^ w) (hc' : c' < 2 ^ w) :
    Conc.sub w (Conc.sub w r c) c' = Conc.sub w r (Conc.add w c c') := by
  unfold Conc.sub Conc.add
  have hm := two_pow_pos' w
  generalize 2 ^ w = m at *
  rw [Nat.mod_eq_of_lt hc, Nat.mod_eq_of_lt hc', Nat.mod_mod]
  by_cases h1 : c = 0
  · subst h1
    simp only [Nat.sub_zero, Nat.add_mod_right, Nat.mod_eq_of_lt hr, Nat.zero_add, Nat.mod_eq_of_lt hc']
  · by_cases h2 : c' = 0
    · subst h2
      simp only [Nat.sub_zero, Nat.add_mod_right, Nat.add_zero, Nat.mod_eq_of_lt hc, Nat.mod_mod]
    · rw [add_mod_cases r (m - c) m hr (by omega), add_mod_cases c c' m hc hc']
      split_ifs with h3 h4 h4
      · rw [add_mod_cases _ (m - c') m (by omega) (by omega), add_mod_cases r _ m hr (by omega)]
        split_ifs <;> omega
      · rw [add_mod_cases _ (m - c') m (by omega) (by omega)]
        by_cases h5 : c + c' - m = 0
        · rw [h5]; simp only [Nat.sub_zero, Nat.add_mod_right, Nat.mod_eq_of_lt hr]
          split_ifs <;> omega
        · rw [add_mod_cases r _ m hr (by omega)]
          split_ifs <;> omega
      · rw [add_mod_cases _ (m - c') m (by omega) (by omega), add_mod_cases r _ m hr (by omega)]
        split_ifs <;> omega
      · rw [add_mod_cases _ (m - c') m (by omega) (by omega)]
        by_cases h5 : c + c' - m = 0
        · rw [h5]; simp only [Nat.sub_zero, Nat.add_mod_right, Nat.mod_eq_of_lt hr]
          split_ifs <;> omega
        · rw [add_mod_cases r _ m hr (by omega)]
          split_ifs <;> omega

/-- `t'` is `t` with the left side rotated back by a constant `c` and the other side moved by the same constant:
`value(t.lhs) = value(t'.lhs) + c` and `t'.r = t.r - c` (mod `2^w`) -/
def Rot (env : Nat → Nat) (t t' : Tru) : Prop :=
  t'.op = t.op ∧ t'.w = t.w ∧ ∃ c, c < 2 ^ t.w ∧ t'.r = Conc.sub t.w t.r c ∧
    ∀ v', evalBV env t'.lhs = some v' → v' < 2 ^ t.w → evalBV env t.lhs = some (Conc.add t.w v' c)

theorem Rot_refl (env : Nat → Nat) (t : Tru) (hr : t.r < 2 ^ t.w) : Rot env t t :=
  ⟨rfl, rfl, 0, two_pow_pos' _, (sub_zero' _ _ hr).symm, fun v' hv hlt => by rw [add_zero' _ _ hlt]; exact hv⟩

theorem Rot_trans (env : Nat → Nat) (t t' t'' : Tru) (hr : t.r < 2 ^ t.w) (h1 : Rot env t t') (h2 : Rot env t' t'')
    (hval : ∀ v'', evalBV env t''.lhs = some v'' → v'' < 2 ^ t.w → ∃ v', evalBV env t'.lhs = some v' ∧ v' < 2 ^ t.w) :
    Rot env t t'' := by
  obtain ⟨ho1, hw1, c, hc, hr1, he1⟩ := h1
  obtain ⟨ho2, hw2, c', hc', hr2, he2⟩ := h2
  rw [hw1] at hc' hr2 he2
  refine ⟨by rw [ho2, ho1], by rw [hw2, hw1], Conc.add t.w c c', conc_add_lt _ _ _, ?_, ?_⟩
  · rw [hr2, hr1, sub_sub' t.w t.r c c' hr hc hc']
  · intro v'' hv'' hlt
    obtain ⟨v', hv', hlt'⟩ := hval v'' hv'' hlt
    have := he2 v'' hv'' hlt
    rw [hv'] at this
    cases this
    rw [he1 _ hv' (conc_add_lt _ _ _), add_assoc']

/-- a rotation is an equivalence for `==` and `!=` -/
theorem Rot_eq_holds (env : Nat → Nat) (t t' : Tru) (hop : t.op = .eq ∨ t.op = .ne) (hr : t.r < 2 ^ t.w) (h : Rot env t t')
    (hh : t.holds env) (v' : Nat) (hv' : evalBV env t'.lhs = some v') (hlt : v' < 2 ^ t.w) : t'.holds env := by
  obtain ⟨ho, hw, c, hc, hr', he⟩ := h
  obtain ⟨v, hv, hcmp⟩ := hh
  rw [he v' hv' hlt] at hv
  cases hv
  refine ⟨v', hv', ?_⟩
  rw [ho, hw, hr']
  have key := add_eq_move t.w v' c t.r hlt hc hr
  rcases hop with h | h <;> rw [h] at hcmp ⊢ <;> simp only [concCmp, decide_eq_true_eq] at hcmp ⊢
  · exact key.1 hcmp
  · intro hcon; exact hcmp (key.2 hcon)


section
variable (anno : Nat → SI) (env : Nat → Nat) (hctx : ∀ i, (anno i).WF ∧ (anno i).mem (env i)) (hnrm : ∀ i, Nrm (anno i))
include hctx hnrm

/-- `_balance_add`: unchanged, or a rotation -/
theorem balAdd_rot (t t' : Tru) (a b : BV) (hl : t.lhs = .bin .add a b) (hok : TruOK anno env t)
    (hconv : ∃ p, convBV anno t.lhs [] = .ok p) (h : balAdd t a b = .ok t') (hs : symBV t'.lhs = true) :
    t' = t ∨ (TruOK anno env t' ∧ Rot env t t' ∧ ∀ v', evalBV env t'.lhs = some v' → v' < 2 ^ t.w) := by
  obtain ⟨hoa, hob, hwab⟩ := ok_bin (hl ▸ hok.ok)
  have hwa : wd a = t.w := by rw [← hok.wd_eq, hl]; rfl
  obtain ⟨p, hp⟩ := hconv
  rw [hl] at hp
  obtain ⟨qa, hqa⟩ := conv_bin_left anno _ _ _ [] p hp
  obtain ⟨ob, qb, hqb⟩ := conv_bin_right anno _ _ _ [] p hp
  obtain ⟨x, hx⟩ := exprOK_val anno env a hoa
  obtain ⟨y, hy⟩ := exprOK_val anno env b hob
  obtain ⟨_, _, _, hxlt, _⟩ := conv_val anno env hctx hnrm a hoa [] qa hqa x hx
  obtain ⟨_, _, _, hylt, _⟩ := conv_val anno env hctx hnrm b hob ob qb hqb y hy
  have hlv : evalBV env t.lhs = some (Conc.add t.w x y) := by
    rw [hl, evalBV_bin env .add a b x y hx hy, hwa]; rfl
  unfold balAdd at h
  have hsl := hok.sym
  rw [hl] at hsl
  simp only [symBV, Bool.or_eq_true] at hsl
  cases hsa : symBV a <;> cases hsb : symBV b <;> simp only [hsa, hsb, Bool.not_true, Bool.not_false, Bool.and_self,
    Bool.and_false, Bool.and_true, Bool.false_eq_true, if_false, if_true] at h hsl
  · rcases hsl with h0 | h0 <;> cases h0
  · -- a concrete, b symbolic
    obtain ⟨va, hva, h⟩ := bindM_ok h
    have := pureM_ok h; subst this
    obtain ⟨_, hva'⟩ := valOf_spec env a va hva
    rw [hx] at hva'; cases hva'
    refine Or.inr ⟨⟨hob, hsb, by simp only; rw [← hwab]; exact hwa, conc_sub_lt _ _ _⟩, ⟨rfl, rfl, x, by rw [← hwa]; exact hxlt, rfl, ?_⟩, ?_⟩
    · intro v' hv' _
      simp only at hv'
      rw [hy] at hv'; cases hv'
      rw [hlv, add_comm']
    · intro v' hv'
      simp only at hv'
      rw [hy] at hv'; cases hv'
      rw [← hwa, hwab]; exact hylt
  · -- a symbolic, b concrete
    obtain ⟨vb, hvb, h⟩ := bindM_ok h
    have := pureM_ok h; subst this
    obtain ⟨_, hvb'⟩ := valOf_spec env b vb hvb
    rw [hy] at hvb'; cases hvb'
    refine Or.inr ⟨⟨hoa, hsa, hwa, conc_sub_lt _ _ _⟩, ⟨rfl, rfl, y, by rw [← hwa, hwab]; exact hylt, rfl, ?_⟩, ?_⟩
    · intro v' hv' _
      simp only at hv'
      rw [hx] at hv'; cases hv'
      exact hlv
    · intro v' hv'
      simp only at hv'
      rw [hx] at hv'; cases hv'
      rw [← hwa]; exact hxlt
  · -- both symbolic
    have := pureM_ok h; subst this
    exact Or.inl rfl

/-- `_balance_sub`: unchanged, or a rotation -/
theorem balSub_rot (t t' : Tru) (a b : BV) (hl : t.lhs = .bin .sub a b) (hok : TruOK anno env t)
    (hconv : ∃ p, convBV anno t.lhs [] = .ok p) (h : balSub t a b = .ok t') (hs : symBV t'.lhs = true) :
    t' = t ∨ (TruOK anno env t' ∧ Rot env t t' ∧ ∀ v', evalBV env t'.lhs = some v' → v' < 2 ^ t.w) := by
  obtain ⟨hoa, hob, hwab⟩ := ok_bin (hl ▸ hok.ok)
  have hwa : wd a = t.w := by rw [← hok.wd_eq, hl]; rfl
  obtain ⟨p, hp⟩ := hconv
  rw [hl] at hp
  obtain ⟨ob, qb, hqb⟩ := conv_bin_right anno _ _ _ [] p hp
  obtain ⟨qa, hqa⟩ := conv_bin_left anno _ _ _ [] p hp
  obtain ⟨x, hx⟩ := exprOK_val anno env a hoa
  obtain ⟨y, hy⟩ := exprOK_val anno env b hob
  obtain ⟨_, _, _, hxlt, _⟩ := conv_val anno env hctx hnrm a hoa [] qa hqa x hx
  obtain ⟨_, _, _, hylt, _⟩ := conv_val anno env hctx hnrm b hob ob qb hqb y hy
  have hyw : y < 2 ^ t.w := by rw [← hwa, hwab]; exact hylt
  have hlv : evalBV env t.lhs = some (Conc.sub t.w x y) := by
    rw [hl, evalBV_bin env .sub a b x y hx hy, hwa]; rfl
  unfold balSub at h
  by_cases hsb : symBV b = true
  · rw [if_pos hsb] at h
    have := pureM_ok h; subst this
    exact Or.inl rfl
  · rw [if_neg hsb] at h
    obtain ⟨vb, hvb, h⟩ := bindM_ok h
    have := pureM_ok h; subst this
    obtain ⟨_, hvb'⟩ := valOf_spec env b vb hvb
    rw [hy] at hvb'; cases hvb'
    simp only at hs
    refine Or.inr ⟨⟨hoa, hs, hwa, conc_add_lt _ _ _⟩, ⟨rfl, rfl, (2 ^ t.w - y) % 2 ^ t.w, Nat.mod_lt _ (two_pow_pos' _), ?_, ?_⟩, ?_⟩
    · simp only; rw [sub_neg_eq_add t.w t.r y hyw]
    · intro v' hv' _
      simp only at hv'
      rw [hx] at hv'; cases hv'
      rw [hlv, sub_as_add t.w x y hyw]
    · intro v' hv'
      simp only at hv'
      rw [hx] at hv'; cases hv'
      rw [← hwa]; exact hxlt

/-- `_balance_signext` -/
theorem balSext_pt (t t' : Tru) (k : Nat) (e : BV) (hl : t.lhs = .sext k e) (hok : TruOK anno env t) (hop : unsOp t.op = true)
    (hh : t.holds env) (h : balSext anno t k e = .ok t') (hs : symBV t'.lhs = true) :
    TruOK anno env t' ∧ t'.holds env := by
  have hoe : ExprOK anno env e := ok_sext (hl ▸ hok.ok)
  have hw : t.w = k + wd e := by rw [← hok.wd_eq, hl]; rfl
  have hpos : 0 < wd e := wd_pos anno env (fun i => (hctx i).1) e hoe.1
  have hwk : t.w - k = wd e := by omega
  unfold balSext at h
  obtain ⟨p, hp, h⟩ := bindM_ok h
  have hp := liftR_ok hp
  have hres := pureM_ok h
  by_cases hid : siIdentical p.1.si (SI.new (t.w - 1 + 1 - (t.w - k)) 0 (Conc.extract (t.w - 1) (t.w - k) t.r)
      (Conc.extract (t.w - 1) (t.w - k) t.r)) = true
  · rw [if_pos hid] at hres
    subst hres
    simp only at hs
    by_cases hk0 : k = 0
    · -- no extension bits: the node is the operand (not built by claripy; kept for completeness)
      subst hk0
      obtain ⟨v, hv, hc⟩ := hh
      obtain ⟨x, hx⟩ := exprOK_val anno env e hoe
      have hlsym : symBV t.lhs = true := hok.sym
      rw [foldBV_sym _ (by simpa [symBV] using hlsym)] at hp
      obtain ⟨q, hq⟩ := conv_extract_inner anno _ _ _ [] p hp
      have hokl := hok.ok
      obtain ⟨_, _, _, hvlt, _⟩ := conv_val anno env hctx hnrm t.lhs hokl [] q hq v hv
      rw [hok.wd_eq] at hvlt
      have hr' : Conc.extract (t.w - 0 - 1) 0 t.r = t.r := low_id (t.w - 0) t.r (by omega) (by simpa using hok.r_lt)
      have hvx : v = x := by
        rw [hl] at hv
        simp only [evalBV, hx, Option.bind_eq_bind, Option.bind_some, Option.some.injEq] at hv
        have hxlt : x < 2 ^ wd e := by
          obtain ⟨q', hq'⟩ : ∃ q', convBV anno e [] = .ok q' := by
            rw [hl] at hq; simp only [convBV] at hq
            obtain ⟨q', hq', _⟩ := bind_ok _ _ _ hq
            exact ⟨q', hq'⟩
          exact (conv_val anno env hctx hnrm e hoe [] q' hq' x hx).2.2.2.1
        rw [← hv, sext_val (wd e) (0 + wd e) x hpos hxlt (by omega)]
        have : 2 ^ (0 + wd e) - 2 ^ wd e = 0 := by rw [Nat.zero_add]; omega
        rw [this]
        split_ifs <;> omega
      subst hvx
      refine ⟨⟨hoe, hs, by simp only; omega, by simp only; rw [hr']; simpa using hok.r_lt⟩, v, hx, ?_⟩
      simp only; rw [hr', concCmp_uns t.op _ t.w v t.r hop]; exact hc
    · have hkw : t.w - 1 + 1 - (t.w - k) = k := by omega
      rw [hkw] at hid
      obtain ⟨v, hv, hc⟩ := hh
      obtain ⟨x, hx⟩ := exprOK_val anno env e hoe
      have hlsym : symBV t.lhs = true := hok.sym
      rw [foldBV_sym _ (by simpa [symBV] using hlsym)] at hp
      have hokx : ExprOK anno env (.extract (t.w - 1) (t.w - k) t.lhs) :=
        ok_mk_extract hok.ok (by omega) (by rw [hok.wd_eq]; omega)
      have hxv : evalBV env (.extract (t.w - 1) (t.w - k) t.lhs) = some (Conc.extract (t.w - 1) (t.w - k) v) := by
        simp [evalBV, hv]
      obtain ⟨hwf, _, hmem, _, _⟩ := conv_val anno env hctx hnrm _ hokx [] p hp _ hxv
      obtain ⟨q, hq⟩ := conv_extract_inner anno _ _ _ [] p hp
      obtain ⟨_, _, _, hvlt, _⟩ := conv_val anno env hctx hnrm t.lhs hok.ok [] q hq v hv
      rw [hok.wd_eq] at hvlt
      -- the abstract value of the extension bits is the singleton of the high bits of the other side
      set hb := Conc.extract (t.w - 1) (t.w - k) t.r with hbdef
      have hblt : hb < 2 ^ k := by
        rw [hbdef]; unfold Conc.extract; rw [hkw]; exact Nat.mod_lt _ (two_pow_pos' k)
      simp only [siIdentical, Bool.and_eq_true, decide_eq_true_eq] at hid
      obtain ⟨⟨⟨_, _⟩, hlb⟩, hub⟩ := hid
      have hnew : (SI.new k 0 (hb : Int) (hb : Int)).lb = hb ∧ (SI.new k 0 (hb : Int) (hb : Int)).ub = hb := by
        rw [new_eq]; simp [imod_of_lt hb k hblt]
      have hext : Conc.extract (t.w - 1) (t.w - k) v = hb := by
        have := mem_integer p.1.si _ hwf (by rw [hlb, hub, hnew.1, hnew.2]) hmem
        rw [this, hlb, hnew.1]
      -- same high bits
      have hdiv : v / 2 ^ (t.w - k) = t.r / 2 ^ (t.w - k) := by
        have h1 : Conc.extract (t.w - 1) (t.w - k) v = v / 2 ^ (t.w - k) := by
          unfold Conc.extract; rw [hkw, Nat.shiftRight_eq_div_pow]
          apply Nat.mod_eq_of_lt; apply Nat.div_lt_of_lt_mul; rw [← Nat.pow_add]
          have : t.w - k + k = t.w := by omega
          rw [this]; exact hvlt
        have h2 : hb = t.r / 2 ^ (t.w - k) := by
          rw [hbdef]; unfold Conc.extract; rw [hkw, Nat.shiftRight_eq_div_pow]
          apply Nat.mod_eq_of_lt; apply Nat.div_lt_of_lt_mul; rw [← Nat.pow_add]
          have : t.w - k + k = t.w := by omega
          rw [this]; exact hok.r_lt
        rw [← h1, hext, h2]
      obtain ⟨q', hq'⟩ : ∃ q', convBV anno e [] = .ok q' := by
        rw [hl] at hq; simp only [convBV] at hq
        obtain ⟨q', hq', _⟩ := bind_ok _ _ _ hq
        exact ⟨q', hq'⟩
      have hxlt : x < 2 ^ wd e := (conv_val anno env hctx hnrm e hoe [] q' hq' x hx).2.2.2.1
      have hvx : v % 2 ^ (t.w - k) = x := by
        rw [hl] at hv
        simp only [evalBV, hx, Option.bind_eq_bind, Option.bind_some, Option.some.injEq] at hv
        rw [← hv, hwk, sext_val (wd e) (k + wd e) x hpos hxlt (by omega)]
        split_ifs
        · exact Nat.mod_eq_of_lt hxlt
        · have hp2 : 2 ^ (k + wd e) - 2 ^ wd e = 2 ^ wd e * (2 ^ k - 1) := by
            rw [Nat.pow_add, Nat.mul_sub, Nat.mul_one, Nat.mul_comm]
          rw [hp2, Nat.add_mul_mod_self_left, Nat.mod_eq_of_lt hxlt]
      have hr' : Conc.extract (t.w - k - 1) 0 t.r = t.r % 2 ^ (t.w - k) := by
        unfold Conc.extract
        have : t.w - k - 1 + 1 - 0 = t.w - k := by omega
        rw [this, Nat.shiftRight_zero]
      refine ⟨⟨hoe, hs, hwk.symm, by simp only; rw [hr']; exact Nat.mod_lt _ (two_pow_pos' _)⟩, x, hx, ?_⟩
      simp only; rw [hr', ← hvx, ← same_high t.op t.w (t.w - k) k v t.r hop hdiv]; exact hc
  · rw [if_neg hid] at hres
    subst hres
    exact ⟨hok, hh⟩

end

end Claripy.VSA.Bal
