import Claripy.VSA.DSIS
/-! Generic lifting: an operation that is sound on every pair of members is sound on sets of intervals
(`apply_on_each_si`), through de-duplication, re-ordering, `normalize` and `collapse`; and per region on value sets. -/
namespace Claripy.VSA

theorem mapM_ok_mem {α β : Type} (f : α → R β) :
    ∀ (l : List α) (L : List β), l.mapM f = .ok L → ∀ x, x ∈ l → ∃ r, r ∈ L ∧ f x = .ok r := by
  intro l
  induction l with
  | nil => intro L _ x hx; cases hx
  | cons a t ih =>
    intro L h x hx
    rw [List.mapM_cons] at h
    cases hfa : f a with
    | error e => rw [hfa] at h; cases h
    | ok ra =>
      rw [hfa] at h
      cases ht : t.mapM f with
      | error e => rw [ht] at h; cases h
      | ok Lt =>
        rw [ht] at h
        have hL : L = ra :: Lt := by cases h; rfl
        subst hL
        cases hx with
        | head => exact ⟨ra, List.mem_cons_self, hfa⟩
        | tail _ hx' =>
          obtain ⟨r, hr, hfr⟩ := ih Lt ht x hx'
          exact ⟨r, List.mem_cons_of_mem _ hr, hfr⟩

theorem mapM_ok_mem_rev {α β : Type} (f : α → R β) :
    ∀ (l : List α) (L : List β), l.mapM f = .ok L → ∀ r, r ∈ L → ∃ x, x ∈ l ∧ f x = .ok r := by
  intro l
  induction l with
  | nil =>
    intro L h r hr
    rw [List.mapM_nil] at h
    have : L = [] := by cases h; rfl
    subst this; cases hr
  | cons a t ih =>
    intro L h r hr
    rw [List.mapM_cons] at h
    cases hfa : f a with
    | error e => rw [hfa] at h; cases h
    | ok ra =>
      rw [hfa] at h
      cases ht : t.mapM f with
      | error e => rw [ht] at h; cases h
      | ok Lt =>
        rw [ht] at h
        have hL : L = ra :: Lt := by cases h; rfl
        subst hL
        cases hr with
        | head => exact ⟨a, List.mem_cons_self, hfa⟩
        | tail _ hr' =>
          obtain ⟨x, hx, hfx⟩ := ih Lt ht r hr'
          exact ⟨x, List.mem_cons_of_mem _ hx, hfx⟩

/-- every pair of members has its result in the list `applyEach2` returns -/
theorem applyEach2_mem (op : SI → SI → R SI) (as bs L : List SI) (h : applyEach2 op as bs = .ok L)
    (a b : SI) (ha : a ∈ as) (hb : b ∈ bs) : ∃ r, r ∈ L ∧ op a b = .ok r := by
  unfold applyEach2 at h
  have hp : (a, b) ∈ as.flatMap fun a => bs.map fun b => (a, b) := by
    rw [List.mem_flatMap]
    exact ⟨a, ha, List.mem_map.2 ⟨b, hb, rfl⟩⟩
  exact mapM_ok_mem _ _ _ h (a, b) hp

theorem applyEach1_mem (op : SI → R SI) (as L : List SI) (h : applyEach1 op as = .ok L)
    (a : SI) (ha : a ∈ as) : ∃ r, r ∈ L ∧ op a = .ok r :=
  mapM_ok_mem _ _ _ h a ha

/-- lifting of a per-pair sound operation to lists of intervals -/
theorem applyEach2_sound (op : SI → SI → R SI) (f : Nat → Nat → Nat) (as bs L : List SI)
    (hop : ∀ a b r x y, a ∈ as → b ∈ bs → a.mem x → b.mem y → op a b = .ok r → r.mem (f x y))
    (h : applyEach2 op as bs = .ok L) (x y : Nat) (hx : memL as x) (hy : memL bs y) : memL L (f x y) := by
  obtain ⟨a, ha, hax⟩ := hx
  obtain ⟨b, hb, hby⟩ := hy
  obtain ⟨r, hr, hor⟩ := applyEach2_mem op as bs L h a b ha hb
  exact ⟨r, hr, hop a b r x y ha hb hax hby hor⟩

theorem applyEach1_sound (op : SI → R SI) (f : Nat → Nat) (as L : List SI)
    (hop : ∀ a r x, a ∈ as → a.mem x → op a = .ok r → r.mem (f x))
    (h : applyEach1 op as = .ok L) (x : Nat) (hx : memL as x) : memL L (f x) := by
  obtain ⟨a, ha, hax⟩ := hx
  obtain ⟨r, hr, hor⟩ := applyEach1_mem op as L h a ha
  exact ⟨r, hr, hop a r x ha hax hor⟩

/-! ### the Python set: de-duplication and re-ordering keep every element -/

theorem keyEq_eq (y x : SI)
    (h : (y.bits == x.bits && y.lb == x.lb && y.ub == x.ub && y.stride == x.stride && y.bottom == x.bottom) = true) :
    y = x := by
  cases y; cases x
  simp only [Bool.and_eq_true, beq_iff_eq] at h
  obtain ⟨⟨⟨⟨h1, h2⟩, h3⟩, h4⟩, h5⟩ := h
  simp_all

theorem dedupe_foldl_mem (l : List SI) :
    ∀ (acc : List SI) (s : SI), (s ∈ acc ∨ s ∈ l) →
      s ∈ l.foldl (fun acc x => if acc.any (fun y => y.bits == x.bits && y.lb == x.lb && y.ub == x.ub &&
        y.stride == x.stride && y.bottom == x.bottom) then acc else acc ++ [x]) acc := by
  induction l with
  | nil => intro acc s h; cases h with | inl h => exact h | inr h => cases h
  | cons x t ih =>
    intro acc s h
    rw [List.foldl_cons]
    apply ih
    by_cases hany : acc.any (fun y => y.bits == x.bits && y.lb == x.lb && y.ub == x.ub &&
        y.stride == x.stride && y.bottom == x.bottom) = true
    · rw [if_pos hany]
      cases h with
      | inl h => exact Or.inl h
      | inr h =>
        cases h with
        | head =>
          obtain ⟨y, hy, hk⟩ := List.any_eq_true.1 hany
          have := keyEq_eq y x hk
          subst this
          exact Or.inl hy
        | tail _ h' => exact Or.inr h'
    · rw [if_neg hany]
      cases h with
      | inl h => exact Or.inl (List.mem_append_left _ h)
      | inr h =>
        cases h with
        | head => exact Or.inl (List.mem_append_right _ List.mem_cons_self)
        | tail _ h' => exact Or.inr h'

theorem dedupe_mem (l : List SI) (s : SI) (h : s ∈ l) : s ∈ dedupe l := by
  unfold dedupe
  exact dedupe_foldl_mem l [] s (Or.inr h)

theorem dedupe_foldl_subset (l : List SI) :
    ∀ (acc : List SI) (s : SI),
      s ∈ l.foldl (fun acc x => if acc.any (fun y => y.bits == x.bits && y.lb == x.lb && y.ub == x.ub &&
        y.stride == x.stride && y.bottom == x.bottom) then acc else acc ++ [x]) acc → (s ∈ acc ∨ s ∈ l) := by
  induction l with
  | nil => intro acc s h; exact Or.inl h
  | cons x t ih =>
    intro acc s h
    rw [List.foldl_cons] at h
    have := ih _ s h
    cases this with
    | inr h' => exact Or.inr (List.mem_cons_of_mem _ h')
    | inl h' =>
      split at h'
      · exact Or.inl h'
      · cases List.mem_append.1 h' with
        | inl h'' => exact Or.inl h''
        | inr h'' =>
          have : s = x := by simpa using h''
          subst this
          exact Or.inr List.mem_cons_self

theorem dedupe_subset (l : List SI) (s : SI) (h : s ∈ dedupe l) : s ∈ l := by
  unfold dedupe at h
  cases dedupe_foldl_subset l [] s h with
  | inl h' => cases h'
  | inr h' => exact h'

theorem permute_mem (l l' : List SI) (order : List Nat) (h : permute l order = some l') (s : SI) (hs : s ∈ l) :
    s ∈ l' := by
  unfold permute at h
  split at h
  · cases h
  · rename_i hc
    have hl : l' = order.filterMap fun i => l[i]? := by cases h; rfl
    subst hl
    have hall : (List.range l.length).all (fun i => order.contains i) = true := by
      by_cases hh : (List.range l.length).all (fun i => order.contains i) = true
      · exact hh
      · exfalso; apply hc; right
        cases hb : (List.range l.length).all (fun i => order.contains i) with
        | true => exact absurd hb hh
        | false => rfl
    obtain ⟨i, hi, hget⟩ := List.getElem_of_mem hs
    have hmem : i ∈ List.range l.length := List.mem_range.2 hi
    have := (List.all_eq_true.1 hall) i hmem
    have hio : i ∈ order := by simpa using this
    rw [List.mem_filterMap]
    exact ⟨i, hio, by rw [List.getElem?_eq_getElem hi, hget]⟩

theorem memL_mono (l l' : List SI) (h : ∀ s, s ∈ l → s ∈ l') (x : Nat) (hx : memL l x) : memL l' x := by
  obtain ⟨s, hs, hm⟩ := hx
  exact ⟨s, h s hs, hm⟩

/-! ### collapse: folding a join that contains both arguments -/

/-- a fold of a join `J` over a list contains every member of the start value and of the list, provided `J`
contains both arguments and preserves the invariant `P` (well-formedness, width) -/
theorem foldl_join_sup (J : SI → SI → SI) (P : SI → Prop)
    (hJ : ∀ a b, P a → P b → P (J a b) ∧ ∀ x, (a.mem x ∨ b.mem x) → (J a b).mem x) :
    ∀ (l : List SI) (r : SI), P r → (∀ s, s ∈ l → P s) →
      P (l.foldl J r) ∧ ∀ x, (r.mem x ∨ memL l x) → (l.foldl J r).mem x := by
  intro l
  induction l with
  | nil =>
    intro r hr _
    refine ⟨hr, ?_⟩
    intro x hx
    cases hx with
    | inl h => exact h
    | inr h => obtain ⟨s, hs, _⟩ := h; cases hs
  | cons a t ih =>
    intro r hr hall
    rw [List.foldl_cons]
    have ha := hall a List.mem_cons_self
    obtain ⟨hP, hsup⟩ := hJ r a hr ha
    obtain ⟨hP', hsup'⟩ := ih (J r a) hP (fun s hs => hall s (List.mem_cons_of_mem _ hs))
    refine ⟨hP', ?_⟩
    intro x hx
    apply hsup'
    cases hx with
    | inl h => exact Or.inl (hsup x (Or.inl h))
    | inr h =>
      obtain ⟨s, hs, hm⟩ := h
      cases hs with
      | head => exact Or.inl (hsup x (Or.inr hm))
      | tail _ hs' => exact Or.inr ⟨s, hs', hm⟩

/-! ### cardinality 0 means no members -/

theorem si_card_zero (s : SI) (h : s.cardinality = .ok 0) : s.bottom = true := by
  unfold SI.cardinality at h
  by_cases hb : s.bottom = true
  · exact hb
  · exfalso
    rw [if_neg hb] at h
    split at h
    · cases h
    · split at h
      · cases h
      · rename_i hs
        have h' : (modSub (↑s.ub) (↑s.lb) s.bits + s.stride) / s.stride = 0 := by
          injection h
        have hpos : 0 < s.stride := Nat.pos_of_ne_zero hs
        have := Nat.div_eq_zero_iff.1 h'
        omega

theorem sum_eq_zero (l : List Nat) (h : l.sum = 0) : ∀ n, n ∈ l → n = 0 := by
  induction l with
  | nil => intro n hn; cases hn
  | cons a t ih =>
    intro n hn
    rw [List.sum_cons] at h
    cases hn with
    | head => omega
    | tail _ hn' => exact ih (by omega) n hn'

theorem dsis_card_zero (d : DSIS) (h : d.cardinality = .ok 0) (x : Nat) : ¬ d.mem x := by
  intro ⟨s, hs, hm⟩
  unfold DSIS.cardinality at h
  cases hc : d.sis.mapM SI.cardinality with
  | error e => rw [hc] at h; cases h
  | ok cs =>
    rw [hc] at h
    have hsum : cs.sum = 0 := by
      have : (Except.ok cs.sum : R Nat) = Except.ok 0 := h
      injection this
    obtain ⟨c, hcin, hcs⟩ := mapM_ok_mem _ _ _ hc s hs
    have hc0 := sum_eq_zero cs hsum c hcin
    subst hc0
    have hb := si_card_zero s hcs
    exact absurd hm.1 (by rw [hb]; decide)

/-! ### `collapse`, `normalize` and the lifted operations contain every member -/

/-- the property of the join that `collapse` relies on (proved for `pseudo_join` in C22; a hypothesis here) -/
def JoinOK (P : SI → Prop) : Prop :=
  ∀ a b, P a → P b → P (pseudoJoin a b true) ∧ ∀ x, (a.mem x ∨ b.mem x) → (pseudoJoin a b true).mem x

theorem collapse_sound (P : SI → Prop) (hJ : JoinOK P) (d : DSIS) (r : SI) (hP : ∀ s, s ∈ d.sis → P s)
    (h : d.collapse = .ok r) (x : Nat) (hx : d.mem x) : r.mem x := by
  unfold DSIS.collapse at h
  cases hc : d.cardinality with
  | error e => rw [hc] at h; cases h
  | ok c =>
    rw [hc] at h
    simp only [] at h
    by_cases hc0 : c = 0
    · subst hc0
      exact absurd hx (dsis_card_zero d hc x)
    · rw [if_neg hc0] at h
      cases hsis : d.sis with
      | nil =>
        obtain ⟨s, hs, _⟩ := hx
        rw [hsis] at hs; cases hs
      | cons y ys =>
        rw [hsis] at h
        simp only [] at h
        have hr : r = ys.foldl (fun r s => pseudoJoin r s true) y := by
          injection h with h3; exact h3.symm
        subst hr
        have hy : P y := hP y (by rw [hsis]; exact List.mem_cons_self)
        have hys : ∀ s, s ∈ ys → P s := fun s hs => hP s (by rw [hsis]; exact List.mem_cons_of_mem _ hs)
        obtain ⟨_, hsup⟩ := foldl_join_sup (fun r s => pseudoJoin r s true) P hJ ys y hy hys
        apply hsup
        obtain ⟨s, hs, hm⟩ := hx
        rw [hsis] at hs
        cases hs with
        | head => exact Or.inl hm
        | tail _ hs' => exact Or.inr ⟨s, hs', hm⟩

theorem normalize_sound (P : SI → Prop) (hJ : JoinOK P) (d : DSIS) (v : Val) (hP : ∀ s, s ∈ d.sis → P s)
    (h : d.normalize = .ok v) (x : Nat) (hx : d.mem x) : v.mem x := by
  unfold DSIS.normalize at h
  cases hc : d.cardinality with
  | error e => rw [hc] at h; cases h
  | ok c =>
    rw [hc] at h
    simp only [] at h
    by_cases hbig : c > maxCardinality
    · rw [if_pos hbig] at h
      cases hcol : d.collapse with
      | error e => rw [hcol] at h; cases h
      | ok r =>
        rw [hcol] at h
        simp only [] at h
        have hv : v = Val.si r := by injection h with h3; exact h3.symm
        subst hv
        exact collapse_sound P hJ d r hP hcol x hx
    · rw [if_neg hbig] at h
      split at h
      · rename_i s hs
        have hv : v = Val.si s := by injection h with h3; exact h3.symm
        subst hv
        obtain ⟨t, ht, hm⟩ := hx
        rw [hs] at ht
        cases ht with
        | head => exact hm
        | tail _ h' => cases h'
      · have hv : v = Val.ds d := by injection h with h3; exact h3.symm
        subst hv
        exact hx

theorem finishSet_sound (P : SI → Prop) (hJ : JoinOK P) (bits : Nat) (results : List SI) (order : List Nat) (v : Val)
    (hP : ∀ s, s ∈ results → P s) (h : finishSet bits results order = .ok v) (x : Nat) (hx : memL results x) :
    v.mem x := by
  unfold finishSet at h
  cases hp : permute (dedupe results) order with
  | none => rw [hp] at h; cases h
  | some l =>
    rw [hp] at h
    have hsub : ∀ s, s ∈ results → s ∈ l := fun s hs => permute_mem _ _ _ hp s (dedupe_mem _ s hs)
    have hPl : ∀ s, s ∈ l → P s := by
      intro s hs
      unfold permute at hp
      split at hp
      · cases hp
      · have hl : l = order.filterMap fun i => (dedupe results)[i]? := by cases hp; rfl
        subst hl
        obtain ⟨i, _, hi⟩ := List.mem_filterMap.1 hs
        have hmem : s ∈ dedupe results := List.mem_of_getElem? hi
        exact hP s (dedupe_subset _ s hmem)
    exact normalize_sound P hJ { bits := setBits bits l, sis := l } v hPl h x (memL_mono _ _ hsub x hx)

/-- **Lifting theorem (binary)**: an interval operation that is sound on every pair of members is sound on a set
of intervals against a list of intervals, for every recorded set order. -/
theorem lift2_sound (P : SI → Prop) (hJ : JoinOK P) (op : SI → SI → R SI) (f : Nat → Nat → Nat)
    (a : DSIS) (bs : List SI) (order : List Nat) (v : Val)
    (hop : ∀ s t r x y, s ∈ a.sis → t ∈ bs → s.mem x → t.mem y → op s t = .ok r → r.mem (f x y))
    (hPr : ∀ s t r, s ∈ a.sis → t ∈ bs → op s t = .ok r → P r)
    (h : a.lift2 op bs order = .ok v) (x y : Nat) (hx : a.mem x) (hy : memL bs y) : v.mem (f x y) := by
  unfold DSIS.lift2 at h
  cases hr : applyEach2 op a.sis bs with
  | error e => rw [hr] at h; cases h
  | ok L =>
    rw [hr] at h
    have hmem := applyEach2_sound op f a.sis bs L hop hr x y hx hy
    have hPL : ∀ r, r ∈ L → P r := by
      intro r hrL
      unfold applyEach2 at hr
      obtain ⟨p, hp, hpr⟩ : ∃ p, p ∈ (a.sis.flatMap fun a => bs.map fun b => (a, b)) ∧ op p.1 p.2 = .ok r := by
        exact mapM_ok_mem_rev _ _ _ hr r hrL
      obtain ⟨s, hs, hp2⟩ := List.mem_flatMap.1 hp
      obtain ⟨t, ht, hpe⟩ := List.mem_map.1 hp2
      subst hpe
      exact hPr s t r hs ht hpr
    exact finishSet_sound P hJ a.bits L order v hPL h (f x y) hmem

/-- **Lifting theorem (unary)** -/
theorem lift1_sound (P : SI → Prop) (hJ : JoinOK P) (op : SI → R SI) (f : Nat → Nat)
    (a : DSIS) (order : List Nat) (v : Val)
    (hop : ∀ s r x, s ∈ a.sis → s.mem x → op s = .ok r → r.mem (f x))
    (hPr : ∀ s r, s ∈ a.sis → op s = .ok r → P r)
    (h : a.lift1 op order = .ok v) (x : Nat) (hx : a.mem x) : v.mem (f x) := by
  unfold DSIS.lift1 at h
  cases hr : applyEach1 op a.sis with
  | error e => rw [hr] at h; cases h
  | ok L =>
    rw [hr] at h
    have hmem := applyEach1_sound op f a.sis L hop hr x hx
    have hPL : ∀ r, r ∈ L → P r := by
      intro r hrL
      obtain ⟨s, hs, hsr⟩ := mapM_ok_mem_rev _ _ _ hr r hrL
      exact hPr s r hs hsr
    exact finishSet_sound P hJ a.bits L order v hPL h (f x) hmem

/-- **Per-region lifting for value sets**: an interval operation with an interval operand that is sound on the
offsets is sound region by region. -/
theorem mapRegions_sound (v v' : VS) (op : SI → R SI) (f : Nat → Nat)
    (hop : ∀ s r x, s.mem x → op s = .ok r → r.mem (f x))
    (h : v.mapRegions op = .ok v') (region : String) (x : Nat) (hx : v.memAt region x) : v'.memAt region (f x) := by
  unfold VS.mapRegions at h
  cases hm : v.regions.mapM (onRegion op) with
  | error e => rw [hm] at h; cases h
  | ok regs =>
    rw [hm] at h
    simp only [] at h
    cases hs : op v.si with
    | error e => rw [hs] at h; cases h
    | ok s' =>
      rw [hs] at h
      simp only [] at h
      have hv : v' = { v with regions := regs, si := s' } := by injection h with h3; exact h3.symm
      subst hv
      obtain ⟨p, hp, hreg, hmem⟩ := hx
      obtain ⟨q, hq, hqo⟩ := mapM_ok_mem _ _ _ hm p hp
      unfold onRegion at hqo
      cases hop2 : op p.2 with
      | error e => rw [hop2] at hqo; cases hqo
      | ok r =>
        rw [hop2] at hqo
        simp only [] at hqo
        have hqe : q = (p.1, r) := by injection hqo with h3; exact h3.symm
        subst hqe
        exact ⟨(p.1, r), hq, hreg, hop p.2 r x hmem hop2⟩

end Claripy.VSA
