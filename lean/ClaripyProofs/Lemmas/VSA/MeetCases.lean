import ClaripyProofs.Lemmas.VSA.MeetSound
/-! The configurations of `_multi_valued_intersection` on two proper (non-singleton) intervals: in each, every common
member is a member of the interval built from the first common member. -/
namespace Claripy.VSA

/-- the local function `fin` of the meet -/
def meetFin (bits ns : Nat) (lb : Option Int) (upTo : Nat) : R SI :=
  match lb with
  | none => pure (SI.empty bits)
  | some _ => if ns = 0 then throw .zeroDiv else pure (meetFrom bits ns lb upTo)

theorem multiMeet_general (s b : SI) (hsb : s.bottom = false) (hbb : b.bottom = false) (hbits : s.bits = b.bits)
    (hs : s.isInteger = false) (hb : b.isInteger = false) :
    s.multiMeet b =
      (if s.isSurrounded b then minimalCommonInteger s b >>= fun m => meetFin s.bits (Nat.lcm s.stride b.stride) m s.ub >>= fun r => pure [r]
      else if b.isSurrounded s then minimalCommonInteger s b >>= fun m => meetFin s.bits (Nat.lcm s.stride b.stride) m b.ub >>= fun r => pure [r]
      else if s.surroundsMember b.lb && s.surroundsMember b.ub && b.surroundsMember s.lb && b.surroundsMember s.ub then
        minimalCommonInteger (SI.new s.bits s.stride s.lb b.ub) b >>= fun l0 =>
        minimalCommonInteger (SI.new s.bits b.stride b.lb s.ub) s >>= fun l1 =>
        meetFin s.bits (Nat.lcm s.stride b.stride) l0 b.ub >>= fun r0 =>
        meetFin s.bits (Nat.lcm s.stride b.stride) l1 s.ub >>= fun r1 => pure [r0, r1]
      else if s.surroundsMember b.lb then minimalCommonInteger b s >>= fun m => meetFin s.bits (Nat.lcm s.stride b.stride) m s.ub >>= fun r => pure [r]
      else if s.surroundsMember b.ub then minimalCommonInteger b s >>= fun m => meetFin s.bits (Nat.lcm s.stride b.stride) m b.ub >>= fun r => pure [r]
      else if b.surroundsMember s.lb then minimalCommonInteger s b >>= fun m => meetFin s.bits (Nat.lcm s.stride b.stride) m b.ub >>= fun r => pure [r]
      else if b.surroundsMember s.ub then minimalCommonInteger s b >>= fun m => meetFin s.bits (Nat.lcm s.stride b.stride) m s.ub >>= fun r => pure [r]
      else pure [SI.empty s.bits]) := by
  unfold SI.multiMeet
  simp only [hsb, hbb, hbits, hs, hb, Bool.or_self, Bool.false_eq_true, if_false, ne_eq, not_true_eq_false, Bool.and_self]
  rfl

theorem meetFin_WF (w ns : Nat) (o : Option Int) (U : Nat) (r : SI) (hw : 0 < w) (h : meetFin w ns o U = .ok r) : WFw w r := by
  unfold meetFin at h
  cases o with
  | none => rw [pure_ok' h]; exact empty_WFw w hw
  | some m =>
    simp only [] at h
    split at h
    · cases h
    · rename_i hns
      rw [pure_ok' h]; exact meetFrom_WF w ns m U hw hns

/-! ### rotation to the lower bound of the first operand -/

theorem le_rot (N o a y z : Nat) (ho : o < N) (ha : a < N) (hy : y < N) (hz : z < N) :
    cd N a z ≤ cd N a y ↔ cd N (cd N o a) (cd N o z) ≤ cd N (cd N o a) (cd N o y) := by
  rw [← cd_rel N o a z ho ha hz, ← cd_rel N o a y ho ha hy]

theorem cd_inj (N o a b : Nat) (ho : o < N) (ha : a < N) (hb : b < N) (h : cd N o a = cd N o b) : a = b := by
  have ea := eq_add_cd N o a ho ha
  have eb := eq_add_cd N o b ho hb
  rw [h] at ea
  rw [ea, ← eb]

theorem dvd_of_order (N st l n x : Nat) (hl : l < N) (hn : n < N) (hx : x < N) (h1 : st ∣ cd N l n) (h2 : st ∣ cd N l x)
    (ho : cd N l n ≤ cd N l x) : st ∣ cd N n x := by
  rw [cd_between N l n x hl hn hx ho]
  exact Nat.dvd_sub h2 h1

/-- the two clauses of `_is_surrounded` in coordinates relative to `s.lb` -/
theorem G_rot_sb (w : Nat) (s b : SI) (hs : WFw w s) (hb : WFw w b) :
    G s b ↔ (cd (2 ^ w) (cd (2 ^ w) s.lb b.lb) 0 ≤ cd (2 ^ w) (cd (2 ^ w) s.lb b.lb) (cd (2 ^ w) s.lb b.ub) ∧
      cd (2 ^ w) (cd (2 ^ w) s.lb b.lb) (cd (2 ^ w) s.lb s.ub) ≤ cd (2 ^ w) (cd (2 ^ w) s.lb b.lb) (cd (2 ^ w) s.lb b.ub) ∧
      ((cd (2 ^ w) s.lb b.lb = 0 ∧ cd (2 ^ w) s.lb b.ub = cd (2 ^ w) s.lb s.ub) ∨ ¬ cd (2 ^ w) s.lb b.lb ≤ cd (2 ^ w) s.lb s.ub ∨
        ¬ cd (2 ^ w) s.lb b.ub ≤ cd (2 ^ w) s.lb s.ub)) := by
  have hsl := hs.1.2.1; have hsu := hs.1.2.2.1; have hbl := hb.1.2.1; have hbu := hb.1.2.2.1
  rw [hs.2] at hsl hsu
  rw [hb.2] at hbl hbu
  unfold G sur
  rw [hs.2, hb.2, le_rot _ s.lb b.lb b.ub s.lb hsl hbl hbu hsl, le_rot _ s.lb b.lb b.ub s.ub hsl hbl hbu hsu, cd_self]
  have e1 : (b.lb = s.lb ∧ b.ub = s.ub) ↔ (cd (2 ^ w) s.lb b.lb = 0 ∧ cd (2 ^ w) s.lb b.ub = cd (2 ^ w) s.lb s.ub) := by
    constructor
    · rintro ⟨h1, h2⟩; rw [h1, h2, cd_self]; exact ⟨rfl, rfl⟩
    · rintro ⟨h1, h2⟩
      exact ⟨((cd_eq_zero _ _ _ hsl hbl).1 h1).symm, cd_inj _ _ _ _ hsl hbu hsu h2⟩
  rw [e1]

theorem G_rot_bs (w : Nat) (s b : SI) (hs : WFw w s) (hb : WFw w b) :
    G b s ↔ (cd (2 ^ w) s.lb b.lb ≤ cd (2 ^ w) s.lb s.ub ∧ cd (2 ^ w) s.lb b.ub ≤ cd (2 ^ w) s.lb s.ub ∧
      ((0 = cd (2 ^ w) s.lb b.lb ∧ cd (2 ^ w) s.lb s.ub = cd (2 ^ w) s.lb b.ub) ∨
        ¬ cd (2 ^ w) (cd (2 ^ w) s.lb b.lb) 0 ≤ cd (2 ^ w) (cd (2 ^ w) s.lb b.lb) (cd (2 ^ w) s.lb b.ub) ∨
        ¬ cd (2 ^ w) (cd (2 ^ w) s.lb b.lb) (cd (2 ^ w) s.lb s.ub) ≤ cd (2 ^ w) (cd (2 ^ w) s.lb b.lb) (cd (2 ^ w) s.lb b.ub))) := by
  have hsl := hs.1.2.1; have hsu := hs.1.2.2.1; have hbl := hb.1.2.1; have hbu := hb.1.2.2.1
  rw [hs.2] at hsl hsu
  rw [hb.2] at hbl hbu
  unfold G sur
  rw [hs.2, hb.2, le_rot _ s.lb b.lb b.ub s.lb hsl hbl hbu hsl, le_rot _ s.lb b.lb b.ub s.ub hsl hbl hbu hsu, cd_self]
  have e1 : (s.lb = b.lb ∧ s.ub = b.ub) ↔ (0 = cd (2 ^ w) s.lb b.lb ∧ cd (2 ^ w) s.lb s.ub = cd (2 ^ w) s.lb b.ub) := by
    constructor
    · rintro ⟨h1, h2⟩; rw [← h1, ← h2, cd_self]; exact ⟨rfl, rfl⟩
    · rintro ⟨h1, h2⟩
      exact ⟨(cd_eq_zero _ _ _ hsl hbl).1 h1.symm, cd_inj _ _ _ _ hsl hsu hbu h2⟩
  rw [e1]

/-! ### one call of `_minimal_common_integer` followed by `fin` -/

theorem meet_call (w : Nat) (s b X Y : SI) (U x : Nat) (o : Option Int) (r : SI)
    (hss : s.stride ≠ 0) (hbs : b.stride ≠ 0)
    (hX : WFw w X) (hY : WFw w Y) (hXb : X.bottom = false) (hYb : Y.bottom = false)
    (HX : X.ub < X.lb → TwoPieces X ∨ (TwoPieces Y ∧ Y.ub < X.lb))
    (HY : Y.ub < Y.lb → TwoPieces Y ∨ (TwoPieces X ∧ X.ub < Y.lb))
    (hnc : NoCross X Y)
    (hm : minimalCommonInteger X Y = .ok o) (hf : meetFin w (Nat.lcm s.stride b.stride) o U = .ok r) (hU : U < 2 ^ w)
    (hxX : X.mem x) (hxY : Y.mem x)
    (hgeo : ∀ n, X.mem n → Y.mem n → n < 2 ^ w →
      ((X.ub < X.lb ∨ ¬ Y.ub < Y.lb) → cd (2 ^ w) X.lb n ≤ cd (2 ^ w) X.lb x) →
      ((Y.ub < Y.lb ∨ ¬ X.ub < X.lb) → cd (2 ^ w) Y.lb n ≤ cd (2 ^ w) Y.lb x) →
      s.stride ∣ cd (2 ^ w) n x ∧ b.stride ∣ cd (2 ^ w) n x ∧ cd (2 ^ w) n x ≤ cd (2 ^ w) n U) : r.mem x := by
  obtain ⟨n, ho, mx, my, f1, f2⟩ := mci_order w X Y hX hY hXb hYb HX HY hnc o hm x hxX hxY
  have hnl : n < 2 ^ w := by have := mx.2.1; rwa [hX.2] at this
  have hxl : x < 2 ^ w := by have := hxX.2.1; rwa [hX.2] at this
  obtain ⟨d1, d2, d3⟩ := hgeo n mx my hnl f1 f2
  have hl : Nat.lcm s.stride b.stride ≠ 0 := Nat.lcm_ne_zero hss hbs
  subst ho
  unfold meetFin at hf
  simp only [] at hf
  rw [if_neg hl] at hf
  rw [pure_ok' hf]
  exact meetFrom_mem w _ n U x hnl hU hxl hl (Nat.lcm_dvd d1 d2) d3

/-- from the rotated conclusions of a geometry lemma to the three facts `meet_call` needs -/
theorem lock_step (w : Nat) (s b : SI) (hs : WFw w s) (hb : WFw w b) (x n U : Nat) (hx : s.mem x) (hy : b.mem x)
    (hnl : n < 2 ^ w) (hU : U < 2 ^ w)
    (hns : s.stride ∣ cd (2 ^ w) s.lb n) (hnb : b.stride ∣ cd (2 ^ w) b.lb n)
    (hR : cd (2 ^ w) s.lb n ≤ cd (2 ^ w) s.lb x ∧
      cd (2 ^ w) (cd (2 ^ w) s.lb b.lb) (cd (2 ^ w) s.lb n) ≤ cd (2 ^ w) (cd (2 ^ w) s.lb b.lb) (cd (2 ^ w) s.lb x) ∧
      cd (2 ^ w) (cd (2 ^ w) s.lb n) (cd (2 ^ w) s.lb x) ≤ cd (2 ^ w) (cd (2 ^ w) s.lb n) (cd (2 ^ w) s.lb U)) :
    s.stride ∣ cd (2 ^ w) n x ∧ b.stride ∣ cd (2 ^ w) n x ∧ cd (2 ^ w) n x ≤ cd (2 ^ w) n U := by
  have hsl := hs.1.2.1; have hbl := hb.1.2.1
  rw [hs.2] at hsl
  rw [hb.2] at hbl
  obtain ⟨_, hxl, _, hxs⟩ := mem_facts s x hs.1 hx
  obtain ⟨_, _, _, hxb⟩ := mem_facts b x hb.1 hy
  rw [hs.2] at hxl hxs
  rw [hb.2] at hxb
  obtain ⟨r1, r2, r3⟩ := hR
  have o2 : cd (2 ^ w) b.lb n ≤ cd (2 ^ w) b.lb x := (le_rot _ s.lb b.lb x n hsl hbl hxl hnl).2 r2
  have o3 : cd (2 ^ w) n x ≤ cd (2 ^ w) n U := (le_rot _ s.lb n U x hsl hnl hU hxl).2 r3
  exact ⟨dvd_of_order _ _ _ _ _ hsl hnl hxl hns hxs r1, dvd_of_order _ _ _ _ _ hbl hnl hxl hnb hxb o2, o3⟩

end Claripy.VSA
