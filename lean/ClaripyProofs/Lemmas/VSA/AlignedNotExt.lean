import ClaripyProofs.Lemmas.VSA.AlignedArith
import ClaripyProofs.Lemmas.VSA.NotExt
/-! `bitwise_not` always returns an aligned interval; `zero_extend` keeps alignment. -/
namespace Claripy.VSA

/-- **`bitwise_not` returns an aligned interval** (whatever the operand: every piece ends at the complement of the
piece's lower bound, which is a member) -/
theorem not_aligned (a r : SI) (ha : a.WF) (hnb : a.bottom = false) (h : a.bitwiseNot = .ok r) : r.Aligned := by
  obtain ⟨ps, hps, hprop, _, _⟩ := ssplit_spec a ha hnb
  unfold SI.bitwiseNot at h
  rw [hps] at h
  simp only [bind, Except.bind, pure, Except.pure] at h
  generalize hrs : (ps.map fun p => SI.new a.bits a.stride (-(p.lastMember : Int) - 1) (-(p.lb : Int) - 1)) = rs at h
  cases hl : leastUpperBound rs with
  | error e => rw [hl] at h; cases h
  | ok u =>
    rw [hl] at h
    have hr : r = u.renorm := by cases h; rfl
    subst hr
    have hP : ∀ t, t ∈ rs → WFw a.bits t ∧ t.Aligned := by
      intro t ht
      rw [← hrs] at ht
      obtain ⟨p, hp, hpt⟩ := List.mem_map.1 ht
      subst hpt
      obtain ⟨hwf, hpb, hle, hst⟩ := hprop p hp
      refine ⟨?_, ?_⟩
      · apply not_piece_WF _ _ p hwf ha.1 hst
        intro hz
        rcases hst with h1 | h1
        · exact h1
        · rw [h1]; exact hz
      · apply new_aligned_of_mem
        have hl : p.lb < 2 ^ a.bits := by have := hwf.1.2.1; rw [hwf.2] at this; exact this
        rw [imod_neg _ _ hl]
        exact not_piece_mem a.bits a.stride p hwf hle hst p.lb (lb_mem p hwf.1 hpb)
    have hu1 := (lub_sup a.bits rs u (fun t ht => (hP t ht).1) hl).1
    exact renorm_aligned u hu1.1 (lub_aligned a.bits rs u hP hl)

/-- re-reading a non-wrapping aligned interval at a larger width keeps it aligned -/
theorem widen_bits_aligned (p : SI) (w nl : Nat) (hp : WFw w p) (hpb : p.bottom = false) (hle : p.lb ≤ p.ub) (hnl : w ≤ nl)
    (al : p.Aligned) : ({ p with bits := nl } : SI).Aligned := by
  have := widen_bits_mem p w nl hp hle hnl p.ub (mem_ub_of_aligned p hp.1 hpb al)
  exact aligned_of_mem_ub _ this

/-- **`zero_extend` of an aligned interval is aligned** -/
theorem zext_aligned (a r : SI) (nl : Nat) (ha : a.WF) (hnb : a.bottom = false) (hnl : a.bits ≤ nl) (al : a.Aligned)
    (h : a.zeroExtend nl = .ok r) : r.Aligned := by
  unfold SI.zeroExtend at h
  by_cases hwrap : (!a.bottom && decide (a.lb > a.ub)) = true
  · rw [if_pos hwrap] at h
    obtain ⟨ps, hps, hprop, _, _⟩ := ssplit_spec a ha hnb
    have hpa := ssplit_aligned a ha al ps hps
    rw [hps] at h
    simp only [bind, Except.bind] at h
    refine lub_aligned nl _ r ?_ h
    intro t ht
    obtain ⟨p, hp, hpt⟩ := List.mem_map.1 ht
    subst hpt
    obtain ⟨hwf, hpb, hle, _⟩ := hprop p hp
    have hrn : p.renorm.lb ≤ p.renorm.ub := by
      unfold SI.renorm; rw [hpb]
      simp only [Bool.false_eq_true, if_false]
      exact new_nowrap _ _ _ _ hwf.1.2.1 hwf.1.2.2.1 hle
    have hrb : p.renorm.bottom = false := by
      unfold SI.renorm; rw [hpb]; simp
    exact ⟨widen_bits_WF _ _ _ (renorm_WFw _ p hwf) hnl,
      widen_bits_aligned p.renorm a.bits nl (renorm_WFw _ p hwf) hrb hrn hnl (renorm_aligned p hwf.1 (hpa p hp))⟩
  · rw [if_neg hwrap] at h
    have hr : r = { a.renorm with bits := nl } := by cases h; rfl
    subst hr
    have hle : a.lb ≤ a.ub := by
      simp only [hnb, Bool.not_false, Bool.true_and, decide_eq_true_eq] at hwrap; omega
    have hrn : a.renorm.lb ≤ a.renorm.ub := by
      unfold SI.renorm; rw [hnb]
      simp only [Bool.false_eq_true, if_false]
      exact new_nowrap _ _ _ _ ha.2.1 ha.2.2.1 hle
    have hrb : a.renorm.bottom = false := by
      unfold SI.renorm; rw [hnb]; simp
    exact widen_bits_aligned a.renorm a.bits nl (renorm_WFw _ a ⟨ha, rfl⟩) hrb hrn hnl (renorm_aligned a ha al)

end Claripy.VSA
