import ClaripyProofs.Lemmas.VSA.ShiftSound
/-! `cast_low` and `extract`. -/
namespace Claripy.VSA

theorem ntzLoop_spec : ∀ (fuel x acc : Nat), ∃ j, ntzLoop fuel x acc = acc + j ∧ 2 ^ j ∣ x := by
  intro fuel
  induction fuel with
  | zero => intro x acc; exact ⟨0, rfl, Nat.one_dvd _⟩
  | succ f ih =>
    intro x acc
    unfold ntzLoop
    by_cases h : x % 2 = 1
    · rw [if_pos h]; exact ⟨0, rfl, Nat.one_dvd _⟩
    · rw [if_neg h]
      obtain ⟨j, hj1, hj2⟩ := ih (x / 2) (acc + 1)
      refine ⟨j + 1, by rw [hj1]; omega, ?_⟩
      have hx : x = 2 * (x / 2) := by omega
      rw [hx, Nat.pow_succ, Nat.mul_comm]
      exact Nat.mul_dvd_mul_left 2 hj2

theorem ntz_dvd (x : Nat) : 2 ^ ntz x ∣ x := by
  unfold ntz
  by_cases h : x = 0
  · rw [if_pos h]; exact Nat.one_dvd _
  · rw [if_neg h]
    obtain ⟨j, hj1, hj2⟩ := ntzLoop_spec x x 0
    rw [hj1, Nat.zero_add]; exact hj2

theorem and_mask (x t : Nat) : x &&& (2 ^ t - 1) = x % 2 ^ t := Nat.and_two_pow_sub_one_eq_mod x t

/-- reduction modulo `2^t` of a member written from the lower bound -/
theorem mem_mod_low (M T lb x : Nat) (hT : T ∣ M) (hl : lb < M) (hx : x < M) :
    x % T = (lb + cd M lb x) % T := by
  have := eq_add_cd M lb x hl hx
  conv => lhs; rw [this]
  exact Nat.mod_mod_of_dvd _ hT

theorem add_mod_of_dvd (T lb d g : Nat) (hg : T ∣ g) (hd : g ∣ d) : (lb + d) % T = lb % T := by
  have : d % T = 0 := Nat.mod_eq_zero_of_dvd (Nat.dvd_trans hg hd)
  rw [Nat.add_mod, this, Nat.add_zero, Nat.mod_mod]

/-- **`cast_low(tok)` is sound and closed**: the low `tok` bits of every member are in the result -/
theorem castLow_sound (s r : SI) (tok : Nat) (hs : s.WF) (ht0 : 0 < tok)
    (h : s.castLow tok = .ok r) :
    WFw tok r ∧ ∀ x, s.mem x → r.mem (x % 2 ^ tok) := by
  have hwf := hs
  obtain ⟨h0, hl, hu, hst⟩ := hs
  have hM := two_pow_pos' s.bits
  have hT := two_pow_pos' tok
  unfold SI.castLow at h
  by_cases hgt : tok > s.bits
  · rw [if_pos hgt] at h; cases h
  rw [if_neg hgt] at h
  simp only [and_mask] at h
  have hTM : 2 ^ tok ∣ 2 ^ s.bits := Nat.pow_dvd_pow 2 (by omega)
  -- facts about a member
  have hfacts : ∀ x, s.mem x → ∃ d, d ≤ cd (2 ^ s.bits) s.lb s.ub ∧ s.stride ∣ d ∧ x % 2 ^ tok = (s.lb + d) % 2 ^ tok ∧
      x < 2 ^ s.bits ∧ d = cd (2 ^ s.bits) s.lb x := by
    intro x hx
    obtain ⟨_, hxl, h1, h2⟩ := mem_facts s x hwf hx
    exact ⟨_, h1, h2, mem_mod_low _ _ _ _ hTM hl hxl, hxl, rfl⟩
  by_cases h1 : tok = s.bits
  · rw [if_pos h1] at h
    have : r = s.renorm := by cases h; rfl
    subst this
    refine ⟨by rw [h1]; exact renorm_WFw _ s ⟨hwf, rfl⟩, ?_⟩
    intro x hx
    rw [h1, Nat.mod_eq_of_lt hx.2.1]
    exact (renorm_mem s hwf x).2 hx
  rw [if_neg h1] at h
  by_cases h2 : s.lb ≤ s.ub ∧ s.lb % 2 ^ tok = s.lb ∧ s.ub % 2 ^ tok = s.ub
  · rw [if_pos h2] at h
    have : r = SI.new tok s.stride s.lb s.ub := by cases h; rfl
    subst this
    obtain ⟨hle, hlt, hut⟩ := h2
    have hlT : s.lb < 2 ^ tok := by rw [← hlt]; exact Nat.mod_lt _ hT
    have huT : s.ub < 2 ^ tok := by rw [← hut]; exact Nat.mod_lt _ hT
    refine ⟨⟨new_WF _ _ _ _ ht0 (fun hz => by rw [hst.1 hz]), new_bits _ _ _ _⟩, ?_⟩
    intro x hx
    obtain ⟨hb1, hb2⟩ := mem_between s s.bits ⟨hwf, rfl⟩ hle x hx
    obtain ⟨_, hxl, hd1, hd2⟩ := mem_facts s x hwf hx
    have hxT : x < 2 ^ tok := by omega
    rw [Nat.mod_eq_of_lt hxT]
    have e1 : cd (2 ^ tok) s.lb x = cd (2 ^ s.bits) s.lb x := by unfold cd; split_ifs <;> omega
    have e2 : cd (2 ^ tok) s.lb s.ub = cd (2 ^ s.bits) s.lb s.ub := by unfold cd; split_ifs <;> omega
    apply mem_new_of _ _ _ _ _ hlT huT hxT
    · rw [e1, e2]; exact hd1
    · rw [e1]; exact hd2
    · intro hz; rw [e1]; rw [hz] at hd2; exact Nat.eq_zero_of_zero_dvd hd2
  rw [if_neg h2] at h
  by_cases h3 : s.lb ≤ s.ub ∧ s.ub - s.lb ≤ 2 ^ tok - 1
  · rw [if_pos h3] at h
    have : r = SI.new tok s.stride ((s.lb % 2 ^ tok : Nat) : Int) ((s.ub % 2 ^ tok : Nat) : Int) := by cases h; rfl
    subst this
    obtain ⟨hle, hsp⟩ := h3
    have hspan : cd (2 ^ s.bits) s.lb s.ub = s.ub - s.lb := by unfold cd; split_ifs <;> omega
    have hub : s.ub = s.lb + (s.ub - s.lb) := by omega
    have ecu : cd (2 ^ tok) (s.lb % 2 ^ tok) (s.ub % 2 ^ tok) = s.ub - s.lb := by
      conv => lhs; arg 3; rw [hub]
      exact cd_mod_add _ _ _ hT (by omega)
    refine ⟨⟨new_WF _ _ _ _ ht0 (fun hz => by rw [hst.1 hz]), new_bits _ _ _ _⟩, ?_⟩
    intro x hx
    obtain ⟨d, hd1, hd2, hd3, _, _⟩ := hfacts x hx
    rw [hspan] at hd1
    rw [hd3, mem_new, imod_nat, imod_nat, Nat.mod_mod, Nat.mod_mod, ecu, cd_mod_add _ _ _ hT (by omega)]
    refine ⟨Nat.mod_lt _ hT, hd1, ?_⟩
    by_cases hz : s.stride = 0
    · rw [if_pos hz]; rw [hz] at hd2; exact Nat.eq_zero_of_zero_dvd hd2
    · rw [if_neg hz]; exact Nat.mod_eq_zero_of_dvd hd2
  rw [if_neg h3] at h
  by_cases h4 : s.ub % 2 ^ tok = s.lb % 2 ^ tok ∧ imod ((s.ub : Int) - s.lb) tok = 0 ∧ s.stride % 2 ^ tok = 0
  · rw [if_pos h4] at h
    have : r = SI.new tok 0 ((s.lb % 2 ^ tok : Nat) : Int) ((s.lb % 2 ^ tok : Nat) : Int) := by cases h; rfl
    subst this
    refine ⟨⟨new_WF _ _ _ _ ht0 (fun _ => rfl), new_bits _ _ _ _⟩, ?_⟩
    intro x hx
    obtain ⟨d, _, hd2, hd3, _, _⟩ := hfacts x hx
    rw [hd3, add_mod_of_dvd _ _ _ _ (Nat.dvd_of_mod_eq_zero h4.2.2) hd2, mem_new, imod_nat, Nat.mod_mod]
    simp [cd_self, Nat.mod_lt _ hT]
  rw [if_neg h4] at h
  have hnd := ntz_dvd s.stride
  generalize ntz s.stride = n at h hnd
  by_cases h5 : tok > n
  · rw [if_pos h5] at h
    have hr : r = { bits := tok, stride := 2 ^ n, lb := s.lb % 2 ^ n,
                    ub := 2 ^ n * ((maxInt tok - s.lb % 2 ^ n) / 2 ^ n) + s.lb % 2 ^ n } := by cases h; rfl
    subst hr
    have hN := two_pow_pos' n
    have hNT : 2 ^ n ∣ 2 ^ tok := Nat.pow_dvd_pow 2 (by omega)
    have hlow : s.lb % 2 ^ n < 2 ^ n := Nat.mod_lt _ hN
    have hT2 : 2 * 2 ^ n ≤ 2 ^ tok := by
      have : 2 ^ (n + 1) ≤ 2 ^ tok := Nat.pow_le_pow_right (by omega) (by omega)
      rw [Nat.pow_succ] at this; omega
    generalize hlg : s.lb % 2 ^ n = lower at hlow
    unfold maxInt
    generalize hkg : (2 ^ tok - 1 - lower) / 2 ^ n = k
    have hk1 : 2 ^ n * k ≤ 2 ^ tok - 1 - lower := by rw [← hkg]; exact Nat.mul_div_le _ _
    have hk2 : 1 ≤ k := by
      rw [← hkg]
      exact (Nat.le_div_iff_mul_le hN).2 (by omega)
    have hk3 : 2 ^ n ≤ 2 ^ n * k := Nat.le_mul_of_pos_right _ hk2
    refine ⟨⟨⟨ht0, by show lower < 2 ^ tok; omega, by show 2 ^ n * k + lower < 2 ^ tok; omega, ?_⟩, rfl⟩, ?_⟩
    · show (2 ^ n = 0 ↔ lower = 2 ^ n * k + lower)
      constructor <;> intro hh <;> omega
    · intro x hx
      obtain ⟨d, _, hd2, hd3, _, _⟩ := hfacts x hx
      have hzl : x % 2 ^ tok < 2 ^ tok := Nat.mod_lt _ hT
      have hzm : (x % 2 ^ tok) % 2 ^ n = lower := by
        rw [hd3, Nat.mod_mod_of_dvd _ hNT, add_mod_of_dvd _ _ _ _ hnd hd2, hlg]
      generalize x % 2 ^ tok = z at hzl hzm
      have hz : z = 2 ^ n * (z / 2 ^ n) + lower := by
        have := Nat.div_add_mod z (2 ^ n)
        rw [hzm] at this; omega
      generalize z / 2 ^ n = q at hz
      have hqk : q ≤ k := by
        rw [← hkg]
        apply (Nat.le_div_iff_mul_le hN).2
        rw [Nat.mul_comm]; omega
      have hqk' : 2 ^ n * q ≤ 2 ^ n * k := Nat.mul_le_mul_left _ hqk
      rw [mem_iff _ _ (by show lower < 2 ^ tok; omega) (by show 2 ^ n * k + lower < 2 ^ tok; omega)]
      show false = false ∧ z < 2 ^ tok ∧ cd (2 ^ tok) lower z ≤ cd (2 ^ tok) lower (2 ^ n * k + lower) ∧
        (if 2 ^ n = 0 then cd (2 ^ tok) lower z = 0 else cd (2 ^ tok) lower z % 2 ^ n = 0)
      have e1 : cd (2 ^ tok) lower z = 2 ^ n * q := by unfold cd; split_ifs <;> omega
      have e2 : cd (2 ^ tok) lower (2 ^ n * k + lower) = 2 ^ n * k := by unfold cd; split_ifs <;> omega
      rw [e1, e2, if_neg (by omega)]
      exact ⟨rfl, hzl, hqk', Nat.mul_mod_right _ _⟩
  · rw [if_neg h5] at h
    have : r = SI.new tok 0 ((s.lb % 2 ^ tok : Nat) : Int) ((s.lb % 2 ^ tok : Nat) : Int) := by cases h; rfl
    subst this
    refine ⟨⟨new_WF _ _ _ _ ht0 (fun _ => rfl), new_bits _ _ _ _⟩, ?_⟩
    intro x hx
    obtain ⟨d, _, hd2, hd3, _, _⟩ := hfacts x hx
    have hTn : 2 ^ tok ∣ 2 ^ n := Nat.pow_dvd_pow 2 (by omega)
    rw [hd3, add_mod_of_dvd _ _ _ _ (Nat.dvd_trans hTn hnd) hd2, mem_new, imod_nat, Nat.mod_mod]
    simp [cd_self, Nat.mod_lt _ hT]

theorem mem_lb (s : SI) (hs : s.WF) (hnb : s.bottom = false) : s.mem s.lb := by
  obtain ⟨_, hl, hu, _⟩ := hs
  rw [mem_iff _ _ hl hu, cd_self]
  refine ⟨hnb, hl, Nat.zero_le _, ?_⟩
  split_ifs <;> simp

/-- **`extract(high, low)` is sound and closed** -/
theorem extract_sound (s r : SI) (hi lo : Nat) (hs : s.WF) (hnb : s.bottom = false) (hlo : lo ≤ hi) (hhi : hi < s.bits)
    (h : s.extract hi lo = .ok r) :
    WFw (hi + 1 - lo) r ∧ ∀ x, s.mem x → r.mem (Conc.extract hi lo x) := by
  unfold SI.extract at h
  simp only [bind, Except.bind, pure, Except.pure] at h
  unfold Conc.extract
  by_cases hl0 : lo = 0
  · subst hl0
    rw [if_neg (by simp)] at h
    by_cases hb : hi + 1 - 0 ≠ s.bits
    · rw [if_pos hb] at h
      cases hc : s.renorm.castLow (hi + 1 - 0) with
      | error e => rw [hc] at h; cases h
      | ok r2 =>
        rw [hc] at h
        have hr : r = r2.renorm := by cases h; rfl
        subst hr
        have hrw := renorm_WFw s.bits s ⟨hs, rfl⟩
        obtain ⟨c1, c2⟩ := castLow_sound s.renorm r2 (hi + 1 - 0) hrw.1 (by omega) hc
        refine ⟨renorm_WFw _ r2 c1, ?_⟩
        intro x hx
        rw [Nat.shiftRight_zero]
        exact (renorm_mem r2 c1.1 _).2 (c2 x ((renorm_mem s hs x).2 hx))
    · rw [if_neg hb] at h
      have hr : r = s.renorm.renorm := by cases h; rfl
      subst hr
      have hb' : hi + 1 - 0 = s.bits := by omega
      have hrw := renorm_WFw s.bits s ⟨hs, rfl⟩
      rw [hb']
      refine ⟨renorm_WFw _ _ hrw, ?_⟩
      intro x hx
      rw [Nat.shiftRight_zero, Nat.mod_eq_of_lt hx.2.1]
      exact (renorm_mem _ hrw.1 _).2 ((renorm_mem s hs x).2 hx)
  · rw [if_pos hl0] at h
    cases hA : s.rshiftLogicalRange lo lo with
    | error e => rw [hA] at h; cases h
    | ok r1 =>
      rw [hA] at h
      simp only [] at h
      unfold SI.rshiftLogicalRange at hA
      have hf : ∀ k si, rshiftLogicalK recFuel s k = .ok si → WFw s.bits si :=
        fun k si hk => (rshiftLogicalK_sound 62 k s si hs hnb hk).1
      obtain ⟨g1, g2⟩ := overRange_sup s.bits s rfl hs.1 lo lo _ hf r1 hA
      obtain ⟨si, hsi, hsub⟩ := g2 lo (Nat.le_refl _) (Nat.le_refl _)
      have hsh := (rshiftLogicalK_sound 62 lo s si hs hnb hsi).2
      have hb : hi + 1 - lo ≠ s.bits := by omega
      rw [if_pos hb] at h
      cases hc : r1.castLow (hi + 1 - lo) with
      | error e => rw [hc] at h; cases h
      | ok r2 =>
        rw [hc] at h
        have hr : r = r2.renorm := by cases h; rfl
        subst hr
        obtain ⟨c1, c2⟩ := castLow_sound r1 r2 (hi + 1 - lo) g1.1 (by omega) hc
        refine ⟨renorm_WFw _ r2 c1, ?_⟩
        intro x hx
        exact (renorm_mem r2 c1.1 _).2 (c2 _ (hsub _ (hsh x hx)))

end Claripy.VSA
