import ClaripyProofs.Lemmas.VSA.SetOpsSound2
/-!
`DiscreteStridedIntervalSet.eval(n)` as written (`DSIS.eval`: the loop with its early exit, the Python set of integers, the
cut to `n`): the list it returns holds members of the set only, at most `n` of them — for every recorded iteration order.
(`dsis_eval` in `SetOpsSound2.lean` is about the values the loop draws from, `DSIS.evalCandidates`.)
-/
namespace Claripy.VSA

theorem dedupeInts_mem (l : List Int) (v : Int) : v ∈ dedupeInts l ↔ v ∈ l := by
  unfold dedupeInts
  suffices h : ∀ acc : List Int,
      v ∈ l.foldl (fun acc x => if acc.contains x then acc else acc ++ [x]) acc ↔ v ∈ acc ∨ v ∈ l by
    simpa using h []
  induction l with
  | nil => intro acc; simp
  | cons x xs ih =>
    intro acc
    rw [List.foldl_cons, ih]
    by_cases hc : acc.contains x = true
    · rw [if_pos hc]
      simp only [List.mem_cons]
      have hx : x ∈ acc := by simpa using hc
      constructor
      · rintro (h | h)
        · exact Or.inl h
        · exact Or.inr (Or.inr h)
      · rintro (h | h | h)
        · exact Or.inl h
        · exact Or.inl (h ▸ hx)
        · exact Or.inr h
    · rw [if_neg hc]
      simp only [List.mem_append, List.mem_cons, List.not_mem_nil, or_false]
      constructor
      · rintro ((h | h) | h)
        · exact Or.inl h
        · exact Or.inr (Or.inl h)
        · exact Or.inr (Or.inr h)
      · rintro (h | h | h)
        · exact Or.inl (Or.inl h)
        · exact Or.inl (Or.inr h)
        · exact Or.inr h

theorem permuteInts_mem (l l' : List Int) (order : List Nat) (h : permuteInts l order = some l') (v : Int)
    (hv : v ∈ l') : v ∈ l := by
  unfold permuteInts at h
  split at h
  · exact absurd h (by simp)
  · have h' := Option.some.inj h
    subst h'
    obtain ⟨i, _, hi⟩ := List.mem_filterMap.1 hv
    exact List.mem_of_getElem? hi

/-- what the loop of `eval` collects comes from the accumulator or from `si.eval(n)` of a member -/
theorem evalGather_mem (n : Nat) (ss : List SI) (acc r : List Int) (h : evalGather n ss acc = .ok r) (v : Int)
    (hv : v ∈ r) : v ∈ acc ∨ ∃ s, s ∈ ss ∧ ∃ li, s.eval n false = .ok li ∧ v ∈ li := by
  induction ss generalizing acc with
  | nil =>
    unfold evalGather at h
    have := pure_ok' h
    subst this
    exact Or.inl hv
  | cons s ss ih =>
    unfold evalGather at h
    obtain ⟨li, hli, h⟩ := bind_ok' h
    have split : v ∈ dedupeInts (acc ++ li) → v ∈ acc ∨ ∃ s', s' ∈ s :: ss ∧ ∃ li, s'.eval n false = .ok li ∧ v ∈ li := by
      intro hm
      rcases List.mem_append.1 ((dedupeInts_mem _ v).1 hm) with hm | hm
      · exact Or.inl hm
      · exact Or.inr ⟨s, List.mem_cons_self, li, hli, hm⟩
    split at h
    · have := pure_ok' h
      subst this
      exact split hv
    · rcases ih _ h with hm | ⟨s', hs', li', hli', hm⟩
      · exact split hm
      · exact Or.inr ⟨s', List.mem_cons_of_mem _ hs', li', hli', hm⟩

/-- **`eval(n)` of a set, the list returned**: members of the set only, and at most `n` values -/
theorem dsis_eval_list (d : DSIS) (n : Nat) (order : List Nat) (l : List Int)
    (hd : ∀ s, s ∈ d.sis → s.WF ∧ s.bottom = false) (h : d.eval n order = .ok l) :
    (∀ v, v ∈ l → ∃ x : Nat, v = (x : Int) ∧ d.mem x) ∧ l.length ≤ n := by
  unfold DSIS.eval at h
  obtain ⟨vals, hvals, h⟩ := bind_ok' h
  split at h
  · exact absurd h (by intro h'; cases h')
  · rename_i p hp
    have hl := pure_ok' h
    subst hl
    refine ⟨?_, List.length_take_le n p⟩
    intro v hv
    have hv' : v ∈ vals := permuteInts_mem vals p order hp v (List.mem_of_mem_take hv)
    rcases evalGather_mem n d.sis [] vals hvals v hv' with hm | ⟨s, hs, li, hsl, hm⟩
    · exact absurd hm (by simp)
    · have he := eval_exact s n li (hd s hs).1 (hd s hs).2 hsl
      rw [he] at hm
      obtain ⟨x, hx, hxv⟩ := List.mem_map.1 hm
      exact ⟨x, hxv.symm, s, hs, (mem_members s (hd s hs).1 x).1 (List.mem_of_mem_take hx)⟩

end Claripy.VSA
