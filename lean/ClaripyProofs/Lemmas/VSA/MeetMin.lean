import ClaripyProofs.Lemmas.VSA.MeetMci
import ClaripyProofs.Lemmas.VSA.ZextBounds
/-! `_minimal_common_integer`: the search over the pieces of `_ssplit`.  The result is a common member that comes first
among the common members lying before the south pole in every wrapping operand (`Up`), else among those lying after it in
every wrapping operand (`Lo`); common members of mixed kind are not looked at. -/
namespace Claripy.VSA

theorem lm_iff (w : Nat) (p : SI) (hp : WFw w p) (hb : p.bottom = false) (hle : p.lb ≤ p.ub) (x : Nat) :
    LM p x ↔ p.mem x := by
  constructor
  · rintro ⟨h1, h2, h3⟩
    obtain ⟨hw, hbits⟩ := hp
    obtain ⟨_, hl, hu, hst⟩ := hw
    rw [mem_iff _ _ hl hu]
    have e1 : cd (2 ^ p.bits) p.lb x = x - p.lb := by unfold cd; split_ifs <;> omega
    have e2 : cd (2 ^ p.bits) p.lb p.ub = p.ub - p.lb := by unfold cd; split_ifs <;> omega
    rw [e1, e2]
    refine ⟨hb, by omega, by omega, stride_cond_of_dvd _ _ h3 ?_⟩
    intro h0; rw [h0] at h3; exact Nat.eq_zero_of_zero_dvd h3
  · intro hx
    obtain ⟨h1, h2, h3⟩ := mem_nowrap w p hp hle x hx
    exact ⟨h1, h2, h3⟩

/-- before the south pole in every wrapping operand -/
def Up (X Y : SI) (z : Nat) : Prop := (X.ub < X.lb → X.lb ≤ z) ∧ (Y.ub < Y.lb → Y.lb ≤ z)
/-- after the south pole in every wrapping operand -/
def Lo (X Y : SI) (z : Nat) : Prop := (X.ub < X.lb → z ≤ X.ub) ∧ (Y.ub < Y.lb → z ≤ Y.ub)

/-- what `_minimal_common_integer(X, Y)` returns -/
def MciSpec (X Y : SI) (o : Option Int) : Prop :=
  (∀ m, o = some m → ∃ n : Nat, m = (n : Int) ∧ X.mem n ∧ Y.mem n ∧ (Up X Y n ∨ Lo X Y n) ∧
      ∀ x, X.mem x → Y.mem x → (Up X Y x → Up X Y n ∧ n ≤ x) ∧ (Lo X Y x → Up X Y n ∨ n ≤ x)) ∧
    (o = none → ∀ x, X.mem x → Y.mem x → ¬ Up X Y x ∧ ¬ Lo X Y x)

/-- `_ssplit` returns two pieces -/
def TwoPieces (X : SI) : Prop := ∃ A B, X.ssplit = .ok [A, B]

/-- the pieces of a wrapping interval with what is known about them -/
theorem ssplit_wrap_full (w : Nat) (X : SI) (hX : WFw w X) (hb : X.bottom = false) (hwrap : X.ub < X.lb) :
    ∃ A, WFw w A ∧ A.bottom = false ∧ A.lb ≤ A.ub ∧ A.lb = X.lb ∧
      ((X.ssplit = .ok [A] ∧ ∀ x, X.mem x ↔ A.mem x) ∨
        ∃ B, WFw w B ∧ B.bottom = false ∧ B.lb ≤ B.ub ∧ B.ub = X.ub ∧ X.ssplit = .ok [A, B] ∧
          ∀ x, X.mem x ↔ (A.mem x ∨ B.mem x)) := by
  obtain ⟨ps, hps, hprop, hcov, hback⟩ := ssplit_spec X hX.1 hb
  rw [hX.2] at hprop
  obtain ⟨A, hsh, _, hAl, _⟩ := ssplit_wrap_shape X hX.1 hwrap
  rw [hps] at hsh
  rcases hsh with h1 | ⟨B, h2, _, hBu, _⟩
  · have : ps = [A] := by cases h1; rfl
    subst this
    obtain ⟨a1, a2, a3, _⟩ := hprop A List.mem_cons_self
    refine ⟨A, a1, a2, a3, hAl, Or.inl ⟨hps, ?_⟩⟩
    intro x
    constructor
    · intro hx
      obtain ⟨p, hp, hpx⟩ := hcov x hx
      have : p = A := by simpa using hp
      subst this; exact hpx
    · exact hback A List.mem_cons_self x
  · have : ps = [A, B] := by cases h2; rfl
    subst this
    obtain ⟨a1, a2, a3, _⟩ := hprop A List.mem_cons_self
    obtain ⟨b1, b2, b3, _⟩ := hprop B (List.mem_cons_of_mem _ List.mem_cons_self)
    refine ⟨A, a1, a2, a3, hAl, Or.inr ⟨B, b1, b2, b3, hBu, hps, ?_⟩⟩
    intro x
    constructor
    · intro hx
      obtain ⟨p, hp, hpx⟩ := hcov x hx
      rcases List.mem_cons.1 hp with h | h
      · subst h; exact Or.inl hpx
      · have : p = B := by simpa using h
        subst this; exact Or.inr hpx
    · rintro (h | h)
      · exact hback A List.mem_cons_self x h
      · exact hback B (List.mem_cons_of_mem _ List.mem_cons_self) x h

theorem ssplit_nowrap (X : SI) (h : ¬ X.ub < X.lb) : X.ssplit = .ok [X.renorm] := by
  unfold SI.ssplit; rw [if_neg h]; rfl

/-- the result of searching two pairs of pieces in order -/
def firstOf (i0 i1 : Option Int) : Option Int := match i0 with | none => i1 | some v => some v

/-- the search over an upper pair `(A, C)` and a lower pair `(B, D)` of pieces: every common member of `X`, `Y` that is `Up` lies
in `A ∩ C`, every one that is `Lo` lies in `B ∩ D`; members of `A ∩ C` are `Up`, members of `B ∩ D` are `Lo` -/
theorem search_pairs (X Y A B C D : SI) (i0 i1 : Option Int)
    (h0 : LeastCommon A C i0) (h1 : LeastCommon B D i1)
    (hAC : ∀ x, LM A x → LM C x → X.mem x ∧ Y.mem x ∧ Up X Y x)
    (hBD : ∀ x, LM B x → LM D x → X.mem x ∧ Y.mem x ∧ Lo X Y x)
    (hU : ∀ x, X.mem x → Y.mem x → Up X Y x → LM A x ∧ LM C x)
    (hL : ∀ x, X.mem x → Y.mem x → Lo X Y x → LM B x ∧ LM D x) :
    MciSpec X Y (firstOf i0 i1) := by
  cases i0 with
  | some m =>
    refine ⟨?_, (fun hn => by cases hn)⟩
    intro m' hm'
    cases hm'
    obtain ⟨n, e, a1, a2, a3⟩ := h0.1 m rfl
    obtain ⟨b1, b2, b3⟩ := hAC n a1 a2
    refine ⟨n, e, b1, b2, Or.inl b3, ?_⟩
    intro x hx hy
    refine ⟨fun hu => ⟨b3, ?_⟩, fun _ => Or.inl b3⟩
    obtain ⟨c1, c2⟩ := hU x hx hy hu
    exact a3 x c1 c2
  | none =>
    have hnoU : ∀ x, X.mem x → Y.mem x → ¬ Up X Y x := by
      intro x hx hy hu
      obtain ⟨c1, c2⟩ := hU x hx hy hu
      exact h0.2 rfl x ⟨c1, c2⟩
    cases i1 with
    | some m =>
      refine ⟨?_, (fun hn => by cases hn)⟩
      intro m' hm'
      cases hm'
      obtain ⟨n, e, a1, a2, a3⟩ := h1.1 m rfl
      obtain ⟨b1, b2, b3⟩ := hBD n a1 a2
      refine ⟨n, e, b1, b2, Or.inr b3, ?_⟩
      intro x hx hy
      refine ⟨fun hu => absurd hu (hnoU x hx hy), fun hl => Or.inr ?_⟩
      obtain ⟨c1, c2⟩ := hL x hx hy hl
      exact a3 x c1 c2
    | none =>
      refine ⟨(fun m hm => by cases hm), ?_⟩
      intro _ x hx hy
      refine ⟨hnoU x hx hy, ?_⟩
      intro hl
      obtain ⟨c1, c2⟩ := hL x hx hy hl
      exact h1.2 rfl x ⟨c1, c2⟩

theorem firstOf_bind (P0 P1 : R (Option Int)) (o : Option Int)
    (h : (P0 >>= fun i0 => P1 >>= fun i1 => pure (match i0 with | none => i1 | some v => some v)) = .ok o) :
    ∃ i0 i1, P0 = .ok i0 ∧ P1 = .ok i1 ∧ o = firstOf i0 i1 := by
  obtain ⟨i0, h0, h⟩ := bind_ok' h
  obtain ⟨i1, h1, h⟩ := bind_ok' h
  exact ⟨i0, i1, h0, h1, pure_ok' h⟩

/-- **`_minimal_common_integer`**.  A wrapping operand must split into two pieces (it does when it is aligned), or be
entirely before the pole while the other operand has two pieces and ends before it starts. -/
theorem minimalCommonInteger_spec (w : Nat) (X Y : SI) (hX : WFw w X) (hY : WFw w Y) (hXb : X.bottom = false)
    (hYb : Y.bottom = false)
    (HX : X.ub < X.lb → TwoPieces X ∨ (TwoPieces Y ∧ Y.ub < X.lb))
    (HY : Y.ub < Y.lb → TwoPieces Y ∨ (TwoPieces X ∧ X.ub < Y.lb))
    (o : Option Int) (h : minimalCommonInteger X Y = .ok o) : MciSpec X Y o := by
  have stX : ∀ p, WFw w p → (p.stride = 0 ↔ p.lb = p.ub) := fun p hp => hp.1.2.2.2
  unfold minimalCommonInteger at h
  by_cases wX : X.ub < X.lb
  · obtain ⟨A, hAw, hAb, hAle, hAl, hXs⟩ := ssplit_wrap_full w X hX hXb wX
    have lmA := lm_iff w A hAw hAb hAle
    by_cases wY : Y.ub < Y.lb
    · obtain ⟨C, hCw, hCb, hCle, hCl, hYs⟩ := ssplit_wrap_full w Y hY hYb wY
      have lmC := lm_iff w C hCw hCb hCle
      rcases hXs with ⟨hXs, hXm⟩ | ⟨B, hBw, hBb, hBle, hBu, hXs, hXm⟩
      · -- X: one piece (before the pole)
        have hXall : ∀ x, X.mem x → X.lb ≤ x := fun x hx => by
          have := (lmA x).2 ((hXm x).1 hx); unfold LM at this; omega
        rcases hYs with ⟨hYs, _⟩ | ⟨D, hDw, hDb, hDle, hDu, hYs, hYm⟩
        · exfalso
          rcases HX wX with ⟨_, _, h2⟩ | ⟨⟨_, _, h2⟩, _⟩
          · rw [hXs] at h2; cases h2
          · rw [hYs] at h2; cases h2
        · have lmD := lm_iff w D hDw hDb hDle
          have hYX : Y.ub < X.lb := by
            rcases HX wX with ⟨_, _, h2⟩ | ⟨_, h3⟩
            · rw [hXs] at h2; cases h2
            · exact h3
          rw [hXs, hYs] at h
          simp only [bind, Except.bind, List.length_cons, List.length_nil, and_self, if_true] at h
          obtain ⟨i0, i1, e0, e1, eo⟩ := firstOf_bind _ _ o h
          rw [eo]
          have l0 := leastCommon_symm A C i0 (mci_spec 2 C A i0 (stX C hCw) (stX A hAw) e0)
          have l1 := leastCommon_symm A D i1 (mci_spec 2 D A i1 (stX D hDw) (stX A hAw) e1)
          apply search_pairs X Y A A C D i0 i1 l0 l1
          · intro x h1 h2
            refine ⟨(hXm x).2 ((lmA x).1 h1), (hYm x).2 (Or.inl ((lmC x).1 h2)), ?_⟩
            unfold LM at h1 h2; unfold Up; omega
          · intro x h1 h2
            exfalso; unfold LM at h1 h2; omega
          · intro x hx hy hu
            refine ⟨(lmA x).2 ((hXm x).1 hx), ?_⟩
            rcases (hYm x).1 hy with hc | hd
            · exact (lmC x).2 hc
            · have := (lmD x).2 hd; unfold LM at this; unfold Up at hu; omega
          · intro x hx _ hl
            exfalso; have := hXall x hx; unfold Lo at hl; omega
      · have lmB := lm_iff w B hBw hBb hBle
        rcases hYs with ⟨hYs, hYm⟩ | ⟨D, hDw, hDb, hDle, hDu, hYs, hYm⟩
        · -- Y: one piece (before the pole)
          have hXY : X.ub < Y.lb := by
            rcases HY wY with ⟨_, _, h2⟩ | ⟨_, h3⟩
            · rw [hYs] at h2; cases h2
            · exact h3
          rw [hXs, hYs] at h
          simp only [bind, Except.bind, List.length_cons, List.length_nil] at h
          rw [if_neg (by omega)] at h
          simp only [] at h
          obtain ⟨i0, i1, e0, e1, eo⟩ := firstOf_bind _ _ o h
          rw [eo]
          have l0 := mci_spec 2 A C i0 (stX A hAw) (stX C hCw) e0
          have l1 := mci_spec 2 B C i1 (stX B hBw) (stX C hCw) e1
          apply search_pairs X Y A B C C i0 i1 l0 l1
          · intro x h1 h2
            refine ⟨(hXm x).2 (Or.inl ((lmA x).1 h1)), (hYm x).2 ((lmC x).1 h2), ?_⟩
            unfold LM at h1 h2; unfold Up; omega
          · intro x h1 h2
            exfalso; unfold LM at h1 h2; omega
          · intro x hx hy hu
            refine ⟨?_, (lmC x).2 ((hYm x).1 hy)⟩
            rcases (hXm x).1 hx with ha | hb
            · exact (lmA x).2 ha
            · have := (lmB x).2 hb; unfold LM at this; unfold Up at hu; omega
          · intro x _ hy hl
            exfalso
            have := (lmC x).2 ((hYm x).1 hy); unfold LM at this; unfold Lo at hl; omega
        · -- both have two pieces
          have lmD := lm_iff w D hDw hDb hDle
          rw [hXs, hYs] at h
          simp only [bind, Except.bind, List.length_cons, List.length_nil] at h
          rw [if_neg (by omega)] at h
          simp only [] at h
          obtain ⟨i0, i1, e0, e1, eo⟩ := firstOf_bind _ _ o h
          rw [eo]
          have l0 := mci_spec 2 A C i0 (stX A hAw) (stX C hCw) e0
          have l1 := mci_spec 2 B D i1 (stX B hBw) (stX D hDw) e1
          apply search_pairs X Y A B C D i0 i1 l0 l1
          · intro x h1 h2
            refine ⟨(hXm x).2 (Or.inl ((lmA x).1 h1)), (hYm x).2 (Or.inl ((lmC x).1 h2)), ?_⟩
            unfold LM at h1 h2; unfold Up; omega
          · intro x h1 h2
            refine ⟨(hXm x).2 (Or.inr ((lmB x).1 h1)), (hYm x).2 (Or.inr ((lmD x).1 h2)), ?_⟩
            unfold LM at h1 h2; unfold Lo; omega
          · intro x hx hy hu
            constructor
            · rcases (hXm x).1 hx with ha | hb
              · exact (lmA x).2 ha
              · have := (lmB x).2 hb; unfold LM at this; unfold Up at hu; omega
            · rcases (hYm x).1 hy with hc | hd
              · exact (lmC x).2 hc
              · have := (lmD x).2 hd; unfold LM at this; unfold Up at hu; omega
          · intro x hx hy hl
            constructor
            · rcases (hXm x).1 hx with ha | hb
              · have := (lmA x).2 ha; unfold LM at this; unfold Lo at hl; omega
              · exact (lmB x).2 hb
            · rcases (hYm x).1 hy with hc | hd
              · have := (lmC x).2 hc; unfold LM at this; unfold Lo at hl; omega
              · exact (lmD x).2 hd
    · -- Y does not wrap
      have hYs := ssplit_nowrap Y wY
      have hqw := renorm_WFw w Y hY
      have hqb : Y.renorm.bottom = false := by unfold SI.renorm; rw [hYb]; simp
      have hqle : Y.renorm.lb ≤ Y.renorm.ub := by
        unfold SI.renorm; rw [hYb]; simp only [Bool.false_eq_true, if_false]
        have hl := hY.1.2.1; have hu := hY.1.2.2.1
        exact new_nowrap _ _ _ _ hl hu (by omega)
      have lmq : ∀ x, LM Y.renorm x ↔ Y.mem x := fun x =>
        (lm_iff w Y.renorm hqw hqb hqle x).trans (renorm_mem Y hY.1 x)
      rcases hXs with ⟨hXs, _⟩ | ⟨B, hBw, hBb, hBle, hBu, hXs, hXm⟩
      · exfalso
        rcases HX wX with ⟨_, _, h2⟩ | ⟨⟨_, _, h2⟩, _⟩
        · rw [hXs] at h2; cases h2
        · rw [hYs] at h2; cases h2
      · have lmB := lm_iff w B hBw hBb hBle
        rw [hXs, hYs] at h
        simp only [bind, Except.bind, List.length_cons, List.length_nil] at h
        rw [if_neg (by omega)] at h
        simp only [] at h
        obtain ⟨i0, i1, e0, e1, eo⟩ := firstOf_bind _ _ o h
        rw [eo]
        have l0 := mci_spec 2 A Y.renorm i0 (stX A hAw) (stX _ hqw) e0
        have l1 := mci_spec 2 B Y.renorm i1 (stX B hBw) (stX _ hqw) e1
        apply search_pairs X Y A B Y.renorm Y.renorm i0 i1 l0 l1
        · intro x h1 h2
          refine ⟨(hXm x).2 (Or.inl ((lmA x).1 h1)), (lmq x).1 h2, ?_⟩
          unfold LM at h1; unfold Up; omega
        · intro x h1 h2
          refine ⟨(hXm x).2 (Or.inr ((lmB x).1 h1)), (lmq x).1 h2, ?_⟩
          unfold LM at h1; unfold Lo; omega
        · intro x hx hy hu
          refine ⟨?_, (lmq x).2 hy⟩
          rcases (hXm x).1 hx with ha | hb
          · exact (lmA x).2 ha
          · have := (lmB x).2 hb; unfold LM at this; unfold Up at hu; omega
        · intro x hx hy hl
          refine ⟨?_, (lmq x).2 hy⟩
          rcases (hXm x).1 hx with ha | hb
          · have := (lmA x).2 ha; unfold LM at this; unfold Lo at hl; omega
          · exact (lmB x).2 hb
  · -- X does not wrap
    have hXs := ssplit_nowrap X wX
    have hpw := renorm_WFw w X hX
    have hpb : X.renorm.bottom = false := by unfold SI.renorm; rw [hXb]; simp
    have hple : X.renorm.lb ≤ X.renorm.ub := by
      unfold SI.renorm; rw [hXb]; simp only [Bool.false_eq_true, if_false]
      have hl := hX.1.2.1; have hu := hX.1.2.2.1
      exact new_nowrap _ _ _ _ hl hu (by omega)
    have lmp : ∀ x, LM X.renorm x ↔ X.mem x := fun x =>
      (lm_iff w X.renorm hpw hpb hple x).trans (renorm_mem X hX.1 x)
    by_cases wY : Y.ub < Y.lb
    · obtain ⟨C, hCw, hCb, hCle, hCl, hYs⟩ := ssplit_wrap_full w Y hY hYb wY
      have lmC := lm_iff w C hCw hCb hCle
      rcases hYs with ⟨hYs, _⟩ | ⟨D, hDw, hDb, hDle, hDu, hYs, hYm⟩
      · exfalso
        rcases HY wY with ⟨_, _, h2⟩ | ⟨⟨_, _, h2⟩, _⟩
        · rw [hYs] at h2; cases h2
        · rw [hXs] at h2; cases h2
      · have lmD := lm_iff w D hDw hDb hDle
        rw [hXs, hYs] at h
        simp only [bind, Except.bind, List.length_cons, List.length_nil, and_self, if_true] at h
        obtain ⟨i0, i1, e0, e1, eo⟩ := firstOf_bind _ _ o h
        rw [eo]
        have l0 := leastCommon_symm X.renorm C i0 (mci_spec 2 C X.renorm i0 (stX C hCw) (stX _ hpw) e0)
        have l1 := leastCommon_symm X.renorm D i1 (mci_spec 2 D X.renorm i1 (stX D hDw) (stX _ hpw) e1)
        apply search_pairs X Y X.renorm X.renorm C D i0 i1 l0 l1
        · intro x h1 h2
          refine ⟨(lmp x).1 h1, (hYm x).2 (Or.inl ((lmC x).1 h2)), ?_⟩
          unfold LM at h2; unfold Up; omega
        · intro x h1 h2
          refine ⟨(lmp x).1 h1, (hYm x).2 (Or.inr ((lmD x).1 h2)), ?_⟩
          unfold LM at h2; unfold Lo; omega
        · intro x hx hy hu
          refine ⟨(lmp x).2 hx, ?_⟩
          rcases (hYm x).1 hy with hc | hd
          · exact (lmC x).2 hc
          · have := (lmD x).2 hd; unfold LM at this; unfold Up at hu; omega
        · intro x hx hy hl
          refine ⟨(lmp x).2 hx, ?_⟩
          rcases (hYm x).1 hy with hc | hd
          · have := (lmC x).2 hc; unfold LM at this; unfold Lo at hl; omega
          · exact (lmD x).2 hd
    · -- neither wraps: the raw operands are searched
      have hYs := ssplit_nowrap Y wY
      rw [hXs, hYs] at h
      simp only [bind, Except.bind, List.length_cons, List.length_nil] at h
      rw [if_neg (by omega)] at h
      simp only [] at h
      have lc := mci_spec 2 X Y o (stX X hX) (stX Y hY) h
      have lmX := lm_iff w X hX hXb (by omega)
      have lmY := lm_iff w Y hY hYb (by omega)
      refine ⟨?_, ?_⟩
      · intro m hm
        obtain ⟨n, e, a1, a2, a3⟩ := lc.1 m hm
        refine ⟨n, e, (lmX n).1 a1, (lmY n).1 a2, Or.inl ⟨fun hh => absurd hh wX, fun hh => absurd hh wY⟩, ?_⟩
        intro x hx hy
        have := a3 x ((lmX x).2 hx) ((lmY x).2 hy)
        exact ⟨fun _ => ⟨⟨fun hh => absurd hh wX, fun hh => absurd hh wY⟩, this⟩, fun _ => Or.inr this⟩
      · intro hn x hx hy
        exact absurd ⟨(lmX x).2 hx, (lmY x).2 hy⟩ (lc.2 hn x)

end Claripy.VSA
