import ClaripyProofs.Lemmas.VSA.Psplit
import ClaripyProofs.Lemmas.VSA.ShiftSound
import ClaripyProofs.Lemmas.VSA.BitsAux
import ClaripyProofs.Lemmas.VSA.NormalForm
/-! `rshift_arithmetic` is sound and closed: `_psplit` cuts the operand into non-wrapping pieces inside one half of the
circle; on such a piece the arithmetic shift is the logical shift, plus the sign mask in the upper half. -/
namespace Claripy.VSA

/-! ### the concrete arithmetic shift in closed form -/

/-- arithmetic shift of a `w`-bit value by `k ≤ w`, as the code computes it on a piece -/
def ashrN (w x k : Nat) : Nat :=
  if x < 2 ^ (w - 1) then x >>> k else x >>> k ||| (2 ^ k - 1) <<< (w - k)

theorem ashr_val (w x k : Nat) (hx : x < 2 ^ w) :
    Conc.ashr w x k = if x < 2 ^ (w - 1) then x >>> k else 2 ^ w - 1 - ((2 ^ w - 1 - x) >>> k) := by
  unfold Conc.ashr
  have hmsb : (BitVec.ofNat w x).msb = decide (2 ^ (w - 1) ≤ x) := by
    rw [BitVec.msb_eq_decide, BitVec.toNat_ofNat, Nat.mod_eq_of_lt hx]
  by_cases h : x < 2 ^ (w - 1)
  · rw [if_pos h]
    have : (BitVec.ofNat w x).msb = false := by rw [hmsb]; simp; omega
    rw [BitVec.sshiftRight_eq_of_msb_false this, BitVec.toNat_ushiftRight, BitVec.toNat_ofNat, Nat.mod_eq_of_lt hx]
  · rw [if_neg h]
    have : (BitVec.ofNat w x).msb = true := by rw [hmsb]; simp; omega
    rw [BitVec.sshiftRight_eq_of_msb_true this, BitVec.toNat_not, BitVec.toNat_ushiftRight, BitVec.toNat_not,
      BitVec.toNat_ofNat, Nat.mod_eq_of_lt hx]

/-- the sign mask: the top `k` bits of `w` -/
theorem mask_val (w k : Nat) (hk : k ≤ w) : (2 ^ k - 1) <<< (w - k) = 2 ^ w - 2 ^ (w - k) := by
  rw [Nat.shiftLeft_eq, Nat.sub_mul, Nat.one_mul, ← Nat.pow_add]
  congr 2
  omega

/-- `~(~x >> k) = (x >> k) + mask` -/
theorem ashr_high (w x k : Nat) (hk : k ≤ w) (hx : x < 2 ^ w) :
    2 ^ w - 1 - ((2 ^ w - 1 - x) >>> k) = x >>> k + (2 ^ w - 2 ^ (w - k)) ∧ x >>> k < 2 ^ (w - k) := by
  have hP := two_pow_pos' k
  have hQ := two_pow_pos' (w - k)
  have hw : 2 ^ w = 2 ^ k * 2 ^ (w - k) := by rw [← Nat.pow_add]; congr 1; omega
  simp only [Nat.shiftRight_eq_div_pow]
  have hq : x / 2 ^ k < 2 ^ (w - k) := Nat.div_lt_of_lt_mul (by rw [← hw]; exact hx)
  refine ⟨?_, hq⟩
  have e := Nat.div_add_mod x (2 ^ k)
  have hr := Nat.mod_lt x hP
  generalize x / 2 ^ k = q at *
  generalize x % 2 ^ k = r at *
  -- `2^w - 1 - x = (2^(w-k) - 1 - q) * 2^k + (2^k - 1 - r)`
  have hdiv : (2 ^ w - 1 - x) / 2 ^ k = 2 ^ (w - k) - 1 - q := by
    have hm : 2 ^ k * (2 ^ (w - k) - 1 - q) + 2 ^ k * q + 2 ^ k = 2 ^ k * 2 ^ (w - k) := by
      rw [← Nat.mul_add, ← Nat.mul_succ]
      congr 1; omega
    have : 2 ^ w - 1 - x = (2 ^ k - 1 - r) + 2 ^ k * (2 ^ (w - k) - 1 - q) := by omega
    rw [this, Nat.add_mul_div_left _ _ hP, Nat.div_eq_of_lt (by omega), Nat.zero_add]
  rw [hdiv]
  have hle : 2 ^ (w - k) ≤ 2 ^ w := Nat.pow_le_pow_right (by omega) (by omega)
  omega

theorem ashrN_val (w x k : Nat) (hk : k ≤ w) (hx : x < 2 ^ w) :
    ashrN w x k = if x < 2 ^ (w - 1) then x >>> k else x >>> k + (2 ^ w - 2 ^ (w - k)) := by
  unfold ashrN
  split
  · rfl
  · obtain ⟨_, hq⟩ := ashr_high w x k hk hx
    rw [mask_val w k hk]
    have hw : 2 ^ w = 2 ^ k * 2 ^ (w - k) := by rw [← Nat.pow_add]; congr 1; omega
    have : 2 ^ w - 2 ^ (w - k) = (2 ^ k - 1) * 2 ^ (w - k) := by rw [Nat.sub_mul, Nat.one_mul, ← hw]
    rw [this, Nat.or_comm, mul_or_low _ _ _ hq, Nat.add_comm]

/-- the concrete arithmetic shift by any amount is the closed form at the amount rounded to the width -/
theorem ashr_roundTo (w x y : Nat) (hx : x < 2 ^ w) : Conc.ashr w x y = ashrN w x (roundTo w y) := by
  have hrk : roundTo w y ≤ w := by unfold roundTo; split_ifs <;> omega
  rw [ashr_val w x y hx, ashrN_val w x _ hrk hx]
  by_cases hy : y > w
  · have hr : roundTo w y = w := by unfold roundTo; rw [if_pos hy]
    rw [hr]
    have z1 : x >>> y = 0 := by
      rw [Nat.shiftRight_eq_div_pow]
      exact Nat.div_eq_of_lt (Nat.lt_of_lt_of_le hx (Nat.pow_le_pow_right (by omega) (by omega)))
    have z2 : (2 ^ w - 1 - x) >>> y = 0 := by
      rw [Nat.shiftRight_eq_div_pow]
      have hp := two_pow_pos' w
      exact Nat.div_eq_of_lt (Nat.lt_of_lt_of_le (show 2 ^ w - 1 - x < 2 ^ w by omega)
        (Nat.pow_le_pow_right (by omega) (by omega)))
    have z3 : x >>> w = 0 := by rw [Nat.shiftRight_eq_div_pow]; exact Nat.div_eq_of_lt hx
    rw [z1, z2, z3]
    simp
  · have hr : roundTo w y = y := by unfold roundTo; rw [if_neg hy]
    rw [hr]
    split
    · rfl
    · exact (ashr_high w x y (by omega) hx).1

/-! ### the recursion of `_rshift_arithmetic` in structural form -/

/-- the loop `for q in rest: acc = acc.union(f(q))` -/
def unionLoop (f : SI → R SI) : List SI → SI → R SI
  | [], acc => pure acc
  | q :: qs, acc => match f q with
    | .error e => .error e
    | .ok x => match acc.union x with
      | .error e => .error e
      | .ok u => unionLoop f qs u

theorem unionLoop_eq (f : SI → R SI) (l : List SI) : ∀ acc : SI,
    (forIn l acc (fun q r => (do let x ← f q; let u ← r.union x; pure (ForInStep.yield u) : R _))) = unionLoop f l acc := by
  induction l with
  | nil => intro acc; rfl
  | cons q qs ih =>
    intro acc
    rw [List.forIn_cons]
    unfold unionLoop
    cases h : f q with
    | error e => rfl
    | ok x =>
      simp only [bind, Except.bind]
      cases h2 : acc.union x with
      | error e => rfl
      | ok u => simp only [pure, Except.pure]; exact ih _

/-- the single-piece result of `_rshift_arithmetic` -/
def ashrPiece (s p : SI) (k : Nat) : SI :=
  let high := decide (p.lb > 2 ^ (p.bits - 1) - 1)
  let lower := p.lb >>> k
  let upper := p.ub >>> k
  let stride := rshiftStride s.stride k
  let mask := (2 ^ k - 1) <<< (s.bits - k)
  let lower := if high then lower ||| mask else lower
  let upper := if high then upper ||| mask else upper
  let stride := if lower = upper then 0 else stride
  SI.new s.bits stride (lower : Int) (upper : Int)

theorem rshiftArithK_succ (fuel : Nat) (s : SI) (k : Nat) :
    rshiftArithK (fuel + 1) s k =
      if s.bottom then pure s else s.psplit >>= fun ps =>
        match ps with
        | [p] => pure (ashrPiece s p k)
        | [] => throw .assertion
        | p :: rest => rshiftArithK fuel p k >>= fun acc => unionLoop (fun q => rshiftArithK fuel q k) rest acc := by
  rw [rshiftArithK]
  split
  · rfl
  · congr
    funext ps
    split
    · rfl
    · rfl
    · rename_i p rest hne
      cases rest with
      | nil => exact absurd rfl hne
      | cons q qs =>
        show _ = rshiftArithK fuel p k >>= fun acc => unionLoop (fun q => rshiftArithK fuel q k) (q :: qs) acc
        congr
        funext acc
        rw [← unionLoop_eq]
        simp

/-- the loop returns an interval that contains the start value and every `f q` -/
theorem unionLoop_sup (w : Nat) (f : SI → R SI) : ∀ (l : List SI) (acc r : SI),
    (∀ q, q ∈ l → ∀ t, f q = .ok t → WFw w t) → WFw w acc → unionLoop f l acc = .ok r →
      WFw w r ∧ (∀ x, acc.mem x → r.mem x) ∧ ∀ q, q ∈ l → ∃ t, f q = .ok t ∧ ∀ x, t.mem x → r.mem x := by
  intro l
  induction l with
  | nil =>
    intro acc r _ hacc h
    have : r = acc := by cases h; rfl
    subst this
    exact ⟨hacc, fun x hx => hx, fun q hq => by cases hq⟩
  | cons q qs ih =>
    intro acc r hf hacc h
    unfold unionLoop at h
    cases hq : f q with
    | error e => rw [hq] at h; cases h
    | ok t =>
      rw [hq] at h
      simp only [] at h
      cases hu : acc.union t with
      | error e => rw [hu] at h; cases h
      | ok u =>
        rw [hu] at h
        simp only [] at h
        have ht := hf q List.mem_cons_self t hq
        obtain ⟨u1, u2⟩ := union_sup w acc t u hacc ht hu
        obtain ⟨r1, r2, r3⟩ := ih u r (fun q' hq' => hf q' (List.mem_cons_of_mem _ hq')) u1 h
        refine ⟨r1, fun x hx => r2 x (u2 x (Or.inl hx)), ?_⟩
        intro q' hq'
        rcases List.mem_cons.1 hq' with he | he
        · subst he
          exact ⟨t, hq, fun x hx => r2 x (u2 x (Or.inr hx))⟩
        · exact r3 q' he

/-! ### one piece -/

/-- membership in `SI.new w st' L U` for `L ≤ z ≤ U`, where the stride is dropped exactly when `L = U` -/
theorem mem_new_lin (w rs L U z : Nat) (hU : U < 2 ^ w) (h1 : L ≤ z) (h2 : z ≤ U) (h3 : rs ∣ z - L) :
    (SI.new w (if L = U then 0 else rs) (L : Int) (U : Int)).mem z := by
  have e1 : cd (2 ^ w) L z = z - L := by unfold cd; split_ifs <;> omega
  have e2 : cd (2 ^ w) L U = U - L := by unfold cd; split_ifs <;> omega
  apply mem_new_of w _ L U z (by omega) hU (by omega)
  · rw [e1, e2]; omega
  · rw [e1]
    split
    · have : z = L := by omega
      rw [this]; simp
    · exact h3
  · intro h0
    rw [e1]
    split at h0
    · omega
    · subst h0
      exact Nat.eq_zero_of_zero_dvd h3

/-- **one piece of `_rshift_arithmetic`**: a non-wrapping interval inside one half of the circle -/
theorem ashrPiece_spec (s p : SI) (k : Nat) (hs0 : 0 < s.bits) (hp : WFw s.bits p) (hle : p.lb ≤ p.ub)
    (hhalf : p.ub < 2 ^ (s.bits - 1) ∨ 2 ^ (s.bits - 1) ≤ p.lb) (hst : p.stride = 0 ∨ p.stride = s.stride)
    (hk : k ≤ s.bits) :
    WFw s.bits (ashrPiece s p k) ∧ ∀ x, p.mem x → (ashrPiece s p k).mem (ashrN s.bits x k) := by
  have hH := two_pow_pos' (s.bits - 1)
  have hm2 := two_pow_half s.bits hs0
  have hpl : p.lb < 2 ^ s.bits := by have := hp.1.2.1; rwa [hp.2] at this
  have hpu : p.ub < 2 ^ s.bits := by have := hp.1.2.2.1; rwa [hp.2] at this
  have hrs := rshiftStride_ne_zero s.stride k
  obtain ⟨_, hloq⟩ := ashr_high s.bits p.lb k hk hpl
  obtain ⟨_, hhiq⟩ := ashr_high s.bits p.ub k hk hpu
  have hQ : 2 ^ (s.bits - k) ≤ 2 ^ s.bits := Nat.pow_le_pow_right (by omega) (by omega)
  have hmono : p.lb >>> k ≤ p.ub >>> k := by
    simp only [Nat.shiftRight_eq_div_pow]; exact Nat.div_le_div_right hle
  -- the facts about a member: between the shifted bounds, offset divisible by the shifted stride
  have hz : ∀ x, p.mem x → p.lb ≤ x ∧ x ≤ p.ub ∧ p.lb >>> k ≤ x >>> k ∧ x >>> k ≤ p.ub >>> k ∧
      rshiftStride s.stride k ∣ x >>> k - p.lb >>> k := by
    intro x hx
    obtain ⟨hb1, hb2⟩ := mem_between p s.bits hp hle x hx
    have hm := rshift_piece_mem s.bits k s.stride p hp hle hst x hx
    have h1 : p.lb >>> k ≤ x >>> k := by simp only [Nat.shiftRight_eq_div_pow]; exact Nat.div_le_div_right hb1
    have h2 : x >>> k ≤ p.ub >>> k := by simp only [Nat.shiftRight_eq_div_pow]; exact Nat.div_le_div_right hb2
    rw [mem_new, imod_of_lt _ _ (by omega), imod_of_lt _ _ (by omega), if_neg hrs] at hm
    have e1 : cd (2 ^ s.bits) (p.lb >>> k) (x >>> k) = x >>> k - p.lb >>> k := by unfold cd; split_ifs <;> omega
    rw [e1] at hm
    exact ⟨hb1, hb2, h1, h2, Nat.dvd_of_mod_eq_zero hm.2.2⟩
  have hwf : ∀ (L U : Nat), WFw s.bits (SI.new s.bits (if L = U then 0 else rshiftStride s.stride k) (L : Int) (U : Int)) := by
    intro L U
    refine ⟨new_WF _ _ _ _ hs0 ?_, new_bits _ _ _ _⟩
    intro h0
    split at h0
    · rename_i he; rw [he]
    · exact absurd h0 hrs
  unfold ashrPiece
  simp only [hp.2, mask_val s.bits k hk]
  rcases hhalf with hlow | hhigh
  · have hnh : decide (p.lb > 2 ^ (s.bits - 1) - 1) = false := by simp; omega
    simp only [hnh, Bool.false_eq_true, if_false]
    refine ⟨hwf _ _, ?_⟩
    intro x hx
    obtain ⟨_, hb2, h1, h2, h3⟩ := hz x hx
    have hxl : x < 2 ^ s.bits := by omega
    rw [ashrN_val _ _ _ hk hxl, if_pos (show x < 2 ^ (s.bits - 1) by omega)]
    exact mem_new_lin s.bits _ _ _ _ (by omega) h1 h2 h3
  · have hnh : decide (p.lb > 2 ^ (s.bits - 1) - 1) = true := by simp; omega
    simp only [hnh, if_true]
    have hor : ∀ q, q < 2 ^ (s.bits - k) → q ||| (2 ^ s.bits - 2 ^ (s.bits - k)) = q + (2 ^ s.bits - 2 ^ (s.bits - k)) := by
      intro q hq
      have hw : 2 ^ s.bits = 2 ^ k * 2 ^ (s.bits - k) := by rw [← Nat.pow_add]; congr 1; omega
      have : 2 ^ s.bits - 2 ^ (s.bits - k) = (2 ^ k - 1) * 2 ^ (s.bits - k) := by rw [Nat.sub_mul, Nat.one_mul, ← hw]
      rw [this, Nat.or_comm, mul_or_low _ _ _ hq, Nat.add_comm]
    rw [hor _ hloq, hor _ hhiq]
    refine ⟨hwf _ _, ?_⟩
    intro x hx
    obtain ⟨hb1, hb2, h1, h2, h3⟩ := hz x hx
    have hxl : x < 2 ^ s.bits := by omega
    rw [ashrN_val _ _ _ hk hxl, if_neg (show ¬ x < 2 ^ (s.bits - 1) by omega)]
    apply mem_new_lin s.bits _ _ _ _ (by omega) (by omega) (by omega)
    rw [Nat.add_sub_add_right]
    exact h3

/-! ### the recursion, and the interval shift amount -/

/-- **`_rshift_arithmetic(k)` is sound and closed** (`k ≤ bits`; operand in constructor-normal form) -/
theorem rshiftArithK_sound (k : Nat) : ∀ (fuel : Nat) (s r : SI), s.WF → s.bottom = false → Nrm s → k ≤ s.bits →
    rshiftArithK fuel s k = .ok r → WFw s.bits r ∧ ∀ x, s.mem x → r.mem (ashrN s.bits x k) := by
  intro fuel
  induction fuel with
  | zero => intro s r _ _ _ _ h; unfold rshiftArithK at h; cases h
  | succ fuel ih =>
    intro s r hs hnb hn hk h
    rw [rshiftArithK_succ, hnb] at h
    simp only [Bool.false_eq_true, if_false] at h
    obtain ⟨ps, hps, hprop, hcov⟩ := psplit_spec s hs hnb hn
    rw [hps] at h
    simp only [bind, Except.bind] at h
    -- what the induction hypothesis gives on a piece
    have hpiece : ∀ q, q ∈ ps → ∀ t, rshiftArithK fuel q k = .ok t →
        WFw s.bits t ∧ ∀ x, q.mem x → t.mem (ashrN s.bits x k) := by
      intro q hq t ht
      obtain ⟨qw, qb, _, _, _, qn⟩ := hprop q hq
      have := ih q t qw.1 qb qn (by rw [qw.2]; exact hk) ht
      rw [qw.2] at this
      exact this
    match ps, hprop, hcov, hpiece, h with
    | [], _, _, _, h => cases h
    | [p], hprop, hcov, _, h =>
      have hr : r = ashrPiece s p k := by cases h; rfl
      subst hr
      obtain ⟨pw, _, ple, ph, pst, _⟩ := hprop p List.mem_cons_self
      obtain ⟨g1, g2⟩ := ashrPiece_spec s p k hs.1 pw ple ph pst hk
      refine ⟨g1, ?_⟩
      intro x hx
      obtain ⟨p', hp', hpx⟩ := hcov x hx
      have : p' = p := by simpa using hp'
      subst this
      exact g2 x hpx
    | p :: q :: rest, hprop, hcov, hpiece, h =>
      simp only [] at h
      cases ha : rshiftArithK fuel p k with
      | error e => rw [ha] at h; cases h
      | ok acc =>
        rw [ha] at h
        simp only [] at h
        obtain ⟨a1, a2⟩ := hpiece p List.mem_cons_self acc ha
        obtain ⟨r1, r2, r3⟩ := unionLoop_sup s.bits (fun q => rshiftArithK fuel q k) (q :: rest) acc r
          (fun q' hq' t ht => (hpiece q' (List.mem_cons_of_mem _ hq') t ht).1) a1 h
        refine ⟨r1, ?_⟩
        intro x hx
        obtain ⟨p', hp', hpx⟩ := hcov x hx
        rcases List.mem_cons.1 hp' with he | he
        · subst he; exact r2 _ (a2 x hpx)
        · obtain ⟨t, ht, hsub⟩ := r3 p' he
          exact hsub _ ((hpiece p' (List.mem_cons_of_mem _ he) t ht).2 x hpx)

/-- **`rshift_arithmetic` (interval shift amount) is sound and closed** -/
theorem ashr_sound (s amt r : SI) (hs : s.WF) (hnb : s.bottom = false) (hn : Nrm s) (hamt : amt.WF)
    (h : s.rshiftArith amt = .ok r) :
    WFw s.bits r ∧ ∀ x y, s.mem x → amt.mem y → r.mem (Conc.ashr s.bits x y) := by
  unfold SI.rshiftArith SI.rshiftArithRange at h
  simp only [] at h
  -- only amounts `≤ bits` are visited
  have hrange : (getShiftRange s amt).2 ≤ s.bits := by
    unfold getShiftRange roundTo
    split_ifs <;> simp only [] <;> omega
  have hf : ∀ k si, (fun k => if k ≤ s.bits then rshiftArithK recFuel s k else throw .assertion) k = .ok si →
      WFw s.bits si := by
    intro k si hk
    simp only [] at hk
    split at hk
    · rename_i hle; exact (rshiftArithK_sound k recFuel s si hs hnb hn hle hk).1
    · cases hk
  -- the loop only calls the function inside the range, where the guarded function agrees with it
  have hagree : overRange s (getShiftRange s amt).1 (getShiftRange s amt).2 (rshiftArithK recFuel s) =
      overRange s (getShiftRange s amt).1 (getShiftRange s amt).2
        (fun k => if k ≤ s.bits then rshiftArithK recFuel s k else throw .assertion) := by
    unfold overRange
    have : ∀ (l : List Nat) (acc : Option SI), (∀ k, k ∈ l → k ≤ s.bits) →
        overRangeAux (rshiftArithK recFuel s) l acc =
          overRangeAux (fun k => if k ≤ s.bits then rshiftArithK recFuel s k else throw .assertion) l acc := by
      intro l
      induction l with
      | nil => intro acc _; rfl
      | cons k ks ihl =>
        intro acc hall
        unfold overRangeAux
        simp only [if_pos (hall k List.mem_cons_self)]
        cases hk : rshiftArithK recFuel s k with
        | error e => rfl
        | ok si =>
          simp only []
          cases acc with
          | none => exact ihl _ (fun k' hk' => hall k' (List.mem_cons_of_mem _ hk'))
          | some r0 =>
            simp only []
            cases r0.union si with
            | error e => rfl
            | ok u => exact ihl _ (fun k' hk' => hall k' (List.mem_cons_of_mem _ hk'))
    rw [this]
    intro k hk
    obtain ⟨i, hi, hik⟩ := List.mem_map.1 hk
    have := List.mem_range.1 hi
    omega
  rw [hagree] at h
  obtain ⟨h1, h2⟩ := overRange_sup s.bits s rfl hs.1 _ _ _ hf r h
  refine ⟨h1, ?_⟩
  intro x y hx hy
  obtain ⟨hc1, hc2⟩ := getShiftRange_covers s amt hamt y hy
  obtain ⟨si, hsi, hsub⟩ := h2 _ hc1 hc2
  have hxlt : x < 2 ^ s.bits := (mem_facts s x hs hx).2.1
  have hrk : roundTo s.bits y ≤ s.bits := by unfold roundTo; split_ifs <;> omega
  simp only [if_pos hrk] at hsi
  rw [ashr_roundTo _ _ _ hxlt]
  exact hsub _ ((rshiftArithK_sound _ recFuel s si hs hnb hn hrk hsi).2 x hx)

end Claripy.VSA
