import ClaripyProofs.Lemmas.VSA.BitsAux
/-! Warren's `min_or` / `max_or` (Hacker's Delight 4-3) as the code computes them are bounds of `x ||| y` over the box
`a ≤ x ≤ b`, `c ≤ y ≤ d`.  The loops scan the bit positions from the top; the induction hypothesis is stated for the
remaining positions `< k` and for values that agree with `a`, `c` (resp. `b`, `d`) above position `k`. -/
namespace Claripy.VSA

/-! ### `setAndClearBelow` -/

theorem sacb_eq (a k : Nat) : setAndClearBelow a k = (a / 2 ^ k ||| 1) * 2 ^ k := by
  unfold setAndClearBelow
  rw [Nat.shiftLeft_eq, Nat.shiftRight_eq_div_pow, or_div_pow, Nat.div_self (two_pow_pos' k)]

theorem sacb_div (a k : Nat) : setAndClearBelow a k / 2 ^ k = a / 2 ^ k ||| 1 := by
  rw [sacb_eq, Nat.mul_div_cancel _ (two_pow_pos' k)]

theorem sacb_mod (a k : Nat) : setAndClearBelow a k % 2 ^ k = 0 := by
  rw [sacb_eq, Nat.mul_mod_left]

/-! ### `min_or` -/

/-- the part of the result above the remaining positions is that of `a ||| c` -/
theorem minOrLoop_high : ∀ (k a b c d : Nat), minOrLoop k a b c d / 2 ^ k = a / 2 ^ k ||| c / 2 ^ k
  | 0, a, b, c, d => by simp [minOrLoop]
  | k + 1, a, b, c, d => by
    have ih := minOrLoop_high k a b c d
    have hrec : minOrLoop k a b c d / 2 ^ (k + 1) = a / 2 ^ (k + 1) ||| c / 2 ^ (k + 1) := by
      rw [div_succ_pow, ih, Nat.or_div_two, ← div_succ_pow, ← div_succ_pow]
    have h1 : (setAndClearBelow a k ||| c) / 2 ^ (k + 1) = a / 2 ^ (k + 1) ||| c / 2 ^ (k + 1) := by
      rw [or_div_pow]
      congr 1
      rw [div_succ_pow, sacb_div, Nat.or_div_two, div_succ_pow]
      simp
    have h2 : (a ||| setAndClearBelow c k) / 2 ^ (k + 1) = a / 2 ^ (k + 1) ||| c / 2 ^ (k + 1) := by
      rw [or_div_pow]
      congr 1
      rw [div_succ_pow, sacb_div, Nat.or_div_two, div_succ_pow]
      simp
    unfold minOrLoop
    simp only []
    split_ifs <;> first | exact hrec | exact h1 | exact h2

/-- two or-combinations agree when their halves and their lowest bits do -/
theorem or_congr_bits (u v u' v' : Nat) (h1 : u / 2 ||| v / 2 = u' / 2 ||| v' / 2)
    (h2 : (u % 2 = 1 ∨ v % 2 = 1) ↔ (u' % 2 = 1 ∨ v' % 2 = 1)) : u ||| v = u' ||| v' := by
  rw [or_eq_half u v, or_eq_half u' v', h1]
  by_cases h : u % 2 = 1 ∨ v % 2 = 1
  · rw [if_pos h, if_pos (h2.1 h)]
  · rw [if_neg h, if_neg (fun h' => h (h2.2 h'))]

/-- the first exit of `min_or`: bit `k` of `a` is 0, of `c` is 1 -/
theorem minOr_exit (k a c x y : Nat) (hax : a / 2 ^ k / 2 = x / 2 ^ k / 2) (hcy : c / 2 ^ k = y / 2 ^ k)
    (hle : c ≤ y) (_ha : a / 2 ^ k % 2 = 0) (hc : c / 2 ^ k % 2 = 1) :
    setAndClearBelow a k ||| c ≤ x ||| y := by
  apply le_of_div_eq (2 ^ k)
  · rw [or_div_pow, or_div_pow, sacb_div, hcy]
    apply or_congr_bits
    · rw [Nat.or_div_two, hax]; simp
    · rw [hcy] at hc; simp [hc]
  · rw [Nat.or_mod_two_pow, Nat.or_mod_two_pow, sacb_mod, Nat.zero_or]
    exact Nat.le_trans (mod_le_of_div_eq _ _ _ hle hcy) Nat.right_le_or

/-- if bit `k` of `x` were set, `x` would be at least `setAndClearBelow a k` -/
theorem sacb_le (k a x : Nat) (hax : a / 2 ^ k / 2 = x / 2 ^ k / 2) (ha : a / 2 ^ k % 2 = 0) (hx : x / 2 ^ k % 2 = 1) :
    setAndClearBelow a k ≤ x := by
  rw [sacb_eq, or_one_even _ ha]
  have : a / 2 ^ k + 1 = x / 2 ^ k := by omega
  rw [this]
  exact Nat.div_mul_le_self x (2 ^ k)

/-- **`min_or` is a lower bound** (loop form) -/
theorem minOrLoop_le : ∀ (k a b c d x y : Nat), a ≤ x → x ≤ b → c ≤ y → y ≤ d →
    x / 2 ^ k = a / 2 ^ k → y / 2 ^ k = c / 2 ^ k → minOrLoop k a b c d ≤ x ||| y
  | 0, a, b, c, d, x, y, _, _, _, _, hx, hy => by
    simp only [Nat.pow_zero, Nat.div_one] at hx hy
    subst hx; subst hy
    exact Nat.le_refl _
  | k + 1, a, b, c, d, x, y, hax, hxb, hcy, hyd, hx, hy => by
    have ih := minOrLoop_le k a b c d x y hax hxb hcy hyd
    rw [div_succ_pow, div_succ_pow] at hx hy
    have hza : a / 2 ^ k ≤ x / 2 ^ k := Nat.div_le_div_right hax
    have hzc : c / 2 ^ k ≤ y / 2 ^ k := Nat.div_le_div_right hcy
    -- the recursive call is fine unless one of the exits' premises holds
    have hrec : (a / 2 ^ k % 2 = 0 → c / 2 ^ k % 2 = 1 → x / 2 ^ k % 2 = 0) →
        (a / 2 ^ k % 2 = 1 → c / 2 ^ k % 2 = 0 → y / 2 ^ k % 2 = 0) → minOrLoop k a b c d ≤ x ||| y := by
      intro g1 g2
      by_cases he : x / 2 ^ k = a / 2 ^ k ∧ y / 2 ^ k = c / 2 ^ k
      · exact ih he.1 he.2
      · -- both bits of `a`, `c` are 0 and one of `x`, `y` has the bit set: compare above position `k`
        have hpa : a / 2 ^ k % 2 = 0 := by omega
        have hpc : c / 2 ^ k % 2 = 0 := by omega
        apply Nat.le_of_lt
        apply lt_of_div_lt (2 ^ k)
        rw [minOrLoop_high, or_div_pow, or_eq_half (a / 2 ^ k), or_eq_half (x / 2 ^ k), hx, hy]
        have hodd : x / 2 ^ k % 2 = 1 ∨ y / 2 ^ k % 2 = 1 := by omega
        rw [if_pos hodd, if_neg (by omega)]
        omega
    unfold minOrLoop
    by_cases h1 : (!a.testBit k && c.testBit k) = true
    · rw [if_pos h1]
      have h1' : a.testBit k = false ∧ c.testBit k = true := by simpa using h1
      have hpa := (testBit_false_iff a k).1 h1'.1
      have hpc := (testBit_iff c k).1 h1'.2
      have hyc : c / 2 ^ k = y / 2 ^ k := by omega
      simp only []
      by_cases h2 : setAndClearBelow a k ≤ b
      · rw [if_pos h2]
        exact minOr_exit k a c x y hx.symm hyc hcy hpa hpc
      · rw [if_neg h2]
        apply hrec
        · intro _ _
          rcases Nat.mod_two_eq_zero_or_one (x / 2 ^ k) with h | h
          · exact h
          · have := sacb_le k a x hx.symm hpa h
            omega
        · intro h; omega
    · rw [if_neg h1]
      by_cases h3 : (a.testBit k && !c.testBit k) = true
      · rw [if_pos h3]
        have h3' : a.testBit k = true ∧ c.testBit k = false := by simpa using h3
        have hpa := (testBit_iff a k).1 h3'.1
        have hpc := (testBit_false_iff c k).1 h3'.2
        have hxa : a / 2 ^ k = x / 2 ^ k := by omega
        simp only []
        by_cases h2 : setAndClearBelow c k ≤ d
        · rw [if_pos h2]
          rw [Nat.or_comm a, Nat.or_comm x]
          exact minOr_exit k c a y x hy.symm hxa hax hpc hpa
        · rw [if_neg h2]
          apply hrec
          · intro h; omega
          · intro _ _
            rcases Nat.mod_two_eq_zero_or_one (y / 2 ^ k) with h | h
            · exact h
            · have := sacb_le k c y hy.symm hpc h
              omega
      · rw [if_neg h3]
        apply hrec
        · intro ha hc
          exfalso; apply h1
          simp [(testBit_false_iff a k).2 ha, (testBit_iff c k).2 hc]
        · intro ha hc
          exfalso; apply h3
          simp [(testBit_iff a k).2 ha, (testBit_false_iff c k).2 hc]

/-- **Warren's `min_or` bounds `x ||| y` from below** over `a ≤ x ≤ b`, `c ≤ y ≤ d` (values below `2^w`) -/
theorem minOr_le (a b c d w x y : Nat) (hax : a ≤ x) (hxb : x ≤ b) (hcy : c ≤ y) (hyd : y ≤ d)
    (hb : b < 2 ^ w) (hd : d < 2 ^ w) : minOr a b c d w ≤ x ||| y := by
  unfold minOr
  apply minOrLoop_le w a b c d x y hax hxb hcy hyd
  · rw [Nat.div_eq_of_lt (by omega), Nat.div_eq_of_lt (by omega)]
  · rw [Nat.div_eq_of_lt (by omega), Nat.div_eq_of_lt (by omega)]

/-! ### `max_or` -/

/-- `(b - 2^k) | (2^k - 1)`: bit `k` cleared (when set), everything below set -/
theorem mtemp_div (b k : Nat) : ((b - 2 ^ k) ||| (2 ^ k - 1)) / 2 ^ k = b / 2 ^ k - 1 := by
  have hp := two_pow_pos' k
  rw [or_div_pow, Nat.div_eq_of_lt (show 2 ^ k - 1 < 2 ^ k by omega), Nat.or_zero]
  have := Nat.sub_mul_div b (2 ^ k) 1
  rw [Nat.mul_one] at this
  exact this

theorem mtemp_mod (b k : Nat) : ((b - 2 ^ k) ||| (2 ^ k - 1)) % 2 ^ k = 2 ^ k - 1 := by
  have hp := two_pow_pos' k
  rw [Nat.or_mod_two_pow, Nat.mod_eq_of_lt (show 2 ^ k - 1 < 2 ^ k by omega)]
  exact or_ones _ _ (Nat.mod_lt _ hp)

theorem maxOrLoop_high : ∀ (k a b c d : Nat), maxOrLoop k a b c d / 2 ^ k = b / 2 ^ k ||| d / 2 ^ k
  | 0, a, b, c, d => by simp [maxOrLoop]
  | k + 1, a, b, c, d => by
    have ih := maxOrLoop_high k a b c d
    have hrec : maxOrLoop k a b c d / 2 ^ (k + 1) = b / 2 ^ (k + 1) ||| d / 2 ^ (k + 1) := by
      rw [div_succ_pow, ih, Nat.or_div_two, ← div_succ_pow, ← div_succ_pow]
    unfold maxOrLoop
    by_cases h1 : (b.testBit k && d.testBit k) = true
    · rw [if_pos h1]
      have h1' : b.testBit k = true ∧ d.testBit k = true := by simpa using h1
      have hpb := (testBit_iff b k).1 h1'.1
      have hpd := (testBit_iff d k).1 h1'.2
      have e1 : (((b - 2 ^ k) ||| (2 ^ k - 1)) ||| d) / 2 ^ (k + 1) = b / 2 ^ (k + 1) ||| d / 2 ^ (k + 1) := by
        rw [or_div_pow]
        congr 1
        rw [div_succ_pow, mtemp_div, div_succ_pow]
        generalize b / 2 ^ k = zb at *
        generalize d / 2 ^ k = zd at *
        omega
      have e2 : (b ||| ((d - 2 ^ k) ||| (2 ^ k - 1))) / 2 ^ (k + 1) = b / 2 ^ (k + 1) ||| d / 2 ^ (k + 1) := by
        rw [or_div_pow]
        congr 1
        rw [div_succ_pow, mtemp_div, div_succ_pow]
        generalize b / 2 ^ k = zb at *
        generalize d / 2 ^ k = zd at *
        omega
      simp only []
      split_ifs <;> first | exact hrec | exact e1 | exact e2
    · rw [if_neg h1]; exact hrec

/-- an exit of `max_or`: bit `k` of both `b` and `d` is set -/
theorem maxOr_exit (k b d x y : Nat) (hbx : b / 2 ^ k / 2 = x / 2 ^ k / 2) (hdy : d / 2 ^ k / 2 = y / 2 ^ k / 2)
    (hb : b / 2 ^ k % 2 = 1) (hd : d / 2 ^ k % 2 = 1) :
    x ||| y ≤ ((b - 2 ^ k) ||| (2 ^ k - 1)) ||| d := by
  have hp := two_pow_pos' k
  apply le_of_div_le_mod_max (2 ^ k) _ _ hp
  · rw [or_div_pow, or_div_pow, mtemp_div]
    generalize b / 2 ^ k = zb at *
    generalize d / 2 ^ k = zd at *
    generalize x / 2 ^ k = zx at *
    generalize y / 2 ^ k = zy at *
    have e : (zb - 1) / 2 = zx / 2 := by omega
    rw [or_eq_half zx, or_eq_half (zb - 1), e, hdy, if_pos (Or.inr hd)]
    split_ifs <;> omega
  · rw [Nat.or_mod_two_pow, mtemp_mod, Nat.or_comm]
    exact or_ones _ _ (Nat.mod_lt _ hp)

/-- if bit `k` of `x` were clear, `x` would be at most `(b - 2^k) | (2^k - 1)` -/
theorem le_mtemp (k b x : Nat) (hbx : b / 2 ^ k / 2 = x / 2 ^ k / 2) (hb : b / 2 ^ k % 2 = 1) (hx : x / 2 ^ k % 2 = 0) :
    x ≤ (b - 2 ^ k) ||| (2 ^ k - 1) := by
  have hp := two_pow_pos' k
  apply le_of_div_le_mod_max (2 ^ k) _ _ hp
  · rw [mtemp_div]
    generalize b / 2 ^ k = zb at *
    generalize x / 2 ^ k = zx at *
    omega
  · exact mtemp_mod b k

/-- **`max_or` is an upper bound** (loop form) -/
theorem maxOrLoop_ge : ∀ (k a b c d x y : Nat), a ≤ x → x ≤ b → c ≤ y → y ≤ d →
    x / 2 ^ k = b / 2 ^ k → y / 2 ^ k = d / 2 ^ k → x ||| y ≤ maxOrLoop k a b c d
  | 0, a, b, c, d, x, y, _, _, _, _, hx, hy => by
    simp only [Nat.pow_zero, Nat.div_one] at hx hy
    subst hx; subst hy
    exact Nat.le_refl _
  | k + 1, a, b, c, d, x, y, hax, hxb, hcy, hyd, hx, hy => by
    have ih := maxOrLoop_ge k a b c d x y hax hxb hcy hyd
    rw [div_succ_pow, div_succ_pow] at hx hy
    have hzb : x / 2 ^ k ≤ b / 2 ^ k := Nat.div_le_div_right hxb
    have hzd : y / 2 ^ k ≤ d / 2 ^ k := Nat.div_le_div_right hyd
    have hrec : (b / 2 ^ k % 2 = 1 → d / 2 ^ k % 2 = 1 → x / 2 ^ k % 2 = 1 ∧ y / 2 ^ k % 2 = 1) →
        x ||| y ≤ maxOrLoop k a b c d := by
      intro g
      by_cases he : x / 2 ^ k = b / 2 ^ k ∧ y / 2 ^ k = d / 2 ^ k
      · exact ih he.1 he.2
      · apply Nat.le_of_lt
        apply lt_of_div_lt (2 ^ k)
        rw [maxOrLoop_high, or_div_pow, or_eq_half (b / 2 ^ k), or_eq_half (x / 2 ^ k), hx, hy]
        split_ifs <;> omega
    unfold maxOrLoop
    by_cases h1 : (b.testBit k && d.testBit k) = true
    · rw [if_pos h1]
      have h1' : b.testBit k = true ∧ d.testBit k = true := by simpa using h1
      have hpb := (testBit_iff b k).1 h1'.1
      have hpd := (testBit_iff d k).1 h1'.2
      simp only []
      by_cases h2 : (b - 2 ^ k) ||| (2 ^ k - 1) ≥ a
      · rw [if_pos h2]
        exact maxOr_exit k b d x y hx.symm hy.symm hpb hpd
      · rw [if_neg h2]
        by_cases h3 : (d - 2 ^ k) ||| (2 ^ k - 1) ≥ c
        · rw [if_pos h3, Nat.or_comm b, Nat.or_comm x]
          exact maxOr_exit k d b y x hy.symm hx.symm hpd hpb
        · rw [if_neg h3]
          apply hrec
          intro _ _
          constructor
          · rcases Nat.mod_two_eq_zero_or_one (x / 2 ^ k) with h | h
            · have := le_mtemp k b x hx.symm hpb h
              omega
            · exact h
          · rcases Nat.mod_two_eq_zero_or_one (y / 2 ^ k) with h | h
            · have := le_mtemp k d y hy.symm hpd h
              omega
            · exact h
    · rw [if_neg h1]
      apply hrec
      intro hb hd
      exfalso; apply h1
      simp [(testBit_iff b k).2 hb, (testBit_iff d k).2 hd]

/-- **Warren's `max_or` bounds `x ||| y` from above** over `a ≤ x ≤ b`, `c ≤ y ≤ d` (values below `2^w`) -/
theorem le_maxOr (a b c d w x y : Nat) (hax : a ≤ x) (hxb : x ≤ b) (hcy : c ≤ y) (hyd : y ≤ d)
    (hb : b < 2 ^ w) (hd : d < 2 ^ w) : x ||| y ≤ maxOr a b c d w := by
  unfold maxOr
  apply maxOrLoop_ge w a b c d x y hax hxb hcy hyd
  · rw [Nat.div_eq_of_lt (by omega), Nat.div_eq_of_lt (by omega)]
  · rw [Nat.div_eq_of_lt (by omega), Nat.div_eq_of_lt (by omega)]

/-! ### the degenerate boxes used by the stride shortcut of `bitwise_or` -/

theorem minOrLoop_zero_left : ∀ (k c d : Nat), minOrLoop k 0 0 c d = c
  | 0, c, d => by simp [minOrLoop]
  | k + 1, c, d => by
    have hp := two_pow_pos' k
    unfold minOrLoop
    have : ¬ setAndClearBelow 0 k ≤ 0 := by
      rw [sacb_eq]; simp
    simp [this, minOrLoop_zero_left k c d]

theorem minOrLoop_zero_right : ∀ (k a b : Nat), minOrLoop k a b 0 0 = a
  | 0, a, b => by simp [minOrLoop]
  | k + 1, a, b => by
    have hp := two_pow_pos' k
    unfold minOrLoop
    have : ¬ setAndClearBelow 0 k ≤ 0 := by
      rw [sacb_eq]; simp
    simp [this, minOrLoop_zero_right k a b]

theorem maxOrLoop_zero_left : ∀ (k c d : Nat), maxOrLoop k 0 0 c d = d
  | 0, c, d => by simp [maxOrLoop]
  | k + 1, c, d => by
    unfold maxOrLoop
    simp [maxOrLoop_zero_left k c d]

theorem maxOrLoop_zero_right : ∀ (k a b : Nat), maxOrLoop k a b 0 0 = b
  | 0, a, b => by simp [maxOrLoop]
  | k + 1, a, b => by
    unfold maxOrLoop
    simp [maxOrLoop_zero_right k a b]

end Claripy.VSA
