import ClaripyProofs.Lemmas.VSA.MeetFinal
import Mathlib.Tactic.Ring
import Mathlib.Tactic.Linarith
/-! Intervals given by integer bounds `LB ≤ UB` with `UB - LB < 2^w` (the partial products of `mul` before reduction):
membership of the reduced value, well-formedness, alignment. -/
namespace Claripy.VSA

theorem imod_cast (x : Int) (w : Nat) : ((imod x w : Nat) : Int) = x % ((2 ^ w : Nat) : Int) := by
  unfold imod
  have h : (0 : Int) < ((2 ^ w : Nat) : Int) := by exact_mod_cast two_pow_pos' w
  exact Int.toNat_of_nonneg (Int.emod_nonneg x (Int.ne_of_gt h))

/-- the clockwise distance between the reductions of two integers less than a full turn apart -/
theorem cd_imod (L V : Int) (w : Nat) (h0 : 0 ≤ V - L) (h1 : V - L < ((2 ^ w : Nat) : Int)) :
    cd (2 ^ w) (imod L w) (imod V w) = (V - L).toNat := by
  have hm : (0 : Int) < ((2 ^ w : Nat) : Int) := by exact_mod_cast two_pow_pos' w
  have e1 := imod_cast L w
  have e2 := imod_cast V w
  have hl := imod_lt L w
  have hv := imod_lt V w
  -- `V % N = (L % N + (V - L)) % N`
  have hd1 := Int.emod_add_mul_ediv L ((2 ^ w : Nat) : Int)
  have hd2 := Int.emod_add_mul_ediv V ((2 ^ w : Nat) : Int)
  have hq : V / ((2 ^ w : Nat) : Int) = L / ((2 ^ w : Nat) : Int) ∨ V / ((2 ^ w : Nat) : Int) = L / ((2 ^ w : Nat) : Int) + 1 := by
    have a1 := Int.emod_nonneg L (Int.ne_of_gt hm)
    have a2 := Int.emod_lt_of_pos L hm
    have a3 := Int.emod_nonneg V (Int.ne_of_gt hm)
    have a4 := Int.emod_lt_of_pos V hm
    generalize V / ((2 ^ w : Nat) : Int) = qv at *
    generalize L / ((2 ^ w : Nat) : Int) = ql at *
    generalize V % ((2 ^ w : Nat) : Int) = rv at *
    generalize L % ((2 ^ w : Nat) : Int) = rl at *
    generalize ((2 ^ w : Nat) : Int) = N at *
    by_contra hc
    have hc1 : qv ≠ ql := fun h => hc (Or.inl h)
    have hc2 : qv ≠ ql + 1 := fun h => hc (Or.inr h)
    rcases Int.lt_or_gt_of_ne hc1 with h | h
    · have : N * qv ≤ N * (ql - 1) := Int.mul_le_mul_of_nonneg_left (by omega) (Int.le_of_lt hm)
      nlinarith
    · have : N * (ql + 2) ≤ N * qv := Int.mul_le_mul_of_nonneg_left (by omega) (Int.le_of_lt hm)
      nlinarith
  have key : (cd (2 ^ w) (imod L w) (imod V w) : Int) = V - L := by
    unfold cd
    rcases hq with h | h
    · rw [h] at hd2
      have : V % ((2 ^ w : Nat) : Int) = L % ((2 ^ w : Nat) : Int) + (V - L) := by linarith
      split_ifs <;> push_cast <;> omega
    · rw [h] at hd2
      have : V % ((2 ^ w : Nat) : Int) + ((2 ^ w : Nat) : Int) = L % ((2 ^ w : Nat) : Int) + (V - L) := by
        have : ((2 ^ w : Nat) : Int) * (L / ((2 ^ w : Nat) : Int) + 1) =
            ((2 ^ w : Nat) : Int) * (L / ((2 ^ w : Nat) : Int)) + ((2 ^ w : Nat) : Int) := by ring
        linarith
      split_ifs <;> push_cast <;> omega
  omega

/-- **an interval given by integer bounds less than a full turn apart** (else the full circle): well formed, normal,
aligned, and it contains the reduction of every integer between the bounds that is congruent to the lower bound -/
theorem finInterval (w g : Nat) (LB UB V : Int) (hw : 0 < w) (h1 : LB ≤ V) (h2 : V ≤ UB)
    (hgV : (g : Int) ∣ V - LB) (hgU : (g : Int) ∣ UB - LB) :
    WFw w (if UB - LB < 2 ^ w then SI.new w g LB UB else SI.top w) ∧
      Nrm (if UB - LB < 2 ^ w then SI.new w g LB UB else SI.top w) ∧
      (if UB - LB < 2 ^ w then SI.new w g LB UB else SI.top w).Aligned ∧
      (if UB - LB < 2 ^ w then SI.new w g LB UB else SI.top w).mem (imod V w) := by
  have hN : ((2 : Int) ^ w) = ((2 ^ w : Nat) : Int) := by push_cast; rfl
  by_cases hlt : UB - LB < 2 ^ w
  · rw [if_pos hlt]
    rw [hN] at hlt
    have cU := cd_imod LB UB w (by omega) hlt
    have cV := cd_imod LB V w (by omega) (by omega)
    have hUn : ((UB - LB).toNat : Int) = UB - LB := Int.toNat_of_nonneg (by omega)
    have hVn : ((V - LB).toNat : Int) = V - LB := Int.toNat_of_nonneg (by omega)
    have dU : g ∣ (UB - LB).toNat := by
      have := hgU; rw [← hUn] at this; exact Int.natCast_dvd_natCast.1 this
    have dV : g ∣ (V - LB).toNat := by
      have := hgV; rw [← hVn] at this; exact Int.natCast_dvd_natCast.1 this
    have hl := imod_lt LB w
    have hu := imod_lt UB w
    have hg0 : g = 0 → imod LB w = imod UB w := by
      intro h0
      rw [h0] at dU
      have := Nat.eq_zero_of_zero_dvd dU
      rw [this] at cU
      exact (cd_eq_zero _ _ _ hl hu).1 cU
    have hWF : (SI.new w g LB UB).WF := new_WF w g LB UB hw hg0
    refine ⟨⟨hWF, new_bits _ _ _ _⟩, nrm_new _ _ _ _ hw, ?_, ?_⟩
    · -- alignment: the span is `UB - LB`, up to the normalisations of the constructor
      unfold SI.Aligned SI.span
      rw [new_eq]
      by_cases he : imod LB w = imod UB w
      · rw [if_pos he]; left; rfl
      · rw [if_neg he]
        by_cases ht : imod LB w = (imod UB w + 1) % 2 ^ w ∧ g = 1
        · rw [if_pos ht]; right
          show modSub _ _ _ % g = 0
          rw [ht.2]; exact Nat.mod_one _
        · rw [if_neg ht]; right
          show modSub ((imod UB w : Nat) : Int) ((imod LB w : Nat) : Int) w % g = 0
          rw [modSub_nat _ _ _ hu hl, cU]
          exact Nat.mod_eq_zero_of_dvd dU
    · rw [mem_new, cU, cV]
      refine ⟨imod_lt _ _, by omega, ?_⟩
      apply stride_cond_of_dvd _ _ dV
      intro h0; rw [h0] at dV; exact Nat.eq_zero_of_zero_dvd dV
  · rw [if_neg hlt]
    refine ⟨⟨top_WF w hw, top_bits w⟩, nrm_top w hw, ?_, (mem_top w _).2 (imod_lt _ _)⟩
    unfold SI.top
    unfold SI.Aligned
    right
    have : (SI.new w 1 0 ((maxInt w : Nat) : Int)).stride = 0 ∨ (SI.new w 1 0 ((maxInt w : Nat) : Int)).stride = 1 :=
      new_stride_dvd _ _ _ _
    rcases this with h | h
    · rw [h]; exact Nat.mod_zero _ ▸ (by
        -- stride 0 only for a singleton: then the span is 0
        have hwf := new_WF w 1 0 ((maxInt w : Nat) : Int) hw (by intro hh; cases hh)
        have := hwf.2.2.2.1 h
        unfold SI.span
        rw [this, modSub_nat _ _ _ hwf.2.2.1 hwf.2.2.1, cd_self])
    · rw [h]; exact Nat.mod_one _

end Claripy.VSA
