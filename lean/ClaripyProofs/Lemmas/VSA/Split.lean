import ClaripyProofs.Lemmas.VSA.Lub
/-! `_ssplit` (split at the south pole): the pieces are well formed, do not wrap, and cover the members. -/
namespace Claripy.VSA

theorem dvd_gap (s a b : Nat) (ha : s ∣ a) (hb : s ∣ b) (h : a < b) : a + s ≤ b := by
  obtain ⟨i, hi⟩ := ha
  obtain ⟨j, hj⟩ := hb
  subst hi; subst hj
  by_cases hs : s = 0
  · subst hs; simp at h
  · have hsp : 0 < s := Nat.pos_of_ne_zero hs
    have hij : i < j := Nat.lt_of_mul_lt_mul_left h
    calc s * i + s = s * (i + 1) := by rw [Nat.mul_add, Nat.mul_one]
      _ ≤ s * j := Nat.mul_le_mul_left _ hij

/-- the result of `_ssplit` on a wrapping interval, in natural-number form: `K` is the distance from the lower bound
to the last member before the pole -/
theorem ssplit_wrap (s : SI) (hw : s.WF) (hwrap : s.ub < s.lb) :
    let m := 2 ^ s.bits
    let K := (m - 1 - s.lb) - (m - 1 - s.lb) % s.stride
    s.ssplit = .ok (if K + s.stride > cd m s.lb s.ub
      then [SI.new s.bits s.stride (s.lb : Int) ((s.lb + K : Nat) : Int)]
      else [SI.new s.bits s.stride (s.lb : Int) ((s.lb + K : Nat) : Int),
            SI.new s.bits s.stride (((s.lb + K + s.stride) % m : Nat) : Int) (s.ub : Int)]) := by
  intro m K
  obtain ⟨h0, hl, hu, hst⟩ := hw
  have hm : 0 < m := two_pow_pos' s.bits
  have hsne : s.stride ≠ 0 := by intro h; have := hst.1 h; omega
  have hKle : K ≤ m - 1 - s.lb := Nat.sub_le _ _
  unfold SI.ssplit
  rw [if_pos hwrap, if_neg hsne]
  -- the Python integer `a_upper_bound`
  have hau : ((maxInt s.bits : Nat) : Int) - ((((maxInt s.bits : Nat) : Int) - (s.lb : Int)) % (s.stride : Int)) =
      ((s.lb + K : Nat) : Int) := by
    have e1 : ((maxInt s.bits : Nat) : Int) - (s.lb : Int) = ((m - 1 - s.lb : Nat) : Int) := by
      unfold maxInt; omega
    rw [e1, ← Int.natCast_emod]
    have : (m - 1 - s.lb) % s.stride ≤ m - 1 - s.lb := Nat.mod_le _ _
    unfold maxInt
    show ((2 ^ s.bits - 1 : Nat) : Int) - (((m - 1 - s.lb) % s.stride : Nat) : Int) = _
    omega
  simp only [hau]
  have hlk : s.lb + K < 2 ^ s.bits := by omega
  rw [modSub_nat _ _ _ hlk hl, modSub_nat _ _ _ hu hl]
  have hcd : cd (2 ^ s.bits) s.lb (s.lb + K) = K := by unfold cd; split_ifs <;> omega
  rw [hcd]
  have hma : modAdd ((s.lb + K : Nat) : Int) (s.stride : Int) s.bits = (s.lb + K + s.stride) % m := by
    rw [modAdd_nat]
  rw [hma]
  split_ifs <;> rfl

theorem new_nowrap (b s l u : Nat) (hl : l < 2 ^ b) (hu : u < 2 ^ b) (hle : l ≤ u) :
    (SI.new b s (l : Int) (u : Int)).lb ≤ (SI.new b s (l : Int) (u : Int)).ub := by
  rw [new_eq, imod_of_lt _ _ hl, imod_of_lt _ _ hu]
  split
  · exact hle
  · split
    · show 0 ≤ 2 ^ b - 1; omega
    · exact hle

theorem new_stride_dvd (b s : Nat) (l u : Int) : (SI.new b s l u).stride = 0 ∨ (SI.new b s l u).stride = s := by
  rw [new_eq]
  split
  · left; rfl
  · split <;> (right; rfl)

/-- what `_ssplit` guarantees: the pieces are well formed, of the same width, not empty intervals that wrap, and every
member of the interval is a member of some piece (and conversely) -/
theorem ssplit_spec (s : SI) (hw : s.WF) (hnb : s.bottom = false) :
    ∃ ps, s.ssplit = .ok ps ∧
      (∀ p, p ∈ ps → WFw s.bits p ∧ p.bottom = false ∧ p.lb ≤ p.ub ∧ (p.stride = 0 ∨ p.stride = s.stride)) ∧
      (∀ x, s.mem x → ∃ p, p ∈ ps ∧ p.mem x) ∧
      (∀ p, p ∈ ps → ∀ x, p.mem x → s.mem x) := by
  have hm : 0 < 2 ^ s.bits := two_pow_pos' s.bits
  by_cases hwrap : s.ub < s.lb
  · -- wrapping
    have hsp := ssplit_wrap s hw hwrap
    obtain ⟨h0, hl, hu, hst⟩ := hw
    have hsne : s.stride ≠ 0 := by intro h; have := hst.1 h; omega
    have hspos : 0 < s.stride := Nat.pos_of_ne_zero hsne
    simp only [] at hsp
    generalize hK : (2 ^ s.bits - 1 - s.lb) - (2 ^ s.bits - 1 - s.lb) % s.stride = K at hsp
    have hK1 : s.stride ∣ K := by rw [← hK]; exact Nat.dvd_sub_mod _
    have hK2 : 2 ^ s.bits - 1 - s.lb < K + s.stride := by
      have := Nat.mod_lt (2 ^ s.bits - 1 - s.lb) hspos
      have := Nat.mod_le (2 ^ s.bits - 1 - s.lb) s.stride
      omega
    have hK3 : K ≤ 2 ^ s.bits - 1 - s.lb := by rw [← hK]; exact Nat.sub_le _ _
    have hlk : s.lb + K < 2 ^ s.bits := by omega
    have hspan : cd (2 ^ s.bits) s.lb s.ub = s.ub + 2 ^ s.bits - s.lb := by unfold cd; split_ifs <;> omega
    have hAwf : WFw s.bits (SI.new s.bits s.stride (s.lb : Int) ((s.lb + K : Nat) : Int)) :=
      ⟨new_WF _ _ _ _ h0 (fun h => absurd h hsne), new_bits _ _ _ _⟩
    have hAmem : ∀ x, x < 2 ^ s.bits → cd (2 ^ s.bits) s.lb x ≤ K → s.stride ∣ cd (2 ^ s.bits) s.lb x →
        (SI.new s.bits s.stride (s.lb : Int) ((s.lb + K : Nat) : Int)).mem x := by
      intro x hx h1 h2
      apply mem_new_of _ _ _ _ x hl hlk hx _ h2 (fun h => absurd h hsne)
      have : cd (2 ^ s.bits) s.lb (s.lb + K) = K := by unfold cd; split_ifs <;> omega
      rw [this]; exact h1
    by_cases hbr : K + s.stride > cd (2 ^ s.bits) s.lb s.ub
    · rw [if_pos hbr] at hsp
      refine ⟨_, hsp, ?_, ?_, ?_⟩
      · intro p hp
        have : p = SI.new s.bits s.stride (s.lb : Int) ((s.lb + K : Nat) : Int) := by simpa using hp
        subst this
        exact ⟨hAwf, new_bottom _ _ _ _, new_nowrap _ _ _ _ hl hlk (by omega), new_stride_dvd _ _ _ _⟩
      · intro x hx
        obtain ⟨_, hxl, hx1, hx2⟩ := mem_facts s x ⟨h0, hl, hu, hst⟩ hx
        refine ⟨_, List.mem_cons_self, hAmem x hxl ?_ hx2⟩
        by_cases hle : cd (2 ^ s.bits) s.lb x ≤ K
        · exact hle
        · have := dvd_gap _ _ _ hK1 hx2 (by omega)
          omega
      · intro p hp x hx
        have : p = SI.new s.bits s.stride (s.lb : Int) ((s.lb + K : Nat) : Int) := by simpa using hp
        subst this
        rw [mem_new, imod_of_lt _ _ hl, imod_of_lt _ _ hlk] at hx
        obtain ⟨hxl, h1, h2⟩ := hx
        rw [if_neg hsne] at h2
        have hcdk : cd (2 ^ s.bits) s.lb (s.lb + K) = K := by unfold cd; split_ifs <;> omega
        rw [hcdk] at h1
        rw [mem_iff _ _ hl hu]
        refine ⟨hnb, hxl, by omega, ?_⟩
        rw [if_neg hsne]; exact h2
    · rw [if_neg hbr] at hsp
      have hbL : (s.lb + K + s.stride) % 2 ^ s.bits = s.lb + K + s.stride - 2 ^ s.bits := by
        have : s.lb + K + s.stride = (s.lb + K + s.stride - 2 ^ s.bits) + 2 ^ s.bits := by omega
        rw [this, Nat.add_mod_right, Nat.mod_eq_of_lt (by omega)]
        omega
      rw [hbL] at hsp
      have hbLlt : s.lb + K + s.stride - 2 ^ s.bits < 2 ^ s.bits := by omega
      have hBwf : WFw s.bits (SI.new s.bits s.stride ((s.lb + K + s.stride - 2 ^ s.bits : Nat) : Int) (s.ub : Int)) :=
        ⟨new_WF _ _ _ _ h0 (fun h => absurd h hsne), new_bits _ _ _ _⟩
      refine ⟨_, hsp, ?_, ?_, ?_⟩
      · intro p hp
        rcases List.mem_cons.1 hp with h | h
        · subst h
          exact ⟨hAwf, new_bottom _ _ _ _, new_nowrap _ _ _ _ hl hlk (by omega), new_stride_dvd _ _ _ _⟩
        · have : p = SI.new s.bits s.stride ((s.lb + K + s.stride - 2 ^ s.bits : Nat) : Int) (s.ub : Int) := by simpa using h
          subst this
          exact ⟨hBwf, new_bottom _ _ _ _, new_nowrap _ _ _ _ hbLlt hu (by omega), new_stride_dvd _ _ _ _⟩
      · intro x hx
        obtain ⟨_, hxl, hx1, hx2⟩ := mem_facts s x ⟨h0, hl, hu, hst⟩ hx
        by_cases hle : cd (2 ^ s.bits) s.lb x ≤ K
        · exact ⟨_, List.mem_cons_self, hAmem x hxl hle hx2⟩
        · have hgap := dvd_gap _ _ _ hK1 hx2 (by omega)
          refine ⟨_, List.mem_cons_of_mem _ List.mem_cons_self, ?_⟩
          have e1 : cd (2 ^ s.bits) (s.lb + K + s.stride - 2 ^ s.bits) x = cd (2 ^ s.bits) s.lb x - (K + s.stride) := by
            unfold cd at hx1 hgap hle ⊢; split_ifs at hx1 hgap hle ⊢ <;> omega
          have e2 : cd (2 ^ s.bits) (s.lb + K + s.stride - 2 ^ s.bits) s.ub = cd (2 ^ s.bits) s.lb s.ub - (K + s.stride) := by
            unfold cd; split_ifs <;> omega
          apply mem_new_of _ _ _ _ x hbLlt hu hxl
          · rw [e1, e2]; omega
          · rw [e1]
            exact Nat.dvd_sub hx2 (Nat.dvd_add hK1 (Nat.dvd_refl _))
          · intro h; exact absurd h hsne
      · intro p hp x hx
        rcases List.mem_cons.1 hp with h | h
        · subst h
          rw [mem_new, imod_of_lt _ _ hl, imod_of_lt _ _ hlk] at hx
          obtain ⟨hxl, h1, h2⟩ := hx
          rw [if_neg hsne] at h2
          have hcdk : cd (2 ^ s.bits) s.lb (s.lb + K) = K := by unfold cd; split_ifs <;> omega
          rw [hcdk] at h1
          rw [mem_iff _ _ hl hu]
          refine ⟨hnb, hxl, by omega, ?_⟩
          rw [if_neg hsne]; exact h2
        · have : p = SI.new s.bits s.stride ((s.lb + K + s.stride - 2 ^ s.bits : Nat) : Int) (s.ub : Int) := by simpa using h
          subst this
          rw [mem_new, imod_of_lt _ _ hbLlt, imod_of_lt _ _ hu] at hx
          obtain ⟨hxl, h1, h2⟩ := hx
          rw [if_neg hsne] at h2
          have e2 : cd (2 ^ s.bits) (s.lb + K + s.stride - 2 ^ s.bits) s.ub = cd (2 ^ s.bits) s.lb s.ub - (K + s.stride) := by
            unfold cd; split_ifs <;> omega
          have e1 : cd (2 ^ s.bits) s.lb x = cd (2 ^ s.bits) (s.lb + K + s.stride - 2 ^ s.bits) x + (K + s.stride) := by
            rw [e2] at h1
            unfold cd at h1 ⊢; split_ifs at h1 ⊢ <;> omega
          have h1' : cd (2 ^ s.bits) (s.lb + K + s.stride - 2 ^ s.bits) x ≤ cd (2 ^ s.bits) s.lb s.ub - (K + s.stride) := by
            rw [← e2]; exact h1
          rw [mem_iff _ _ hl hu]
          refine ⟨hnb, hxl, by rw [e1]; omega, ?_⟩
          rw [if_neg hsne, e1]
          exact Nat.mod_eq_zero_of_dvd (Nat.dvd_add (Nat.dvd_of_mod_eq_zero h2) (Nat.dvd_add hK1 (Nat.dvd_refl _)))
  · -- not wrapping: the piece is a copy
    have hsp : s.ssplit = .ok [s.renorm] := by unfold SI.ssplit; rw [if_neg hwrap]; rfl
    refine ⟨_, hsp, ?_, ?_, ?_⟩
    · intro p hp
      have : p = s.renorm := by simpa using hp
      subst this
      refine ⟨renorm_WFw _ s ⟨hw, rfl⟩, ?_, ?_, ?_⟩
      · unfold SI.renorm; rw [hnb]; simp
      · unfold SI.renorm; rw [hnb]
        simp only [Bool.false_eq_true, if_false]
        exact new_nowrap _ _ _ _ hw.2.1 hw.2.2.1 (by omega)
      · unfold SI.renorm; rw [hnb]
        simp only [Bool.false_eq_true, if_false]
        exact new_stride_dvd _ _ _ _
    · intro x hx
      exact ⟨_, List.mem_cons_self, (renorm_mem s hw x).2 hx⟩
    · intro p hp x hx
      have : p = s.renorm := by simpa using hp
      subst this
      exact (renorm_mem s hw x).1 hx

end Claripy.VSA
