import ClaripyProofs.Lemmas.VSA.MulPiece
/-! **`mul` is sound and closed on aligned operands** (in constructor-normal form). -/
namespace Claripy.VSA

theorem accLoop_ok {α : Type} (f : α → R (List SI)) : ∀ (l : List α) (acc out : List SI), accLoop f l acc = .ok out →
    ∀ x, x ∈ l → ∃ lx, f x = .ok lx := by
  intro l
  induction l with
  | nil => intro _ _ _ x hx; cases hx
  | cons y ys ih =>
    intro acc out h x hx
    unfold accLoop at h
    cases hf : f y with
    | error e => rw [hf] at h; cases h
    | ok ly =>
      rw [hf] at h
      rcases List.mem_cons.1 hx with he | he
      · subst he; exact ⟨ly, hf⟩
      · exact ih _ _ h x he

theorem mulOuter_ok (p2 : List SI) : ∀ (l : List SI) (acc out : List SI), mulOuter p2 l acc = .ok out →
    ∀ x y, x ∈ l → y ∈ p2 → ∃ lxy, mulPair x y = .ok lxy := by
  intro l
  induction l with
  | nil => intro _ _ _ x _ hx; cases hx
  | cons z zs ih =>
    intro acc out h x y hx hy
    unfold mulOuter at h
    cases hf : accLoop (mulPair z) p2 acc with
    | error e => rw [hf] at h; cases h
    | ok a' =>
      rw [hf] at h
      rcases List.mem_cons.1 hx with he | he
      · subst he; exact accLoop_ok _ _ _ _ hf y hy
      · exact ih _ _ h x y he hy

/-- one pair of pieces: the partial results are well formed and one of them contains the product -/
theorem mulPair_sound (w : Nat) (a b : SI) (ha : PieceOK w a) (hb : PieceOK w b) (l : List SI) (h : mulPair a b = .ok l) :
    (∀ r, r ∈ l → WFw w r) ∧ ∀ x y, a.mem x → b.mem y → ∃ r, r ∈ l ∧ r.mem ((x * y) % 2 ^ w) := by
  unfold mulPair at h
  obtain ⟨sm, hsm, h⟩ := bind_ok' h
  have hma := mem_lb a ha.wf.1 ha.nb
  have hmb := mem_lb b hb.wf.1 hb.nb
  obtain ⟨u1, u2, u3, u4⟩ := umul_piece w a b a.lb b.lb ha hb hma hmb
  obtain ⟨s1, s2, s3, s4⟩ := smul_piece w a b sm a.lb b.lb ha hb hma hmb hsm
  obtain ⟨g1, g2⟩ := multiMeet_sound w _ sm u1 s1 u4.1 s4.1 u3 s3 u2 s2 l h
  refine ⟨g1, ?_⟩
  intro x y hx hy
  exact g2 _ (umul_piece w a b x y ha hb hx hy).2.2.2 (smul_piece w a b sm x y ha hb hx hy hsm).2.2.2

/-- **`mul`** on aligned operands in constructor-normal form -/
theorem mul_sound (w : Nat) (s o r : SI) (hs : WFw w s) (ho : WFw w o) (hsb : s.bottom = false) (hob : o.bottom = false)
    (hsA : s.Aligned) (hoA : o.Aligned) (ns : Nrm s) (no : Nrm o) (h : s.mul o = .ok r) :
    WFw w r ∧ ∀ x y, s.mem x → o.mem y → r.mem ((x * y) % 2 ^ w) := by
  have hw0 : 0 < w := by rw [← hs.2]; exact hs.1.1
  rw [mul_eq] at h
  by_cases hint : (s.isInteger && o.isInteger) = true
  · rw [if_pos hint] at h
    have hr := pure_ok' h
    have hi : s.lb = s.ub ∧ o.lb = o.ub := by simpa [SI.isInteger] using hint
    rw [hr, hs.2]
    refine ⟨⟨new_WF _ _ _ _ hw0 (fun _ => rfl), new_bits _ _ _ _⟩, ?_⟩
    intro x y hx hy
    rw [mem_integer s x hs.1 hi.1 hx, mem_integer o y ho.1 hi.2 hy, mem_new, imod_nat]
    simp [cd_self, Nat.mod_lt _ (two_pow_pos' w)]
  · rw [if_neg hint] at h
    obtain ⟨p1, hp1, h⟩ := bind_ok' h
    obtain ⟨p2, hp2, h⟩ := bind_ok' h
    obtain ⟨all, hall, h⟩ := bind_ok' h
    obtain ⟨u, hu, h⟩ := bind_ok' h
    have hr := pure_ok' h
    obtain ⟨q1, e1, pr1, cov1⟩ := psplit_spec s hs.1 hsb ns
    obtain ⟨q2, e2, pr2, cov2⟩ := psplit_spec o ho.1 hob no
    rw [hp1] at e1; cases e1
    rw [hp2] at e2; cases e2
    rw [hs.2] at pr1
    rw [ho.2] at pr2
    have al1 := psplit_aligned s hs.1 hsb ns hsA p1 hp1
    have al2 := psplit_aligned o ho.1 hob no hoA p2 hp2
    have ok1 : ∀ a, a ∈ p1 → PieceOK w a := fun a ha => by
      obtain ⟨c1, c2, c3, c4, _, _⟩ := pr1 a ha
      exact ⟨c1, c2, c3, c4, al1 a ha⟩
    have ok2 : ∀ b, b ∈ p2 → PieceOK w b := fun b hb => by
      obtain ⟨c1, c2, c3, c4, _, _⟩ := pr2 b hb
      exact ⟨c1, c2, c3, c4, al2 b hb⟩
    have hmem := mulOuter_mem p2 p1 [] all hall
    have hP : ∀ q, q ∈ all → WFw w q := by
      intro q hq
      rcases (hmem q).1 hq with h1 | ⟨a, b, lab, ha, hb, hl, hql⟩
      · cases h1
      · exact (mulPair_sound w a b (ok1 a ha) (ok2 b hb) lab hl).1 q hql
    obtain ⟨m1, m2⟩ := lub_sup w all u hP hu
    rw [hr]
    refine ⟨renorm_WFw w u m1, ?_⟩
    intro x y hx hy
    obtain ⟨a, ha, hax⟩ := cov1 x hx
    obtain ⟨b, hb, hby⟩ := cov2 y hy
    obtain ⟨lab, hl⟩ := mulOuter_ok p2 p1 [] all hall a b ha hb
    obtain ⟨r', hr', hm⟩ := (mulPair_sound w a b (ok1 a ha) (ok2 b hb) lab hl).2 x y hax hby
    apply (renorm_mem u m1.1 _).2
    exact m2 _ ⟨r', (hmem r').2 (Or.inr ⟨a, b, lab, ha, hb, hl, hr'⟩), hm⟩

end Claripy.VSA
