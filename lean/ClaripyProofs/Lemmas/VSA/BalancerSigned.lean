import ClaripyProofs.Lemmas.VSA.BalancerSignedArith
import ClaripyProofs.Lemmas.VSA.BalancerUnsat
/-!
Signed orderings (`SLT`, `SLE`, `SGT`, `SGE`) through the balancer model: what `_handle_comparison` records for them
(signed minimum / maximum of the left side, the signed value of the literal), the implicit assumption (`SGE int_min` /
`SLE int_max`, built without a simplifier: same left side), and the PAIR theorem: a signed truism and its assumption, both
moved only across `+` / `-` (or not at all) down to the same expression, record a lower and an upper bound that — read as
the wrapped interval `_replacements_iter` builds — contain the value.  Each bound alone does not (`x <s 5` alone records
the upper bound 4 and would be read as `[0, 4]`).
-/
set_option linter.unusedSectionVars false
namespace Claripy.VSA.Bal
open Claripy.VSA

/-- the four signed orderings -/
def sOrd (op : CmpOp) : Prop := op = .slt ∨ op = .sle ∨ op = .sgt ∨ op = .sge

theorem sOrd_signed (op : CmpOp) (h : sOrd op) : (cmpInfo op).2.2 = false := by
  rcases h with h | h | h | h <;> rw [h] <;> rfl

/-! ### signed `_min` / `_max` -/

theorem const_signedBounds (w r : Nat) (hw : 0 < w) (hr : r < 2 ^ w) :
    (SI.new w 0 (r : Int) (r : Int)).signedBounds = .ok [(Conc.toInt w r, Conc.toInt w r)] := by
  have hs : SI.new w 0 (r : Int) (r : Int) = ⟨w, 0, r, r, false⟩ := by rw [new_eq]; simp [imod_of_lt r w hr]
  have hn := nrm_new w 0 (r : Int) (r : Int) hw
  rw [hs] at hn ⊢
  unfold SI.signedBounds SI.nsplit
  have hH := two_pow_pos' (w - 1)
  have hstr : (if r ≥ 2 ^ (w - 1) then (decide (r > r) || decide (r ≤ maxInt (w - 1)))
      else (decide (r > r) && decide (r ≤ maxInt (w - 1)))) = false := by
    unfold maxInt; split_ifs with h <;> simp <;> omega
  simp only [hstr, Bool.false_eq_true, if_false]
  unfold Nrm at hn
  rw [hn]
  simp only [bind, Except.bind, pure, Except.pure, List.map]
  rw [toSigned_nat r w hw hr]

theorem siMin_spec' (s : SI) (sg : Bool) (m : Int) (h : siMin s sg = .ok m) : s.renorm.min sg = .ok (some m) := by
  unfold siMin at h
  obtain ⟨o, ho, h⟩ := bindM_ok h
  have ho := liftR_ok ho
  cases o with
  | none => cases h
  | some v => have := pureM_ok h; subst this; exact ho

theorem siMax_spec' (s : SI) (sg : Bool) (m : Int) (h : siMax s sg = .ok m) : s.renorm.max sg = .ok (some m) := by
  unfold siMax at h
  obtain ⟨o, ho, h⟩ := bindM_ok h
  have ho := liftR_ok ho
  cases o with
  | none => cases h
  | some v => have := pureM_ok h; subst this; exact ho

/-- signed `_min` / `_max` of a literal are its signed value -/
theorem const_siMin_s (w r : Nat) (m : Int) (hw : 0 < w) (hr : r < 2 ^ w)
    (h : siMin (SI.new w 0 (r : Int) (r : Int)) true = .ok m) : m = Conc.toInt w r := by
  have h := siMin_spec' _ _ m h
  rw [nrm_new _ _ _ _ hw] at h
  unfold SI.min at h
  rw [new_bottom] at h
  simp only [Bool.false_eq_true, if_false, if_true, const_signedBounds w r hw hr, bind, Except.bind, pure, Except.pure,
    List.foldl] at h
  cases h; rfl

theorem const_siMax_s (w r : Nat) (m : Int) (hw : 0 < w) (hr : r < 2 ^ w)
    (h : siMax (SI.new w 0 (r : Int) (r : Int)) true = .ok m) : m = Conc.toInt w r := by
  have h := siMax_spec' _ _ m h
  rw [nrm_new _ _ _ _ hw] at h
  unfold SI.max at h
  rw [new_bottom] at h
  simp only [Bool.false_eq_true, if_false, if_true, const_signedBounds w r hw hr, bind, Except.bind, pure, Except.pure,
    List.foldl] at h
  cases h; rfl

/-- signed `_min` / `_max` of a normal interval bound the signed value of every member -/
theorem siMin_le_s (s : SI) (m : Int) (x : Nat) (hs : s.WF) (hn : Nrm s) (hx : s.mem x) (h : siMin s true = .ok m) :
    m ≤ Conc.toInt s.bits x := by
  have h := siMin_spec' s true m h
  rw [hn] at h
  exact smin_le s m x hs hn hx h

theorem le_siMax_s (s : SI) (m : Int) (x : Nat) (hs : s.WF) (hn : Nrm s) (hx : s.mem x) (h : siMax s true = .ok m) :
    Conc.toInt s.bits x ≤ m := by
  have h := siMax_spec' s true m h
  rw [hn] at h
  exact le_smax s m x hs hn hx h

/-! ### `_handle_comparison` on a signed ordering -/

/-- what `_handle_comparison` records for a signed ordering against a literal, given the signed minimum / maximum of the
left side -/
def cmpResS (t : Tru) (bs : Bounds) (lmin lmax : Int) : Bounds :=
  match t.op with
  | .slt => addUpper bs t.lhs (min ((2 : Int) ^ (wd t.lhs - 1) - 1) (min lmax (Conc.toInt t.w t.r - 1)))
  | .sle => addUpper bs t.lhs (min ((2 : Int) ^ (wd t.lhs - 1) - 1) (min lmax (Conc.toInt t.w t.r)))
  | .sgt => addLower bs t.lhs (max (-((2 : Int) ^ (wd t.lhs - 1))) (max lmin (Conc.toInt t.w t.r + 1)))
  | .sge => addLower bs t.lhs (max (-((2 : Int) ^ (wd t.lhs - 1))) (max lmin (Conc.toInt t.w t.r)))
  | _ => bs

section
variable (anno : Nat → SI) (env : Nat → Nat) (hctx : ∀ i, (anno i).WF ∧ (anno i).mem (env i)) (hnrm : ∀ i, Nrm (anno i))
include hctx hnrm

theorem handleCmp_char_s (t : Tru) (bs bs' : Bounds) (hok : TruOK anno env t) (hop : sOrd t.op)
    (h : handleCmp anno t bs = .ok bs') :
    ∃ pl lmin lmax, convBV anno t.lhs [] = .ok pl ∧ siMin pl.1.si true = .ok lmin ∧ siMax pl.1.si true = .ok lmax ∧
      bs' = cmpResS t bs lmin lmax := by
  have hwpos : 0 < t.w := by rw [← hok.wd_eq]; exact wd_pos anno env (fun i => (hctx i).1) _ hok.ok.1
  unfold handleCmp at h
  dsimp only at h
  obtain ⟨pl, hpl, h⟩ := bindM_ok h
  have hpl := liftR_ok hpl
  have huns := sOrd_signed t.op hop
  rw [huns] at h
  simp only [Bool.not_false, Bool.false_eq_true, if_false] at h
  obtain ⟨leftMin, hlmin, h⟩ := bindM_ok h
  obtain ⟨leftMax, hlmax, h⟩ := bindM_ok h
  obtain ⟨rightMin, hrmin, h⟩ := bindM_ok h
  obtain ⟨rightMax, hrmax, h⟩ := bindM_ok h
  have e1 := const_siMin_s t.w t.r rightMin hwpos hok.r_lt hrmin
  have e2 := const_siMax_s t.w t.r rightMax hwpos hok.r_lt hrmax
  subst e1; subst e2
  refine ⟨pl, leftMin, leftMax, hpl, hlmin, hlmax, ?_⟩
  unfold cmpResS
  rcases hop with ho | ho | ho | ho <;> rw [ho] at h ⊢ <;>
    simp only [cmpInfo, if_true, if_false, Bool.false_eq_true] at h <;> exact (pureM_ok h)

omit hctx hnrm in
theorem handle_sOrd (t : Tru) (bs bs' : Bounds) (hop : sOrd t.op)
    (h : (match t.op with
      | .eq => (pure (addLower (addUpper bs t.lhs t.r) t.lhs t.r) : M Bounds)
      | .ne =>
        if t.r = 0 then pure (addLower bs t.lhs 1)
        else if t.r = 2 ^ t.w - 1 then pure (addUpper bs t.lhs ((2 : Int) ^ t.w - 1 - 1))
        else pure bs
      | _ => handleCmp anno t bs) = .ok bs') : handleCmp anno t bs = .ok bs' := by
  rcases hop with ho | ho | ho | ho <;> rw [ho] at h <;> exact h

/-! ### the implicit assumption of a signed ordering -/

omit hctx hnrm in
theorem toInt_min (w v : Nat) (hw : 0 < w) (hv : v < 2 ^ w) :
    Conc.toInt w (2 ^ (w - 1)) ≤ Conc.toInt w v ∧ Conc.toInt w v ≤ Conc.toInt w (2 ^ (w - 1) - 1) := by
  rw [toInt_ti w _ hw, toInt_ti w _ hw, toInt_ti w _ hw]
  have hm := two_pow_half w hw
  have hH := two_pow_pos' (w - 1)
  rw [hm] at hv
  generalize 2 ^ (w - 1) = H at *
  unfold ti
  split_ifs <;> omega

/-- `_get_assumptions` of a signed ordering: `SGE(lhs, int_min)` / `SLE(lhs, int_max)` on the SAME left side (no simplifier
rewrites these), true under every assignment -/
theorem assumption_s (t : Tru) (hok : TruOK anno env t) (hop : sOrd t.op) (hconv : ∃ o p, convBV anno t.lhs o = .ok p) :
    ∃ A0, assumption t = some (.tru A0) ∧ TruOK anno env A0 ∧ A0.holds env ∧ A0.lhs = t.lhs ∧ A0.w = t.w ∧
      ((t.op = .sle ∨ t.op = .slt) → A0.op = .sge ∧ A0.r = 2 ^ (t.w - 1)) ∧
      ((t.op = .sge ∨ t.op = .sgt) → A0.op = .sle ∧ A0.r = 2 ^ (t.w - 1) - 1) := by
  obtain ⟨v, hv⟩ := exprOK_val anno env t.lhs hok.ok
  obtain ⟨o, p, hp⟩ := hconv
  have hvlt : v < 2 ^ wd t.lhs := (conv_val anno env hctx hnrm t.lhs hok.ok o p hp v hv).2.2.2.1
  have hpos : 0 < wd t.lhs := (conv_val anno env hctx hnrm t.lhs hok.ok o p hp v hv).2.2.2.2
  have hwd := hok.wd_eq
  have hH := two_pow_pos' (wd t.lhs - 1)
  have hm := two_pow_half (wd t.lhs) hpos
  obtain ⟨tm1, tm2⟩ := toInt_min (wd t.lhs) v hpos hvlt
  have low : mkCmp .sge t.lhs (2 ^ (wd t.lhs - 1)) (wd t.lhs) = .tru ⟨.sge, t.lhs, 2 ^ (wd t.lhs - 1), wd t.lhs⟩ := by
    unfold mkCmp; exact mkCmpT_sym _ _ _ _ hok.sym
  have high : mkCmp .sle t.lhs (2 ^ (wd t.lhs - 1) - 1) (wd t.lhs) = .tru ⟨.sle, t.lhs, 2 ^ (wd t.lhs - 1) - 1, wd t.lhs⟩ := by
    unfold mkCmp; exact mkCmpT_sym _ _ _ _ hok.sym
  unfold assumption
  rcases hop with ho | ho | ho | ho <;> rw [ho] <;> simp only [low, high]
  · refine ⟨_, rfl, ⟨hok.ok, hok.sym, rfl, by simp only; omega⟩, ⟨v, hv, by simpa [concCmp] using tm1⟩, rfl, hwd, ?_, ?_⟩
    · intro _; exact ⟨rfl, by simp only; rw [hwd]⟩
    · intro h; rcases h with h | h <;> cases h
  · refine ⟨_, rfl, ⟨hok.ok, hok.sym, rfl, by simp only; omega⟩, ⟨v, hv, by simpa [concCmp] using tm1⟩, rfl, hwd, ?_, ?_⟩
    · intro _; exact ⟨rfl, by simp only; rw [hwd]⟩
    · intro h; rcases h with h | h <;> cases h
  · refine ⟨_, rfl, ⟨hok.ok, hok.sym, rfl, by simp only; omega⟩, ⟨v, hv, by simpa [concCmp] using tm2⟩, rfl, hwd, ?_, ?_⟩
    · intro h; rcases h with h | h <;> cases h
    · intro _; exact ⟨rfl, by simp only; rw [hwd]⟩
  · refine ⟨_, rfl, ⟨hok.ok, hok.sym, rfl, by simp only; omega⟩, ⟨v, hv, by simpa [concCmp] using tm2⟩, rfl, hwd, ?_, ?_⟩
    · intro h; rcases h with h | h <;> cases h
    · intro _; exact ⟨rfl, by simp only; rw [hwd]⟩

end

/-! ### moving the predecessor / successor of the other side across the constant -/

theorem sub_pred (m r C : Nat) (hm : 0 < m) (hr : r < m) (hC : C < m) :
    ((r + m - 1) % m + (m - C)) % m = ((r + (m - C)) % m + m - 1) % m := by
  obtain ⟨a1, a2⟩ := mod_two_cases (r + m - 1) m hm (by omega)
  obtain ⟨b1, b2⟩ := mod_two_cases (r + (m - C)) m hm (by omega)
  generalize (r + m - 1) % m = p at *
  generalize (r + (m - C)) % m = q at *
  obtain ⟨c1, c2⟩ := mod_two_cases (p + (m - C)) m hm (by omega)
  obtain ⟨d1, d2⟩ := mod_two_cases (q + m - 1) m hm (by omega)
  omega

theorem sub_succ (m r C : Nat) (hm : 0 < m) (hr : r < m) (hC : C < m) :
    ((r + 1) % m + (m - C)) % m = ((r + (m - C)) % m + 1) % m := by
  obtain ⟨a1, a2⟩ := mod_two_cases (r + 1) m hm (by omega)
  obtain ⟨b1, b2⟩ := mod_two_cases (r + (m - C)) m hm (by omega)
  generalize (r + 1) % m = p at *
  generalize (r + (m - C)) % m = q at *
  obtain ⟨c1, c2⟩ := mod_two_cases (p + (m - C)) m hm (by omega)
  obtain ⟨d1, d2⟩ := mod_two_cases (q + 1) m hm (by omega)
  omega

/-- the pre-image of a wrapped interval under `· + C`, with the ends written as the balancer computes them (`Conc.sub`) -/
theorem Win_pre_sub (w lo hi x C : Nat) (hlo : lo < 2 ^ w) (hhi : hi < 2 ^ w) (hx : x < 2 ^ w) (hC : C < 2 ^ w)
    (h : Win (2 ^ w) lo hi (Conc.add w x C)) : Win (2 ^ w) (Conc.sub w lo C) (Conc.sub w hi C) x := by
  have := (Win_preimage_add (2 ^ w) lo hi x C hlo hhi hx hC).1 h
  unfold Conc.sub
  rw [Nat.mod_eq_of_lt hC]
  have e : ∀ d, d < 2 ^ w → (d + 2 ^ w - C) % 2 ^ w = (d + (2 ^ w - C)) % 2 ^ w := by
    intro d _; congr 1; omega
  rw [e lo hlo, e hi hhi] at this
  exact this

section
variable (anno : Nat → SI) (env : Nat → Nat) (hctx : ∀ i, (anno i).WF ∧ (anno i).mem (env i)) (hnrm : ∀ i, Nrm (anno i))
include hctx hnrm

/-- **the pair of a SIGNED truism and its implicit assumption, both moved only across `+` / `-` (or not at all) down to the
same expression, is sound**: the recorded lower and upper bound, read as the wrapped interval `_replacements_iter` builds,
contain the value -/
theorem pair_sound_s (T0 A0 : Tru) (oT oA : BalOut) (bs1 bs2 : Bounds) (hokT : TruOK anno env T0) (hop : sOrd T0.op)
    (hconv : ∃ o p, convBV anno T0.lhs o = .ok p) (hhT : T0.holds env)
    (hA : assumption T0 = some (.tru A0)) (hbT : balance1 anno T0 = .ok oT) (hbA : balance1 anno A0 = .ok oA)
    (hptT : oT.usedPt = false) (hptA : oA.usedPt = false) (hsame : oT.t.lhs = oA.t.lhs)
    (h1 : handle anno oT.t [] = .ok bs1) (h2 : handle anno oA.t bs1 = .ok bs2) : Sound env bs2 := by
  obtain ⟨A0', hA', hokA, _, hAl, hAw, hAlo, hAhi⟩ := assumption_s anno env hctx hnrm T0 hokT hop hconv
  rw [hA] at hA'
  have : A0' = A0 := by cases hA'; rfl
  subst this
  by_cases hs : symBV oT.t.lhs = true
  · have hsA : symBV oA.t.lhs = true := by rw [← hsame]; exact hs
    obtain ⟨v0, hv0⟩ := exprOK_val anno env _ hokT.ok
    have hv0lt : v0 < 2 ^ T0.w := by
      obtain ⟨o, p, hp⟩ := hconv
      have := (conv_val anno env hctx hnrm _ hokT.ok o p hp v0 hv0).2.2.2.1
      rwa [hokT.wd_eq] at this
    have hrgT : ∀ v, evalBV env T0.lhs = some v → v < 2 ^ T0.w := fun v hv => by rw [hv0] at hv; cases hv; exact hv0lt
    have hrgA : ∀ v, evalBV env A0'.lhs = some v → v < 2 ^ A0'.w := fun v hv => by rw [hAl] at hv; rw [hAw]; exact hrgT v hv
    obtain ⟨hokT', ⟨hopT, hwT, CT, hCT, hrT, heT⟩, hrgT'⟩ := balance1_rot anno env hctx hnrm T0 oT hokT hrgT hbT hs hptT
    obtain ⟨hokA', ⟨hopA, hwA, CA, hCA, hrA, heA⟩, hrgA'⟩ := balance1_rot anno env hctx hnrm A0' oA hokA hrgA hbA hsA hptA
    obtain ⟨vf, hvf⟩ := exprOK_val anno env _ hokT'.ok
    have hvflt := hrgT' vf hvf
    have hvfA : evalBV env oA.t.lhs = some vf := by rw [← hsame]; exact hvf
    have h0T := heT vf hvf hvflt
    have h0A := heA vf hvfA (by rw [hAw]; exact hvflt)
    rw [hAl, hAw, hv0] at h0A
    rw [hv0] at h0T
    have hCeq : CT = CA := by
      rw [hAw] at hCA
      have : Conc.add T0.w vf CT = Conc.add T0.w vf CA := by
        have a := Option.some.inj h0T; have b := Option.some.inj h0A; rw [← a, b]
      exact rot_const_unique T0.w vf CT CA hvflt hCT hCA this
    subst hCeq
    have hv0' : v0 = Conc.add T0.w vf CT := Option.some.inj h0T
    rw [hAw] at hrA
    unfold handle at h1 h2
    obtain ⟨c1, hc1, h1⟩ := bindM_ok h1
    obtain ⟨c2, hc2, h2⟩ := bindM_ok h2
    rw [← hsame, hc1] at hc2
    cases hc2
    by_cases hc : c1 = 1
    · rw [if_pos hc] at h1 h2
      have := pureM_ok h1; subst this
      have := pureM_ok h2; subst this
      intro e lo hi hm; cases hm
    · rw [if_neg hc] at h1 h2
      obtain ⟨vT, hcmp0, hcmpv⟩ := hhT
      rw [hv0] at hcmp0; cases hcmp0
      have hwd : wd oT.t.lhs = T0.w := by rw [hokT'.wd_eq, hwT]
      have hwpos : 0 < T0.w := by rw [← hokT.wd_eq]; exact wd_pos anno env (fun i => (hctx i).1) _ hokT.ok.1
      have hm := two_pow_pos' T0.w
      have hH := two_pow_pos' (T0.w - 1)
      have hmH := two_pow_half T0.w hwpos
      have hrlt := hokT.r_lt
      have final : ∀ (lo hi : Int), bs2 = [(oT.t.lhs, some lo, some hi)] → InB T0.w (some lo) (some hi) vf → Sound env bs2 := by
        intro lo hi hb hin e l u hmem
        rw [hb] at hmem
        simp only [List.mem_singleton, Prod.mk.injEq] at hmem
        obtain ⟨rfl, rfl, rfl⟩ := hmem
        exact ⟨vf, hvf, by rw [hwd]; exact hvflt, by rw [hwd]; exact hin⟩
      have hopT' : sOrd oT.t.op := by rw [hopT]; exact hop
      have hopA' : sOrd oA.t.op := by
        rw [hopA]
        rcases hop with ho | ho | ho | ho
        · rw [(hAlo (Or.inr ho)).1]; exact Or.inr (Or.inr (Or.inr rfl))
        · rw [(hAlo (Or.inl ho)).1]; exact Or.inr (Or.inr (Or.inr rfl))
        · rw [(hAhi (Or.inr ho)).1]; exact Or.inr (Or.inl rfl)
        · rw [(hAhi (Or.inl ho)).1]; exact Or.inr (Or.inl rfl)
      have h1' := handle_sOrd anno oT.t [] bs1 hopT' h1
      have h2' := handle_sOrd anno oA.t bs1 bs2 hopA' h2
      obtain ⟨pl, lmin, lmax, hpl, hlmin, hlmax, hb1⟩ := handleCmp_char_s anno env hctx hnrm oT.t [] bs1 hokT' hopT' h1'
      obtain ⟨pl', lmin', lmax', hpl', hlmin', hlmax', hb2⟩ := handleCmp_char_s anno env hctx hnrm oA.t bs1 bs2 hokA' hopA' h2'
      rw [← hsame, hpl] at hpl'
      cases hpl'
      rw [hlmin] at hlmin'; cases hlmin'
      rw [hlmax] at hlmax'; cases hlmax'
      obtain ⟨⟨⟨hwf, hbits⟩, hmm⟩, hnr⟩ := conv_good anno env hctx hnrm oT.t.lhs hokT'.ok [] pl.2 pl.1 hpl
      have hmem := (hmm vf hvf).1
      have hax := siMin_le_s pl.1.si lmin vf hwf hnr hmem hlmin
      have hxb := le_siMax_s pl.1.si lmax vf hwf hnr hmem hlmax
      rw [hbits, hwd] at hax hxb
      have hHlt : 2 ^ (T0.w - 1) < 2 ^ T0.w := by omega
      have hH1lt : 2 ^ (T0.w - 1) - 1 < 2 ^ T0.w := by omega
      rw [hv0'] at hcmpv
      have haddlt : Conc.add T0.w vf CT < 2 ^ T0.w := conc_add_lt _ _ _
      have hwT' : oT.t.w = T0.w := hwT
      have hwA' : oA.t.w = T0.w := by rw [hwA, hAw]
      have subE : ∀ d, Conc.sub T0.w d CT = (d + (2 ^ T0.w - CT)) % 2 ^ T0.w := by
        intro d; unfold Conc.sub; rw [Nat.mod_eq_of_lt hCT]
      unfold cmpResS at hb1 hb2
      rcases hop with ho | ho | ho | ho
      · -- slt, assumption sge int_min
        obtain ⟨hAop, hAr⟩ := hAlo (Or.inr ho)
        rw [hopT, ho] at hb1
        rw [hopA, hAop] at hb2
        dsimp only at hb1 hb2
        rw [hb1, ← hsame] at hb2
        simp only [addUpper, addLower, if_true] at hb2
        rw [hwd, hwT', hwA', hrA, hAr, hrT] at hb2
        rw [ho] at hcmpv
        simp only [concCmp, decide_eq_true_eq] at hcmpv
        refine final _ _ hb2 ?_
        rw [toInt_ti _ _ hwpos, toInt_ti _ _ hwpos] at hcmpv
        obtain ⟨hrne, hW⟩ := slt_Win _ _ _ (by rw [← hmH]; exact haddlt) (by rw [← hmH]; exact hrlt) hcmpv
        rw [← hmH] at hW
        have hW' := Win_pre_sub T0.w _ _ vf CT hHlt (Nat.mod_lt _ hm) hvflt hCT hW
        rw [subE ((T0.r + 2 ^ T0.w - 1) % 2 ^ T0.w), sub_pred _ _ _ hm hrlt hCT, ← subE] at hW'
        refine InB_signed T0.w _ _ vf lmin lmax _ _ hwpos (conc_sub_lt _ _ _) (Nat.mod_lt _ hm) hvflt hax hxb (Or.inl rfl) ?_ hW'
        by_cases hz : Conc.sub T0.w T0.r CT = 2 ^ (T0.w - 1)
        · right
          rw [hz, toInt_ti _ _ hwpos]
          constructor
          · unfold ti; rw [if_neg (by omega)]; push_cast; omega
          · rw [hmH]
            have : 2 ^ (T0.w - 1) + 2 * 2 ^ (T0.w - 1) - 1 = (2 ^ (T0.w - 1) - 1) + 2 * 2 ^ (T0.w - 1) := by omega
            rw [this, Nat.add_mod_right, Nat.mod_eq_of_lt (by omega)]
        · left
          rw [toInt_ti _ _ hwpos, toInt_ti _ _ hwpos, hmH]
          exact (ti_pred _ _ (by rw [← hmH]; exact conc_sub_lt _ _ _) hz).symm
      · -- sle, assumption sge int_min
        obtain ⟨hAop, hAr⟩ := hAlo (Or.inl ho)
        rw [hopT, ho] at hb1
        rw [hopA, hAop] at hb2
        dsimp only at hb1 hb2
        rw [hb1, ← hsame] at hb2
        simp only [addUpper, addLower, if_true] at hb2
        rw [hwd, hwT', hwA', hrA, hAr, hrT] at hb2
        rw [ho] at hcmpv
        simp only [concCmp, decide_eq_true_eq] at hcmpv
        refine final _ _ hb2 ?_
        rw [toInt_ti _ _ hwpos, toInt_ti _ _ hwpos] at hcmpv
        have hW := sle_Win _ _ _ (by rw [← hmH]; exact haddlt) (by rw [← hmH]; exact hrlt) hcmpv
        rw [← hmH] at hW
        have hW' := Win_pre_sub T0.w _ _ vf CT hHlt hrlt hvflt hCT hW
        exact InB_signed T0.w _ _ vf lmin lmax _ _ hwpos (conc_sub_lt _ _ _) (conc_sub_lt _ _ _) hvflt hax hxb (Or.inl rfl)
          (Or.inl rfl) hW'
      · -- sgt, assumption sle int_max
        obtain ⟨hAop, hAr⟩ := hAhi (Or.inr ho)
        rw [hopT, ho] at hb1
        rw [hopA, hAop] at hb2
        dsimp only at hb1 hb2
        rw [hb1, ← hsame] at hb2
        simp only [addUpper, addLower, if_true] at hb2
        rw [hwd, hwT', hwA', hrA, hAr, hrT] at hb2
        rw [ho] at hcmpv
        simp only [concCmp, decide_eq_true_eq, gt_iff_lt] at hcmpv
        refine final _ _ hb2 ?_
        rw [toInt_ti _ _ hwpos, toInt_ti _ _ hwpos] at hcmpv
        obtain ⟨hrne, hW⟩ := sgt_Win _ _ _ hH (by rw [← hmH]; exact haddlt) (by rw [← hmH]; exact hrlt) hcmpv
        rw [← hmH] at hW
        have hW' := Win_pre_sub T0.w _ _ vf CT (Nat.mod_lt _ hm) hH1lt hvflt hCT hW
        rw [subE ((T0.r + 1) % 2 ^ T0.w), sub_succ _ _ _ hm hrlt hCT, ← subE] at hW'
        refine InB_signed T0.w _ _ vf lmin lmax _ _ hwpos (Nat.mod_lt _ hm) (conc_sub_lt _ _ _) hvflt hax hxb ?_ (Or.inl rfl) hW'
        by_cases hz : Conc.sub T0.w T0.r CT = 2 ^ (T0.w - 1) - 1
        · right
          rw [hz, toInt_ti _ _ hwpos]
          constructor
          · unfold ti; rw [if_pos (by omega)]; push_cast [Nat.cast_sub hH]; omega
          · rw [hmH]
            have : 2 ^ (T0.w - 1) - 1 + 1 = 2 ^ (T0.w - 1) := by omega
            rw [this, Nat.mod_eq_of_lt (by omega)]
        · left
          rw [toInt_ti _ _ hwpos, toInt_ti _ _ hwpos, hmH]
          exact (ti_succ _ _ hH (by rw [← hmH]; exact conc_sub_lt _ _ _) hz).symm
      · -- sge, assumption sle int_max
        obtain ⟨hAop, hAr⟩ := hAhi (Or.inl ho)
        rw [hopT, ho] at hb1
        rw [hopA, hAop] at hb2
        dsimp only at hb1 hb2
        rw [hb1, ← hsame] at hb2
        simp only [addUpper, addLower, if_true] at hb2
        rw [hwd, hwT', hwA', hrA, hAr, hrT] at hb2
        rw [ho] at hcmpv
        simp only [concCmp, decide_eq_true_eq, ge_iff_le] at hcmpv
        refine final _ _ hb2 ?_
        rw [toInt_ti _ _ hwpos, toInt_ti _ _ hwpos] at hcmpv
        have hW := sge_Win _ _ _ hH (by rw [← hmH]; exact haddlt) (by rw [← hmH]; exact hrlt) hcmpv
        rw [← hmH] at hW
        have hW' := Win_pre_sub T0.w _ _ vf CT hrlt hH1lt hvflt hCT hW
        exact InB_signed T0.w _ _ vf lmin lmax _ _ hwpos (conc_sub_lt _ _ _) (conc_sub_lt _ _ _) hvflt hax hxb (Or.inl rfl)
          (Or.inl rfl) hW'
  · have hs' : symBV oT.t.lhs = false := by simpa using hs
    have hsA' : symBV oA.t.lhs = false := by rw [← hsame]; exact hs'
    unfold handle at h1 h2
    rw [card_nonsym anno oT.t.lhs hs'] at h1
    rw [card_nonsym anno oA.t.lhs hsA'] at h2
    obtain ⟨c1, hc1, h1⟩ := bindM_ok h1
    obtain ⟨c2, hc2, h2⟩ := bindM_ok h2
    have := pureM_ok hc1; subst this
    have := pureM_ok hc2; subst this
    simp only [if_true] at h1 h2
    have := pureM_ok h1; subst this
    have := pureM_ok h2; subst this
    intro e lo hi hm; cases hm


omit hctx hnrm in
theorem opposite_sOrd (op : CmpOp) (h : sOrd op) : sOrd (opposite op) := by
  rcases h with h | h | h | h <;> rw [h] <;> simp [opposite, sOrd]

omit hctx hnrm in
theorem mkCmp_sOrd (op : CmpOp) (l : BV) (r w : Nat) (h : sOrd op) : mkCmp op l r w = mkCmpT op l r w := by
  rcases h with h | h | h | h <;> rw [h] <;> rfl

/-- `_adjust_truism` on a signed ordering of two well-typed sides with a value: the adjusted truism is well typed, signed,
holds whenever the constraint does, and its left side converts -/
theorem adjust_s (op : CmpOp) (a b : BV) (ca cb : Nat) (t : Tru) (hoa : ExprOK anno env a) (hob : ExprOK anno env b)
    (hwab : wd a = wd b) (hord : sOrd op) (hsym : ∀ r w, b = .const r w → symBV a = true)
    (hca : cardNE anno a = .ok ca) (hcb : cardNE anno b = .ok cb) (hT : adjust op a b ca cb = .ok (.tru t)) :
    TruOK anno env t ∧ sOrd t.op ∧ (evalB env (.cmp op a b) = some true → t.holds env) ∧
      ∃ o p, convBV anno t.lhs o = .ok p := by
  obtain ⟨x, hx⟩ := exprOK_val anno env a hoa
  obtain ⟨y, hy⟩ := exprOK_val anno env b hob
  have hcmp : evalB env (.cmp op a b) = some true → concCmp op (wd a) x y = true := by
    intro hsat
    simp only [evalB, hx, hy, Option.bind_eq_bind, Option.bind_some, Option.some.injEq] at hsat; exact hsat
  have conv_of_card : ∀ e c, symBV e = true → cardNE anno e = .ok c → ∃ o p, convBV anno e o = .ok p := by
    intro e c hs hc
    unfold cardNE at hc
    obtain ⟨c', hc', _⟩ := bindM_ok hc
    obtain ⟨p, hp, _⟩ := card_conv e hs c' hc'
    exact ⟨[], p, hp⟩
  unfold adjust at hT
  by_cases hrev : ca = 1 ∧ cb > 1
  · rw [if_pos hrev] at hT
    have hsb : symBV b = true := card_gt_one_sym anno b cb hcb hrev.2
    cases a with
    | const r w =>
      have hTT := pureM_ok hT
      have hrw : r < 2 ^ w ∧ 0 < w := by have := hoa.1; simp only [WTBV] at this; exact ⟨this.2, this.1⟩
      have hxr : x = r := by simp only [evalBV, Option.some.injEq] at hx; exact hx.symm
      subst hxr
      have hwb : wd b = w := by rw [← hwab]; rfl
      rw [mkCmp_sOrd _ _ _ _ (opposite_sOrd op hord), mkCmpT_sym _ _ _ _ hsb] at hTT
      cases hTT
      refine ⟨⟨hob, hsb, hwb, hrw.1⟩, opposite_sOrd op hord, fun hsat => ⟨y, hy, ?_⟩, conv_of_card b cb hsb hcb⟩
      simp only; rw [concCmp_opposite]; exact hcmp hsat
    | _ => cases hT
  · rw [if_neg hrev] at hT
    cases b with
    | const r w =>
      have hTT := pureM_ok hT
      have hsa : symBV a = true := hsym r w rfl
      have hrw : r < 2 ^ w ∧ 0 < w := by have := hob.1; simp only [WTBV] at this; exact ⟨this.2, this.1⟩
      have hyr : y = r := by simp only [evalBV, Option.some.injEq] at hy; exact hy.symm
      subst hyr
      cases hTT
      exact ⟨⟨hoa, hsa, hwab, hrw.1⟩, hord, fun hsat => ⟨x, hx, by simp only; rw [← show wd a = w from hwab]; exact hcmp hsat⟩,
        conv_of_card a ca hsa hca⟩
    | _ => cases hT

/-- **`_doit` on a SIGNED ordering**: when the truism and its implicit assumption are both balanced only across `+` / `-`
(or not at all) and end at the same expression, the recorded bounds are sound (wrapped interval) -/
theorem doit_pair_s (op : CmpOp) (a b : BV) (bs : Bounds) (info : PathInfo) (oT oA : BalOut) (hoa : ExprOK anno env a)
    (hob : ExprOK anno env b) (hwab : wd a = wd b) (hord : sOrd op) (hsym : ∀ r w, b = .const r w → symBV a = true)
    (h : doit anno (.cmp op a b) = .ok (.sat bs info)) (hmain : info.main = some oT) (hassum : info.assum = some oA)
    (hptT : oT.usedPt = false) (hptA : oA.usedPt = false) (hsame : oT.t.lhs = oA.t.lhs)
    (hsat : evalB env (.cmp op a b) = some true) : Sound env bs := by
  unfold doit at h
  obtain ⟨tv, _, h⟩ := bindM_ok h
  by_cases htv : tv = .f
  · rw [if_pos htv] at h; cases h
  · rw [if_neg htv] at h
    obtain ⟨ca, hca, h⟩ := bindM_ok h
    obtain ⟨cb, hcb, h⟩ := bindM_ok h
    by_cases hboth : ca > 1 ∧ cb > 1
    · rw [if_pos hboth] at h; have := pureM_ok h; cases this; cases hmain
    · rw [if_neg hboth] at h
      obtain ⟨T, hT, h⟩ := bindM_ok h
      cases T with
      | lit _ => have := pureM_ok h; cases this; cases hmain
      | tru t =>
        dsimp only at h
        obtain ⟨p1, hp1, h⟩ := bindM_ok h
        obtain ⟨hokt, hordt, hht, hconvt⟩ := adjust_s anno env hctx hnrm op a b ca cb t hoa hob hwab hord hsym hca hcb hT
        obtain ⟨A0, hA, _⟩ := assumption_s anno env hctx hnrm t hokt hordt hconvt
        rw [hA] at h
        dsimp only at h
        by_cases hAc : (Tr.tru A0).toB = BExp.cmp op a b
        · rw [if_pos hAc] at h; have := pureM_ok h; cases this; cases hassum
        · rw [if_neg hAc] at h
          obtain ⟨av, _, h⟩ := bindM_ok h
          by_cases hav : av = .f
          · rw [if_pos hav] at h; cases h
          · rw [if_neg hav] at h
            obtain ⟨_, _, h⟩ := bindM_ok h
            obtain ⟨p2, hp2, h⟩ := bindM_ok h
            have := pureM_ok h; cases this
            cases hmain; cases hassum
            unfold processTru at hp1 hp2
            obtain ⟨o1, hb1, hp1⟩ := bindM_ok hp1
            obtain ⟨bs1, hh1, hp1⟩ := bindM_ok hp1
            have := pureM_ok hp1; subst this
            obtain ⟨o2, hb2, hp2⟩ := bindM_ok hp2
            obtain ⟨bs2, hh2, hp2⟩ := bindM_ok hp2
            have := pureM_ok hp2; subst this
            exact pair_sound_s anno env hctx hnrm t A0 o1 o2 bs1 bs2 hokt hordt hconvt (hht hsat) hA hb1 hb2 hptT hptA hsame hh1 hh2

end

end Claripy.VSA.Bal
