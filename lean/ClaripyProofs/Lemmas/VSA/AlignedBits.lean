import ClaripyProofs.Lemmas.VSA.AlignedMul
import ClaripyProofs.Lemmas.VSA.AndXor
/-! `bitwise_or` keeps alignment; `bitwise_and` and `bitwise_xor` return aligned intervals whatever the operands (their last
step is a `bitwise_not`, resp. an `or` of two complements). -/
namespace Claripy.VSA

/-- one `(u, v)` iteration of `bitwise_or` on aligned non-wrapping pieces is aligned -/
theorem orPiece_aligned (w : Nat) (u v : SI) (hu : WFw w u) (hv : WFw w v) (_hw0 : 0 < w)
    (hule : u.lb ≤ u.ub) (hvle : v.lb ≤ v.ub) (_hub0 : u.bottom = false) (_hvb0 : v.bottom = false)
    (alu : u.Aligned) (alv : v.Aligned) : (orPiece u v).Aligned := by
  obtain ⟨hT1, hT2⟩ := orSt_dvd u v hu.1 hv.1
  have hud := aligned_dvd u hu.1 alu
  have hvd := aligned_dvd v hv.1 alv
  have hub := hu.2
  have hvb := hv.2
  obtain ⟨_, hul, huu, hust⟩ := hu.1
  obtain ⟨_, hvl, hvu, hvst⟩ := hv.1
  rw [hub] at hul huu hud
  rw [hvb] at hvl hvu hvd
  have eu : cd (2 ^ w) u.lb u.ub = u.ub - u.lb := by unfold cd; split_ifs <;> omega
  have ev : cd (2 ^ w) v.lb v.ub = v.ub - v.lb := by unfold cd; split_ifs <;> omega
  rw [eu] at hud
  rw [ev] at hvd
  rw [orPiece_eq, hub]
  generalize ht : orSt u v = t at *
  have hp := two_pow_pos' t
  rw [clearLow_eq _ _ _ hul, clearLow_eq _ _ _ huu, clearLow_eq _ _ _ hvl, clearLow_eq _ _ _ hvu]
  have fle : ∀ p : Nat, p / 2 ^ t * 2 ^ t ≤ p := fun p => Nat.div_mul_le_self p _
  have hlolt := minOr_lt (u.lb / 2 ^ t * 2 ^ t) (u.ub / 2 ^ t * 2 ^ t) (v.lb / 2 ^ t * 2 ^ t) (v.ub / 2 ^ t * 2 ^ t) w
    (Nat.lt_of_le_of_lt (fle _) hul) (Nat.lt_of_le_of_lt (fle _) hvl)
  have hhilt := maxOr_lt (u.lb / 2 ^ t * 2 ^ t) (u.ub / 2 ^ t * 2 ^ t) (v.lb / 2 ^ t * 2 ^ t) (v.ub / 2 ^ t * 2 ^ t) w
    (Nat.lt_of_le_of_lt (fle _) huu) (Nat.lt_of_le_of_lt (fle _) hvu)
  rw [clearLow_eq _ _ _ hlolt, clearLow_eq _ _ _ hhilt]
  generalize hlo : minOr (u.lb / 2 ^ t * 2 ^ t) (u.ub / 2 ^ t * 2 ^ t) (v.lb / 2 ^ t * 2 ^ t) (v.ub / 2 ^ t * 2 ^ t) w = lo at *
  generalize hhi : maxOr (u.lb / 2 ^ t * 2 ^ t) (u.ub / 2 ^ t * 2 ^ t) (v.lb / 2 ^ t * 2 ^ t) (v.ub / 2 ^ t * 2 ^ t) w = hi at *
  obtain ⟨cL1, cL2, _, cU, _⟩ := or_core w t u.lb u.ub v.lb v.ub u.lb v.lb (Nat.le_refl _) hule huu (Nat.le_refl _) hvle hvu
    rfl rfl lo hi hlo.symm hhi.symm
  have hr : u.lb % 2 ^ t ||| v.lb % 2 ^ t < 2 ^ t := Nat.or_lt_two_pow (Nat.mod_lt _ hp) (Nat.mod_lt _ hp)
  simp only [mul_or_low _ _ _ hr] at cL1 cL2 cU ⊢
  generalize hrr : u.lb % 2 ^ t ||| v.lb % 2 ^ t = r at *
  have hLU : lo / 2 ^ t * 2 ^ t + r ≤ hi / 2 ^ t * 2 ^ t + r := by omega
  have hLlt : lo / 2 ^ t * 2 ^ t + r < 2 ^ w := by omega
  apply aligned_new w _ _ _ hLlt cU
  have ecd : cd (2 ^ w) (lo / 2 ^ t * 2 ^ t + r) (hi / 2 ^ t * 2 ^ t + r) = hi / 2 ^ t * 2 ^ t - lo / 2 ^ t * 2 ^ t := by
    unfold cd; split_ifs <;> omega
  rw [ecd]
  by_cases he : lo = hi
  · rw [if_pos he, he]; simp
  · rw [if_neg he]
    unfold orNs0
    rw [ht]
    by_cases d1 : (u.isInteger && u.lb == 0) = true
    · rw [if_pos d1]
      have h' : u.lb = u.ub ∧ u.lb = 0 := by simpa [SI.isInteger] using d1
      have e0 : u.ub = 0 := by omega
      have f1 : lo = v.lb / 2 ^ t * 2 ^ t := by
        rw [← hlo, h'.2, e0]; simp only [Nat.zero_div, Nat.zero_mul]; exact minOrLoop_zero_left _ _ _
      have f2 : hi = v.ub / 2 ^ t * 2 ^ t := by
        rw [← hhi, h'.2, e0]; simp only [Nat.zero_div, Nat.zero_mul]; exact maxOrLoop_zero_left _ _ _
      rw [f1, f2, Nat.mul_div_cancel _ hp, Nat.mul_div_cancel _ hp]
      -- low bits of both bounds of `v` agree: `2^t ∣ stride ∣ ub − lb`
      have hm : v.ub % 2 ^ t = v.lb % 2 ^ t := mod_of_dvd_sub _ _ _ hvle (Nat.dvd_trans hT2 hvd)
      have e1 := Nat.div_add_mod v.ub (2 ^ t)
      have e2 := Nat.div_add_mod v.lb (2 ^ t)
      have e3 : v.ub / 2 ^ t * 2 ^ t - v.lb / 2 ^ t * 2 ^ t = v.ub - v.lb := by
        rw [Nat.mul_comm (v.ub / 2 ^ t), Nat.mul_comm (v.lb / 2 ^ t)]; omega
      rw [e3]; exact hvd
    · rw [if_neg d1]
      by_cases d2 : (v.isInteger && v.lb == 0) = true
      · rw [if_pos d2]
        have h' : v.lb = v.ub ∧ v.lb = 0 := by simpa [SI.isInteger] using d2
        have e0 : v.ub = 0 := by omega
        have f1 : lo = u.lb / 2 ^ t * 2 ^ t := by
          rw [← hlo, h'.2, e0]; simp only [Nat.zero_div, Nat.zero_mul]; exact minOrLoop_zero_right _ _ _
        have f2 : hi = u.ub / 2 ^ t * 2 ^ t := by
          rw [← hhi, h'.2, e0]; simp only [Nat.zero_div, Nat.zero_mul]; exact maxOrLoop_zero_right _ _ _
        rw [f1, f2, Nat.mul_div_cancel _ hp, Nat.mul_div_cancel _ hp]
        have hm : u.ub % 2 ^ t = u.lb % 2 ^ t := mod_of_dvd_sub _ _ _ hule (Nat.dvd_trans hT1 hud)
        have e1 := Nat.div_add_mod u.ub (2 ^ t)
        have e2 := Nat.div_add_mod u.lb (2 ^ t)
        have e3 : u.ub / 2 ^ t * 2 ^ t - u.lb / 2 ^ t * 2 ^ t = u.ub - u.lb := by
          rw [Nat.mul_comm (u.ub / 2 ^ t), Nat.mul_comm (u.lb / 2 ^ t)]; omega
        rw [e3]; exact hud
      · rw [if_neg d2, ← Nat.sub_mul]
        exact Nat.dvd_mul_left _ _

/-- **`bitwise_or` of aligned operands is aligned** -/
theorem or_aligned (s t r : SI) (hs : s.WF) (ht : t.WF) (hbits : s.bits = t.bits) (hsb : s.bottom = false)
    (htb : t.bottom = false) (als : s.Aligned) (alt : t.Aligned) (h : s.bitwiseOr t = .ok r) : r.Aligned := by
  obtain ⟨us, hus, hup, _, _⟩ := ssplit_spec s hs hsb
  obtain ⟨vs, hvs, hvp, _, _⟩ := ssplit_spec t ht htb
  have au := ssplit_aligned s hs als us hus
  have av := ssplit_aligned t ht alt vs hvs
  unfold SI.bitwiseOr at h
  rw [hus, hvs] at h
  simp only [bind, Except.bind, pure, Except.pure] at h
  generalize hrs : (us.map fun u => vs.map fun v => orPiece u v).flatten = rs at h
  cases hl : leastUpperBound rs with
  | error e => rw [hl] at h; cases h
  | ok m =>
    rw [hl] at h
    have hr : r = m.renorm := by cases h; rfl
    subst hr
    have hP : ∀ p, p ∈ rs → WFw s.bits p ∧ p.Aligned := by
      intro p hp
      rw [← hrs] at hp
      obtain ⟨l, hl1, hl2⟩ := List.mem_flatten.1 hp
      obtain ⟨u, hu, hul⟩ := List.mem_map.1 hl1
      subst hul
      obtain ⟨v, hv, hvp'⟩ := List.mem_map.1 hl2
      subst hvp'
      obtain ⟨wu, bu, ule, _⟩ := hup u hu
      obtain ⟨wv, bv, vle, _⟩ := hvp v hv
      rw [← hbits] at wv
      exact ⟨(orPiece_spec s.bits u v wu wv hs.1 ule vle).1,
        orPiece_aligned s.bits u v wu wv hs.1 ule vle bu bv (au u hu) (av v hv)⟩
    have hm1 := (lub_sup s.bits rs m (fun p hp => (hP p hp).1) hl).1
    exact renorm_aligned m hm1.1 (lub_aligned s.bits rs m hP hl)

theorem andTry_aligned (w : Nat) (a b r : SI) (ha : a.bits = w) (hb : b.bits = w) (hw0 : 0 < w)
    (h : andTry w a b = .ok (some r)) : r.Aligned := by
  unfold andTry at h
  split at h
  · obtain ⟨ps, _, h⟩ := bind_ok' h
    simp only [] at h
    split at h
    · have := pure_ok' h; cases this; exact new_singleton_aligned _ _ _
    · split at h
      · have := pure_ok' h; cases this; exact new_singleton_aligned _ _ _
      · have := pure_ok' h
        cases this
        rw [ha, hb]
        have hm2 := two_pow_half w hw0
        have hH := two_pow_pos' (w - 1)
        have := aligned_new w (2 ^ (w - 1)) 0 (2 ^ (w - 1)) (by omega) (by omega) (by rw [cd_zero])
        simpa using this
  · have := pure_ok' h; cases this

/-- **`bitwise_and` returns an aligned interval** whatever the operands: the sign-bit shortcut builds `{0}`, `{2^(w-1)}` or
`2^(w-1)[0, 2^(w-1)]`, the general route ends with a `bitwise_not` -/
theorem and_aligned (s t r : SI) (hs : s.WF) (ht : t.WF) (hbits : s.bits = t.bits) (hsb : s.bottom = false)
    (htb : t.bottom = false) (h : s.bitwiseAnd t = .ok r) : r.Aligned := by
  rw [bitwiseAnd_eq] at h
  obtain ⟨o1, h1, h⟩ := bind_ok' h
  cases o1 with
  | some r1 =>
    have := pure_ok' h
    subst this
    exact andTry_aligned t.bits s t r hbits rfl ht.1 h1
  | none =>
    simp only [] at h
    obtain ⟨o2, h2, h⟩ := bind_ok' h
    cases o2 with
    | some r2 =>
      have := pure_ok' h
      subst this
      exact andTry_aligned t.bits t s r rfl hbits ht.1 h2
    | none =>
      simp only [] at h
      obtain ⟨cs, hcs, h⟩ := bind_ok' h
      obtain ⟨ct, hct, h⟩ := bind_ok' h
      obtain ⟨o, ho, h⟩ := bind_ok' h
      obtain ⟨q, hq, h⟩ := bind_ok' h
      have hr := pure_ok' h
      obtain ⟨ws, bs, _, _⟩ := not_full s cs hs hsb hcs
      obtain ⟨wt, bt, _, _⟩ := not_full t ct ht htb hct
      obtain ⟨wo, bo, _, _⟩ := or_full cs ct o ws.1 wt.1 (by rw [ws.2, wt.2]; exact hbits) bs bt ho
      obtain ⟨wq, _, _, _⟩ := not_full o q wo.1 bo hq
      rw [hr]
      exact renorm_aligned q wq.1 (not_aligned o q wo.1 bo hq)

/-- **`bitwise_xor` returns an aligned interval** whatever the operands: it is the `or` of two complements -/
theorem xor_aligned (s t r : SI) (hs : s.WF) (ht : t.WF) (hbits : s.bits = t.bits) (hsb : s.bottom = false)
    (htb : t.bottom = false) (h : s.bitwiseXor t = .ok r) : r.Aligned := by
  unfold SI.bitwiseXor at h
  obtain ⟨cs, hcs, h⟩ := bind_ok' h
  obtain ⟨ct, hct, h⟩ := bind_ok' h
  obtain ⟨o1, ho1, h⟩ := bind_ok' h
  obtain ⟨l, hl, h⟩ := bind_ok' h
  obtain ⟨o2, ho2, h⟩ := bind_ok' h
  obtain ⟨q, hq, h⟩ := bind_ok' h
  obtain ⟨o3, ho3, h⟩ := bind_ok' h
  have hr := pure_ok' h
  obtain ⟨ws, bs, _, _⟩ := not_full s cs hs hsb hcs
  obtain ⟨wt, bt, _, _⟩ := not_full t ct ht htb hct
  rw [← hbits] at wt
  obtain ⟨w1, b1, _, _⟩ := or_full cs t o1 ws.1 ht (by rw [ws.2]; exact hbits) bs htb ho1
  rw [ws.2] at w1
  obtain ⟨wl, bl, _, _⟩ := not_full o1 l w1.1 b1 hl
  rw [w1.2] at wl
  obtain ⟨w2, b2, _, _⟩ := or_full s ct o2 hs wt.1 wt.2.symm hsb bt ho2
  obtain ⟨wq, bq, _, _⟩ := not_full o2 q w2.1 b2 hq
  rw [w2.2] at wq
  obtain ⟨w3, _, _, _⟩ := or_full l q o3 wl.1 wq.1 (by rw [wl.2, wq.2]) bl bq ho3
  rw [hr]
  exact renorm_aligned o3 w3.1
    (or_aligned l q o3 wl.1 wq.1 (by rw [wl.2, wq.2]) bl bq (not_aligned o1 l w1.1 b1 hl) (not_aligned o2 q w2.1 b2 hq) ho3)

end Claripy.VSA
