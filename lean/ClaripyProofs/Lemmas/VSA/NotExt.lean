import ClaripyProofs.Lemmas.VSA.Split
import Claripy.VSA.Conc
/-! `bitwise_not` and `zero_extend` are sound and closed under well-formedness. -/
namespace Claripy.VSA

theorem imod_neg (n w : Nat) (hn : n < 2 ^ w) : imod (-(n : Int) - 1) w = 2 ^ w - 1 - n := by
  unfold imod
  have hm : (0 : Int) < ((2 ^ w : Nat) : Int) := by exact_mod_cast two_pow_pos' w
  have : (-(n : Int) - 1) % ((2 ^ w : Nat) : Int) = ((2 ^ w : Nat) : Int) - 1 - n := by
    rw [← Int.add_emod_right]
    have e : -(n : Int) - 1 + ((2 ^ w : Nat) : Int) = ((2 ^ w : Nat) : Int) - 1 - n := by omega
    rw [e]
    apply Int.emod_eq_of_lt <;> omega
  rw [this]; omega

/-- one piece of `bitwise_not`: complementing a non-wrapping piece -/
theorem not_piece_mem (w st : Nat) (p : SI) (hp : WFw w p) (hle : p.lb ≤ p.ub) (hst : p.stride = 0 ∨ p.stride = st)
    (x : Nat) (hx : p.mem x) :
    (SI.new w st (-(p.lastMember : Int) - 1) (-(p.lb : Int) - 1)).mem (2 ^ w - 1 - x) := by
  obtain ⟨hw, hb⟩ := hp
  obtain ⟨hlastlt, hlastcd⟩ := lastMember_facts p hw
  obtain ⟨h0, hl, hu, hs⟩ := hw
  rw [hb] at hl hu hlastlt hlastcd
  have hxm := hx
  rw [mem_iff _ _ (by rw [hb]; exact hl) (by rw [hb]; exact hu), hb] at hxm
  obtain ⟨_, hxl, hx1, hx2⟩ := hxm
  obtain ⟨hle2, hdv⟩ := mem_le_last _ _ _ hx1 hx2
  rw [← hlastcd] at hle2 hdv
  have hLle : cd (2 ^ w) p.lb p.lastMember ≤ cd (2 ^ w) p.lb p.ub := by
    rw [hlastcd]; split_ifs
    · omega
    · exact Nat.div_mul_le_self _ _
  rw [mem_new, imod_neg _ _ hlastlt, imod_neg _ _ hl]
  have hm := two_pow_pos' w
  -- everything is linear once the distances are unfolded (no wrap inside the piece)
  have e1 : cd (2 ^ w) (2 ^ w - 1 - p.lastMember) (2 ^ w - 1 - x) =
      cd (2 ^ w) p.lb p.lastMember - cd (2 ^ w) p.lb x := by
    unfold cd at hle2 hx1 hLle ⊢; split_ifs at hle2 hx1 hLle ⊢ <;> omega
  have e2 : cd (2 ^ w) (2 ^ w - 1 - p.lastMember) (2 ^ w - 1 - p.lb) = cd (2 ^ w) p.lb p.lastMember := by
    unfold cd at hLle ⊢; split_ifs at hLle ⊢ <;> omega
  refine ⟨by omega, by rw [e1, e2]; omega, ?_⟩
  rw [e1]
  apply stride_cond_of_dvd
  · rcases hst with h | h
    · have hL0 : cd (2 ^ w) p.lb p.lastMember = 0 := by rw [hlastcd, if_pos h]
      rw [hL0]; simp
    · rw [← h]; exact hdv
  · intro hz
    have hp0 : p.stride = 0 := by rcases hst with h | h; exact h; rw [h]; exact hz
    have hL0 : cd (2 ^ w) p.lb p.lastMember = 0 := by rw [hlastcd, if_pos hp0]
    rw [hL0]; simp

theorem not_piece_WF (w st : Nat) (p : SI) (hp : WFw w p) (hw0 : 0 < w) (hst : p.stride = 0 ∨ p.stride = st)
    (hst0 : st = 0 → p.stride = 0) :
    WFw w (SI.new w st (-(p.lastMember : Int) - 1) (-(p.lb : Int) - 1)) := by
  refine ⟨new_WF _ _ _ _ hw0 ?_, new_bits _ _ _ _⟩
  intro hz
  have hp0 := hst0 hz
  have : p.lastMember = p.lb := by unfold SI.lastMember; simp [hp0]
  rw [this]

/-- **`bitwise_not` is sound and closed** (all widths; unaligned operands included since the repair) -/
theorem not_sound (a r : SI) (ha : a.WF) (hnb : a.bottom = false) (h : a.bitwiseNot = .ok r) :
    WFw a.bits r ∧ ∀ x, a.mem x → r.mem (2 ^ a.bits - 1 - x) := by
  obtain ⟨ps, hps, hprop, hcov, _⟩ := ssplit_spec a ha hnb
  unfold SI.bitwiseNot at h
  rw [hps] at h
  simp only [bind, Except.bind, pure, Except.pure] at h
  generalize hrs : (ps.map fun p => SI.new a.bits a.stride (-(p.lastMember : Int) - 1) (-(p.lb : Int) - 1)) = rs at h
  cases hl : leastUpperBound rs with
  | error e => rw [hl] at h; cases h
  | ok u =>
    rw [hl] at h
    have hr : r = u.renorm := by cases h; rfl
    subst hr
    have hP : ∀ t, t ∈ rs → WFw a.bits t := by
      intro t ht
      rw [← hrs] at ht
      obtain ⟨p, hp, hpt⟩ := List.mem_map.1 ht
      subst hpt
      obtain ⟨hwf, _, _, hst⟩ := hprop p hp
      apply not_piece_WF _ _ p hwf ha.1 hst
      intro hz
      rcases hst with h1 | h1
      · exact h1
      · rw [h1]; exact hz
    obtain ⟨hu1, hu2⟩ := lub_sup a.bits rs u hP hl
    refine ⟨renorm_WFw _ u hu1, ?_⟩
    intro x hx
    obtain ⟨p, hp, hpx⟩ := hcov x hx
    obtain ⟨hwf, _, hle, hst⟩ := hprop p hp
    apply (renorm_mem u hu1.1 _).2
    apply hu2
    refine ⟨_, ?_, not_piece_mem a.bits a.stride p hwf hle hst x hpx⟩
    rw [← hrs]
    exact List.mem_map.2 ⟨p, hp, rfl⟩

/-! ### zero extension -/

/-- a non-wrapping interval keeps its members when only the width grows -/
theorem widen_bits_mem (p : SI) (w nl : Nat) (hp : WFw w p) (hle : p.lb ≤ p.ub) (hnl : w ≤ nl) (x : Nat) (hx : p.mem x) :
    ({ p with bits := nl } : SI).mem x := by
  obtain ⟨hw, hb⟩ := hp
  obtain ⟨hbt, hxl, h1, h2⟩ := mem_facts p x hw hx
  obtain ⟨h0, hl, hu, hs⟩ := hw
  rw [hb] at hl hu hxl h1 h2
  have hpow : 2 ^ w ≤ 2 ^ nl := Nat.pow_le_pow_right (by omega) hnl
  have hbtw : p.lb ≤ x ∧ x ≤ p.ub := by
    unfold cd at h1; split_ifs at h1 <;> omega
  have e1 : cd (2 ^ nl) p.lb x = cd (2 ^ w) p.lb x := by unfold cd; split_ifs <;> omega
  have e2 : cd (2 ^ nl) p.lb p.ub = cd (2 ^ w) p.lb p.ub := by unfold cd; split_ifs <;> omega
  rw [mem_iff _ _ (by show p.lb < 2 ^ nl; omega) (by show p.ub < 2 ^ nl; omega)]
  show p.bottom = false ∧ x < 2 ^ nl ∧ cd (2 ^ nl) p.lb x ≤ cd (2 ^ nl) p.lb p.ub ∧
    (if p.stride = 0 then cd (2 ^ nl) p.lb x = 0 else cd (2 ^ nl) p.lb x % p.stride = 0)
  rw [e1, e2]
  refine ⟨hbt, by omega, h1, ?_⟩
  split_ifs with hz
  · rw [hz] at h2; exact Nat.eq_zero_of_zero_dvd h2
  · exact Nat.mod_eq_zero_of_dvd h2

theorem widen_bits_WF (p : SI) (w nl : Nat) (hp : WFw w p) (hnl : w ≤ nl) : WFw nl ({ p with bits := nl } : SI) := by
  obtain ⟨⟨h0, hl, hu, hs⟩, hb⟩ := hp
  rw [hb] at hl hu
  have hpow : 2 ^ w ≤ 2 ^ nl := Nat.pow_le_pow_right (by omega) hnl
  exact ⟨⟨by show 0 < nl; omega, by show p.lb < 2 ^ nl; omega, by show p.ub < 2 ^ nl; omega, hs⟩, rfl⟩

/-- **`zero_extend` is sound and closed** (the wrapping case extends the two halves and joins them) -/
theorem zext_sound (a r : SI) (nl : Nat) (ha : a.WF) (hnb : a.bottom = false) (hnl : a.bits ≤ nl)
    (h : a.zeroExtend nl = .ok r) : WFw nl r ∧ ∀ x, a.mem x → r.mem x := by
  unfold SI.zeroExtend at h
  by_cases hwrap : (!a.bottom && decide (a.lb > a.ub)) = true
  · rw [if_pos hwrap] at h
    obtain ⟨ps, hps, hprop, hcov, _⟩ := ssplit_spec a ha hnb
    rw [hps] at h
    simp only [bind, Except.bind] at h
    have hP : ∀ t, t ∈ (ps.map fun p => ({ p.renorm with bits := nl } : SI)) → WFw nl t := by
      intro t ht
      obtain ⟨p, hp, hpt⟩ := List.mem_map.1 ht
      subst hpt
      obtain ⟨hwf, _, _, _⟩ := hprop p hp
      exact widen_bits_WF _ _ _ (renorm_WFw _ p hwf) hnl
    obtain ⟨h1, h2⟩ := lub_sup nl _ r hP h
    refine ⟨h1, ?_⟩
    intro x hx
    obtain ⟨p, hp, hpx⟩ := hcov x hx
    obtain ⟨hwf, hpb, hle, _⟩ := hprop p hp
    apply h2
    refine ⟨_, List.mem_map.2 ⟨p, hp, rfl⟩, ?_⟩
    have hrn : p.renorm.lb ≤ p.renorm.ub := by
      unfold SI.renorm; rw [hpb]
      simp only [Bool.false_eq_true, if_false]
      have hl := hwf.1.2.1; have hu := hwf.1.2.2.1
      exact new_nowrap _ _ _ _ hl hu hle
    exact widen_bits_mem p.renorm a.bits nl (renorm_WFw _ p hwf) hrn hnl x ((renorm_mem p hwf.1 x).2 hpx)
  · rw [if_neg hwrap] at h
    have hr : r = { a.renorm with bits := nl } := by cases h; rfl
    subst hr
    have hle : a.lb ≤ a.ub := by
      simp only [hnb, Bool.not_false, Bool.true_and, decide_eq_true_eq] at hwrap; omega
    have hrn : a.renorm.lb ≤ a.renorm.ub := by
      unfold SI.renorm; rw [hnb]
      simp only [Bool.false_eq_true, if_false]
      exact new_nowrap _ _ _ _ ha.2.1 ha.2.2.1 hle
    refine ⟨widen_bits_WF _ _ _ (renorm_WFw _ a ⟨ha, rfl⟩) hnl, ?_⟩
    intro x hx
    exact widen_bits_mem a.renorm a.bits nl (renorm_WFw _ a ⟨ha, rfl⟩) hrn hnl x ((renorm_mem a ha x).2 hx)

end Claripy.VSA
