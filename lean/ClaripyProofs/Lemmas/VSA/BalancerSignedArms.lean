import ClaripyProofs.Lemmas.VSA.BalancerSigned
/-!
The arms of `_balance` on SIGNED orderings.  `_balance_zeroext` and `_balance_concat` (zero high part) rewrite
`ZeroExt(k, e) OPs c` to `e OPs c[w-k-1:0]` for the signed operators as well.  That step is NOT meaning-preserving: the
sign bit of the narrower comparison is another bit (`C25_zext_signed_not_meaning_preserving`).  What the step does keep is
the UNSIGNED reading of the truism (`Tru.holdsU`): both sides of the wide comparison are non-negative, so it is an unsigned
comparison, and that one survives dropping the zero bits.
-/
set_option linter.unusedSectionVars false
namespace Claripy.VSA.Bal
open Claripy.VSA

/-- the unsigned counterpart of an ordering -/
def uOf : CmpOp → CmpOp
  | .slt => .ult | .sle => .ule | .sgt => .ugt | .sge => .uge
  | op => op

/-- the UNSIGNED reading of the truism holds under the assignment -/
def Tru.holdsU (env : Nat → Nat) (t : Tru) : Prop := ∃ v, evalBV env t.lhs = some v ∧ concCmp (uOf t.op) t.w v t.r = true

theorem uOf_uns (op : CmpOp) (h : sOrd op) : unsOp (uOf op) = true := by
  rcases h with h | h | h | h <;> rw [h] <;> rfl

/-- two values with the same sign bit compare signed as they compare unsigned -/
theorem scmp_eq_ucmp (op : CmpOp) (w x y : Nat) (hw : 0 < w) (hop : sOrd op) (hx : x < 2 ^ w) (hy : y < 2 ^ w)
    (hs : x < 2 ^ (w - 1) ↔ y < 2 ^ (w - 1)) : concCmp op w x y = concCmp (uOf op) w x y := by
  have hm := two_pow_half w hw
  have hp : ((2 ^ w : Nat) : Int) = 2 * ((2 ^ (w - 1) : Nat) : Int) := by rw [hm]; push_cast; rfl
  rcases hop with h | h | h | h <;> subst h <;> simp only [concCmp, uOf, Conc.toInt, hp] <;>
    split_ifs <;> simp only [decide_eq_decide] <;> omega

/-- the step is not meaning-preserving for a signed operator: `ZeroExt(4, x) <s 9` (8 bits) becomes `x <s 9` at 4 bits,
where 9 is -7; `x = 0` satisfies the first and not the second.  (The bound recorded for `x` in the end, `min(7, 7, -8) = -8`
read modulo 16 as 8, is sound all the same: the real `constraint_to_si` answers `x ∈ [0, 8]`.) -/
theorem zext_signed_not_meaning_preserving :
    balStep (fun _ => SI.top 4) ⟨.slt, .zext 4 (.free 0 4), 9, 8⟩ = .ok ⟨.slt, .free 0 4, 9, 4⟩ ∧
    concCmp .slt 8 0 9 = true ∧ concCmp .slt 4 0 9 = false ∧ concCmp (uOf .slt) 4 0 9 = true := by
  decide

section
variable (anno : Nat → SI) (env : Nat → Nat) (hctx : ∀ i, (anno i).WF ∧ (anno i).mem (env i)) (hnrm : ∀ i, Nrm (anno i))
include hctx hnrm

/-- `_balance_zeroext` on a signed ordering: unchanged, or the UNSIGNED reading of the new truism holds — from the signed
or from the unsigned reading of the old one -/
theorem balZext_s (t : Tru) (k : Nat) (e : BV) (hl : t.lhs = .zext k e) (hk : 0 < k) (hok : TruOK anno env t) (hop : sOrd t.op)
    (hconv : ∃ p, convBV anno t.lhs [] = .ok p) (hh : t.holds env ∨ t.holdsU env)
    (hs : symBV (balZext t k e).lhs = true) :
    balZext t k e = t ∨ (TruOK anno env (balZext t k e) ∧ (balZext t k e).op = t.op ∧ (balZext t k e).holdsU env) := by
  by_cases hg : Conc.extract (t.w - 1) (t.w - k) t.r = 0
  · right
    have hoe : ExprOK anno env e := ok_zext (hl ▸ hok.ok)
    have hw : t.w = k + wd e := by rw [← hok.wd_eq, hl]; rfl
    have hpos : 0 < wd e := wd_pos anno env (fun i => (hctx i).1) e hoe.1
    have hr := high_zero' t.w k t.r (by omega) hok.r_lt hg
    obtain ⟨p, hp⟩ := hconv
    rw [hl] at hp
    obtain ⟨q, hq⟩ := conv_zext_inner anno k e [] p hp
    -- the unsigned reading of the old truism
    have hU : t.holdsU env := by
      rcases hh with ⟨v, hv, hc⟩ | hu
      · refine ⟨v, hv, ?_⟩
        have hve : evalBV env e = some v := by rw [hl] at hv; simpa [evalBV] using hv
        have hvlt : v < 2 ^ wd e := (conv_val anno env hctx hnrm e hoe [] q hq v hve).2.2.2.1
        have hle : 2 ^ (t.w - k) ≤ 2 ^ (t.w - 1) := Nat.pow_le_pow_right (by omega) (by omega)
        have hle2 : 2 ^ (t.w - 1) ≤ 2 ^ t.w := Nat.pow_le_pow_right (by omega) (by omega)
        have hwk : t.w - k = wd e := by omega
        rw [hwk] at hle hr
        rw [← scmp_eq_ucmp t.op t.w v t.r (by omega) hop (by omega) hok.r_lt ⟨fun _ => by omega, fun _ => by omega⟩]
        exact hc
      · exact hu
    -- the unsigned lemma on the truism with the unsigned operator
    have hokU : TruOK anno env { t with op := uOf t.op } := ⟨hok.ok, hok.sym, hok.wd_eq, hok.r_lt⟩
    have e1 : balZext { t with op := uOf t.op } k e = { balZext t k e with op := uOf t.op } := by
      unfold balZext; simp only [hg, if_true]
    have e2 : (balZext t k e).op = t.op := by unfold balZext; rw [if_pos hg]
    obtain ⟨h1, h2⟩ := balZext_pt anno env hctx hnrm { t with op := uOf t.op } k e hl hokU (uOf_uns _ hop) hU
      (by rw [e1]; exact hs)
    rw [e1] at h1 h2
    refine ⟨⟨h1.ok, h1.sym, h1.wd_eq, h1.r_lt⟩, e2, ?_⟩
    obtain ⟨v, hv, hc⟩ := h2
    exact ⟨v, hv, by rw [e2]; exact hc⟩
  · left; unfold balZext; rw [if_neg hg]

/-- `_balance_concat` (zero high part) on a signed ordering: as `_balance_zeroext` -/
theorem balConcat_s (t t' : Tru) (a b : BV) (hl : t.lhs = .concat a b) (hok : TruOK anno env t) (hop : sOrd t.op)
    (hconv : ∃ p, convBV anno t.lhs [] = .ok p) (hh : t.holds env ∨ t.holdsU env)
    (h : balConcat anno t a b = .ok t') (hs : symBV t'.lhs = true) :
    t' = t ∨ (TruOK anno env t' ∧ t'.op = t.op ∧ t'.holdsU env) := by
  have hstep := h
  unfold balConcat at h
  obtain ⟨z, hz, h⟩ := bindM_ok h
  have hres := pureM_ok h
  by_cases hg : (z && decide (Conc.extract (wd t.lhs - 1) (wd t.lhs - wd a) t.r = 0)) = true
  · right
    rw [if_pos hg] at hres
    have hg' := hg
    simp only [Bool.and_eq_true, decide_eq_true_eq] at hg'
    obtain ⟨hz1, hgr⟩ := hg'
    subst hz1
    obtain ⟨hoa, hob⟩ := ok_concat (hl ▸ hok.ok)
    have hw : wd t.lhs = wd a + wd b := by rw [hl]; rfl
    have hpa : 0 < wd a := wd_pos anno env (fun i => (hctx i).1) a hoa.1
    have hpb : 0 < wd b := wd_pos anno env (fun i => (hctx i).1) b hob.1
    have hrlt : t.r < 2 ^ wd t.lhs := by rw [hok.wd_eq]; exact hok.r_lt
    have hr := high_zero' (wd t.lhs) (wd a) t.r (by omega) hrlt hgr
    obtain ⟨p, hp⟩ := hconv
    rw [hl] at hp
    obtain ⟨o', q, hq⟩ := conv_concat_right anno a b [] p hp
    have hU : t.holdsU env := by
      rcases hh with ⟨v, hv, hc⟩ | hu
      · refine ⟨v, hv, ?_⟩
        obtain ⟨x, hx⟩ := exprOK_val anno env a hoa
        obtain ⟨y, hy⟩ := exprOK_val anno env b hob
        have hv' := hv
        rw [hl] at hv'
        simp only [evalBV, hx, hy, Option.bind_eq_bind, Option.bind_some, Option.some.injEq] at hv'
        have hx0 := isZero_sound anno env hctx hnrm a hoa hz x hx
        subst hx0
        have hvy : v = y := by rw [← hv']; simp [Conc.concat]
        subst hvy
        have hvlt : v < 2 ^ wd b := (conv_val anno env hctx hnrm b hob o' q hq v hy).2.2.2.1
        have hwk : wd t.lhs - wd a = wd b := by omega
        rw [hwk] at hr
        have hww : wd t.lhs = t.w := hok.wd_eq
        have hle : 2 ^ wd b ≤ 2 ^ (t.w - 1) := Nat.pow_le_pow_right (by omega) (by omega)
        have hle2 : 2 ^ (t.w - 1) ≤ 2 ^ t.w := Nat.pow_le_pow_right (by omega) (by omega)
        rw [← scmp_eq_ucmp t.op t.w v t.r (by omega) hop (by omega) hok.r_lt ⟨fun _ => by omega, fun _ => by omega⟩]
        exact hc
      · exact hu
    have hokU : TruOK anno env { t with op := uOf t.op } := ⟨hok.ok, hok.sym, hok.wd_eq, hok.r_lt⟩
    have e1 : balConcat anno { t with op := uOf t.op } a b = .ok { t' with op := uOf t.op } := by
      unfold balConcat
      simp only [hz, hg, if_true, bind, Except.bind, pure, Except.pure]
      rw [hres]
    have e2 : t'.op = t.op := by rw [hres]
    obtain ⟨h1, h2⟩ := balConcat_pt anno env hctx hnrm { t with op := uOf t.op } _ a b hl hokU (uOf_uns _ hop) hU e1 hs
    refine ⟨⟨h1.ok, h1.sym, h1.wd_eq, h1.r_lt⟩, e2, ?_⟩
    obtain ⟨v, hv, hc⟩ := h2
    exact ⟨v, hv, by rw [e2]; exact hc⟩
  · left
    rw [if_neg hg] at hres
    exact hres

end

/-! ### a lone signed bound after such a step is sound

When the UNSIGNED reading `v OPu r` of a signed truism holds, the bound `_handle_comparison` records for it — a SIGNED
integer — read modulo `2^w` with the unsigned default of the other side contains `v`. -/

theorem lone_upper (H v r uf : Nat) (b R : Int) (hH : 0 < H) (hv : v < 2 * H) (hr : r < 2 * H) (hb : ti H v ≤ b)
    (hR : (R = ti H r - 1 ∧ v < r) ∨ (R = ti H r ∧ v ≤ r))
    (huf : (0 ≤ min ((H : Int) - 1) (min b R) ∧ (uf : Int) = min ((H : Int) - 1) (min b R)) ∨
      (min ((H : Int) - 1) (min b R) < 0 ∧ (uf : Int) = min ((H : Int) - 1) (min b R) + 2 * H)) : v ≤ uf := by
  unfold ti at hb hR
  rcases hR with ⟨hR, hvr⟩ | ⟨hR, hvr⟩ <;> rcases huf with ⟨_, huf⟩ | ⟨_, huf⟩ <;> split_ifs at * <;> omega

theorem lone_lower (H v r lf : Nat) (a R : Int) (hH : 0 < H) (hv : v < 2 * H) (hr : r < 2 * H) (ha : a ≤ ti H v)
    (hR : (R = ti H r + 1 ∧ r < v) ∨ (R = ti H r ∧ r ≤ v))
    (hlf : (0 ≤ max (-(H : Int)) (max a R) ∧ (lf : Int) = max (-(H : Int)) (max a R)) ∨
      (max (-(H : Int)) (max a R) < 0 ∧ (lf : Int) = max (-(H : Int)) (max a R) + 2 * H)) : lf ≤ v := by
  unfold ti at ha hR
  rcases hR with ⟨hR, hvr⟩ | ⟨hR, hvr⟩ <;> rcases hlf with ⟨_, hlf⟩ | ⟨_, hlf⟩ <;> split_ifs at * <;> omega

theorem InB_lone_upper (w v : Nat) (U : Int) (hv : v < 2 ^ w) (h : v ≤ imod U w) : InB w none (some U) v := by
  unfold InB
  simp only [Option.getD_none, Option.getD_some]
  have : imod 0 w = 0 := by have := imod_of_lt 0 w (two_pow_pos' w); simpa using this
  rw [this]
  exact (ule_iff_Win (2 ^ w) v _ hv (imod_lt _ _)).1 h

theorem InB_lone_lower (w v : Nat) (L : Int) (hv : v < 2 ^ w) (h : imod L w ≤ v) : InB w (some L) none v := by
  unfold InB
  simp only [Option.getD_none, Option.getD_some]
  have hm := two_pow_pos' w
  have : imod ((2 : Int) ^ w - 1) w = 2 ^ w - 1 := by
    have h1 := imod_of_lt (2 ^ w - 1) w (by omega)
    have h2 : ((2 ^ w - 1 : Nat) : Int) = (2 : Int) ^ w - 1 := by push_cast [Nat.cast_sub hm]; rfl
    rw [h2] at h1; exact h1
  rw [this]
  exact (uge_iff_Win (2 ^ w) v _ hv (imod_lt _ _)).1 h

section
variable (anno : Nat → SI) (env : Nat → Nat) (hctx : ∀ i, (anno i).WF ∧ (anno i).mem (env i)) (hnrm : ∀ i, Nrm (anno i))
include hctx hnrm

/-- **`_handle_comparison` on a signed ordering whose UNSIGNED reading holds** (the state after `_balance_zeroext` /
`_balance_concat`): the lone bound it records, read with the unsigned default of the other side, contains the value -/
theorem handleCmp_U_lone (t : Tru) (bs' : Bounds) (hok : TruOK anno env t) (hop : sOrd t.op) (hh : t.holdsU env)
    (h : handleCmp anno t [] = .ok bs') : Sound env bs' := by
  obtain ⟨pl, lmin, lmax, hpl, hlmin, hlmax, hb⟩ := handleCmp_char_s anno env hctx hnrm t [] bs' hok hop h
  obtain ⟨v, hv, hc⟩ := hh
  obtain ⟨⟨⟨hwf, hbits⟩, hmm⟩, hnr⟩ := conv_good anno env hctx hnrm t.lhs hok.ok [] pl.2 pl.1 hpl
  have hmem := (hmm v hv).1
  have hax := siMin_le_s pl.1.si lmin v hwf hnr hmem hlmin
  have hxb := le_siMax_s pl.1.si lmax v hwf hnr hmem hlmax
  have hvlt : v < 2 ^ wd t.lhs := by have := hmem.2.1; rwa [hbits] at this
  have hwpos : 0 < t.w := by rw [← hok.wd_eq]; exact wd_pos anno env (fun i => (hctx i).1) _ hok.ok.1
  have hwd := hok.wd_eq
  rw [hbits, hwd] at hax hxb
  rw [hwd] at hvlt
  have hrlt := hok.r_lt
  have hmH := two_pow_half t.w hwpos
  have hH := two_pow_pos' (t.w - 1)
  have hHc : (2 : Int) ^ (t.w - 1) = ((2 ^ (t.w - 1) : Nat) : Int) := by push_cast; rfl
  have hmc : (2 : Int) ^ t.w = 2 * ((2 ^ (t.w - 1) : Nat) : Int) := by
    have : ((2 ^ t.w : Nat) : Int) = ((2 * 2 ^ (t.w - 1) : Nat) : Int) := by rw [hmH]
    push_cast at this; rw [← hHc]; exact this
  rw [toInt_ti _ _ hwpos] at hax hxb
  have one : ∀ (lo hi : Option Int), bs' = [(t.lhs, lo, hi)] → InB t.w lo hi v → Sound env bs' := by
    intro lo hi hbs hin e l u hm
    rw [hbs] at hm
    simp only [List.mem_singleton, Prod.mk.injEq] at hm
    obtain ⟨rfl, rfl, rfl⟩ := hm
    exact ⟨v, hv, by rw [hwd]; exact hvlt, by rw [hwd]; exact hin⟩
  obtain ⟨tv1, tv2⟩ := ti_range (2 ^ (t.w - 1)) v (by rw [← hmH]; exact hvlt)
  obtain ⟨tr1, tr2⟩ := ti_range (2 ^ (t.w - 1)) t.r (by rw [← hmH]; exact hrlt)
  unfold cmpResS at hb
  rcases hop with ho | ho | ho | ho <;> rw [ho] at hb hc <;> simp only [uOf, concCmp, decide_eq_true_eq] at hc <;>
    dsimp only at hb <;> simp only [addUpper, addLower] at hb <;> rw [hwd, toInt_ti _ _ hwpos, hHc] at hb
  · refine one _ _ hb (InB_lone_upper _ _ _ hvlt ?_)
    have huf := imod_range (min (((2 ^ (t.w - 1) : Nat) : Int) - 1) (min lmax (ti (2 ^ (t.w - 1)) t.r - 1))) t.w
      (by rw [hmc]; omega) (by rw [hmc]; omega)
    rw [hmc] at huf
    exact lone_upper _ v t.r _ lmax _ hH (by rw [← hmH]; exact hvlt) (by rw [← hmH]; exact hrlt) hxb (Or.inl ⟨rfl, hc⟩) huf
  · refine one _ _ hb (InB_lone_upper _ _ _ hvlt ?_)
    have huf := imod_range (min (((2 ^ (t.w - 1) : Nat) : Int) - 1) (min lmax (ti (2 ^ (t.w - 1)) t.r))) t.w
      (by rw [hmc]; omega) (by rw [hmc]; omega)
    rw [hmc] at huf
    exact lone_upper _ v t.r _ lmax _ hH (by rw [← hmH]; exact hvlt) (by rw [← hmH]; exact hrlt) hxb (Or.inr ⟨rfl, hc⟩) huf
  · refine one _ _ hb (InB_lone_lower _ _ _ hvlt ?_)
    have hlf := imod_range (max (-((2 ^ (t.w - 1) : Nat) : Int)) (max lmin (ti (2 ^ (t.w - 1)) t.r + 1))) t.w
      (by rw [hmc]; omega) (by rw [hmc]; omega)
    rw [hmc] at hlf
    exact lone_lower _ v t.r _ lmin _ hH (by rw [← hmH]; exact hvlt) (by rw [← hmH]; exact hrlt) hax (Or.inl ⟨rfl, hc⟩) hlf
  · refine one _ _ hb (InB_lone_lower _ _ _ hvlt ?_)
    have hlf := imod_range (max (-((2 ^ (t.w - 1) : Nat) : Int)) (max lmin (ti (2 ^ (t.w - 1)) t.r))) t.w
      (by rw [hmc]; omega) (by rw [hmc]; omega)
    rw [hmc] at hlf
    exact lone_lower _ v t.r _ lmin _ hH (by rw [← hmH]; exact hvlt) (by rw [← hmH]; exact hrlt) hax (Or.inr ⟨rfl, hc⟩) hlf

end

end Claripy.VSA.Bal
