import ClaripyProofs.Lemmas.VSA.BalancerSigned
/-!
The satisfiable flag of the balancer model for SIGNED orderings and for `==` / `!=`: `_doit` reports "unsatisfiable" (the
`is_false` test on the truism or on its implicit assumption) only for a comparison no assignment satisfies.
-/
set_option linter.unusedSectionVars false
namespace Claripy.VSA.Bal
open Claripy.VSA

section
variable (anno : Nat → SI) (env : Nat → Nat) (hctx : ∀ i, (anno i).WF ∧ (anno i).mem (env i)) (hnrm : ∀ i, Nrm (anno i))
include hctx hnrm

/-- `is_false(lhs OP rhs)` (any of the eight orderings) excludes every assignment that satisfies the comparison -/
theorem truth_f_sound_ord (op : CmpOp) (a b : BV) (hoa : ExprOK anno env a) (hob : ExprOK anno env b) (hwab : wd a = wd b)
    (hord : uOrd op ∨ sOrd op) (h : truth anno (.cmp op a b) = .ok .f) : evalB env (.cmp op a b) ≠ some true := by
  intro hsat
  unfold truth at h
  have h := liftR_ok h
  obtain ⟨p, hp, h⟩ := bind_ok _ _ _ h
  have hpf := pure_ok _ _ h
  have hrest : restCmp op = false := by
    rcases hord with (h | h | h | h) | (h | h | h | h) <;> rw [h] <;> rfl
  have hal : alB anno (.cmp op a b) [] := by
    simp only [alB]
    refine ⟨alBV_of_noEq anno a [] hoa.2.2, fun p1 _ => ⟨alBV_of_noEq anno b p1.2 hob.2.2, fun hh => ?_⟩⟩
    rw [hrest] at hh; cases hh
  have hgood := convB_rest_good anno env hctx hnrm (.cmp op a b) [] p.1 p.2
    (fun hh => by rw [usesRestB_false] at hh; cases hh) hal
    (by simp only [DefB]; exact ⟨hoa.2.1, hob.2.1⟩) (by simp only [WTB]; exact ⟨hoa.1, hob.1, hwab⟩) hp true hsat
  rw [← hpf] at hgood
  simp [BoolRes.has, BoolRes.hasTrue] at hgood

/-- `is_false(lhs == rhs)` / `is_false(lhs != rhs)`: sound when the two abstract values are aligned (what the abstract
equality of C24 needs) -/
theorem truth_f_sound_eqne (op : CmpOp) (a b : BV) (hoa : ExprOK anno env a) (hob : ExprOK anno env b) (hwab : wd a = wd b)
    (hal2 : ∀ p1 p2, convBV anno a [] = .ok p1 → convBV anno b p1.2 = .ok p2 → p1.1.si.Aligned ∧ p2.1.si.Aligned)
    (h : truth anno (.cmp op a b) = .ok .f) : evalB env (.cmp op a b) ≠ some true := by
  intro hsat
  unfold truth at h
  have h := liftR_ok h
  obtain ⟨p, hp, h⟩ := bind_ok _ _ _ h
  have hpf := pure_ok _ _ h
  have hal : alB anno (.cmp op a b) [] := by
    simp only [alB]
    exact ⟨alBV_of_noEq anno a [] hoa.2.2, fun p1 h1 => ⟨alBV_of_noEq anno b p1.2 hob.2.2, fun _ p2 h2 => hal2 p1 p2 h1 h2⟩⟩
  have hgood := convB_rest_good anno env hctx hnrm (.cmp op a b) [] p.1 p.2
    (fun hh => by rw [usesRestB_false] at hh; cases hh) hal
    (by simp only [DefB]; exact ⟨hoa.2.1, hob.2.1⟩) (by simp only [WTB]; exact ⟨hoa.1, hob.1, hwab⟩) hp true hsat
  rw [← hpf] at hgood
  simp [BoolRes.has, BoolRes.hasTrue] at hgood

/-- **the satisfiable flag, signed orderings**: if the model of `_doit` answers "unsatisfiable" for `a OP b`
(`SLT`, `SLE`, `SGT`, `SGE`), no assignment (respecting the annotations) satisfies it -/
theorem doit_unsat_sound_s (op : CmpOp) (a b : BV) (hoa : ExprOK anno env a) (hob : ExprOK anno env b) (hwab : wd a = wd b)
    (hord : sOrd op) (hsym : ∀ r w, b = .const r w → symBV a = true)
    (h : doit anno (.cmp op a b) = .ok .unsat) : evalB env (.cmp op a b) ≠ some true := by
  intro hsat
  unfold doit at h
  obtain ⟨tv, htv', h⟩ := bindM_ok h
  by_cases htv : tv = .f
  · subst htv
    exact truth_f_sound_ord anno env hctx hnrm op a b hoa hob hwab (Or.inr hord) htv' hsat
  · rw [if_neg htv] at h
    obtain ⟨ca, hca, h⟩ := bindM_ok h
    obtain ⟨cb, hcb, h⟩ := bindM_ok h
    by_cases hboth : ca > 1 ∧ cb > 1
    · rw [if_pos hboth] at h; cases h
    · rw [if_neg hboth] at h
      obtain ⟨T, hT, h⟩ := bindM_ok h
      cases T with
      | lit _ => cases h
      | tru t =>
        dsimp only at h
        obtain ⟨p1, hp1, h⟩ := bindM_ok h
        obtain ⟨hokt, hordt, _, hconvt⟩ := adjust_s anno env hctx hnrm op a b ca cb t hoa hob hwab hord hsym hca hcb hT
        obtain ⟨A0, hA, a1, a2, _, _, hlo, hhi⟩ := assumption_s anno env hctx hnrm t hokt hordt hconvt
        rw [hA] at h
        dsimp only at h
        by_cases hAc : (Tr.tru A0).toB = BExp.cmp op a b
        · rw [if_pos hAc] at h; cases h
        · rw [if_neg hAc] at h
          obtain ⟨av, hav', h⟩ := bindM_ok h
          by_cases hav : av = .f
          · subst hav
            have hev : evalB env A0.toB = some true := (holds_iff_evalB env A0 a1.wd_eq).1 a2
            have hcw : ExprOK anno env (.const A0.r A0.w) := by
              have hwpos : 0 < A0.w := by rw [← a1.wd_eq]; exact wd_pos anno env (fun i => (hctx i).1) _ a1.ok.1
              exact ⟨by simp only [WTBV]; exact ⟨hwpos, a1.r_lt⟩, by simp only [DefBV], by simp only [usesEqBV]⟩
            have a3 : sOrd A0.op := by
              rcases hordt with ho | ho | ho | ho
              · rw [(hlo (Or.inr ho)).1]; exact Or.inr (Or.inr (Or.inr rfl))
              · rw [(hlo (Or.inl ho)).1]; exact Or.inr (Or.inr (Or.inr rfl))
              · rw [(hhi (Or.inr ho)).1]; exact Or.inr (Or.inl rfl)
              · rw [(hhi (Or.inl ho)).1]; exact Or.inr (Or.inl rfl)
            exact truth_f_sound_ord anno env hctx hnrm A0.op A0.lhs (.const A0.r A0.w) a1.ok hcw (by rw [a1.wd_eq]; rfl)
              (Or.inr a3) hav' hev
          · rw [if_neg hav] at h
            obtain ⟨_, _, h⟩ := bindM_ok h
            obtain ⟨p2, _, h⟩ := bindM_ok h
            cases h

omit hctx hnrm in
theorem mkCmpT_op (op : CmpOp) (l : BV) (r w : Nat) (t : Tru) (h : mkCmpT op l r w = .tru t) : t.op = op := by
  unfold mkCmpT at h
  split at h
  · cases h
  · cases h; rfl

/-- **the satisfiable flag, `==` / `!=`**: "unsatisfiable" comes from the `is_false` test on the constraint only (these
have no implicit assumption); sound when the abstract values of the two sides are aligned -/
theorem doit_unsat_sound_eqne (op : CmpOp) (a b : BV) (hoa : ExprOK anno env a) (hob : ExprOK anno env b) (hwab : wd a = wd b)
    (hop : op = .eq ∨ op = .ne)
    (hal2 : ∀ p1 p2, convBV anno a [] = .ok p1 → convBV anno b p1.2 = .ok p2 → p1.1.si.Aligned ∧ p2.1.si.Aligned)
    (h : doit anno (.cmp op a b) = .ok .unsat) : evalB env (.cmp op a b) ≠ some true := by
  intro hsat
  unfold doit at h
  obtain ⟨tv, htv', h⟩ := bindM_ok h
  by_cases htv : tv = .f
  · subst htv
    exact truth_f_sound_eqne anno env hctx hnrm op a b hoa hob hwab hal2 htv' hsat
  · rw [if_neg htv] at h
    obtain ⟨ca, hca, h⟩ := bindM_ok h
    obtain ⟨cb, hcb, h⟩ := bindM_ok h
    by_cases hboth : ca > 1 ∧ cb > 1
    · rw [if_pos hboth] at h; cases h
    · rw [if_neg hboth] at h
      obtain ⟨T, hT, h⟩ := bindM_ok h
      cases T with
      | lit _ => cases h
      | tru t =>
        dsimp only at h
        obtain ⟨p1, hp1, h⟩ := bindM_ok h
        have hto : t.op = .eq ∨ t.op = .ne := by
          unfold adjust at hT
          by_cases hrev : ca = 1 ∧ cb > 1
          · rw [if_pos hrev] at hT
            cases a with
            | const r w =>
              have hTT := pureM_ok hT
              have : mkCmp (opposite op) b r w = mkCmpT (opposite op) b r w := by
                rcases hop with h | h <;> rw [h] <;> rfl
              rw [this] at hTT
              have := mkCmpT_op _ _ _ _ _ hTT.symm
              rw [this]
              rcases hop with h | h <;> rw [h] <;> simp [opposite]
            | _ => cases hT
          · rw [if_neg hrev] at hT
            cases b with
            | const r w => have hTT := pureM_ok hT; cases hTT; exact hop
            | _ => cases hT
        have hA : assumption t = none := by
          unfold assumption
          rcases hto with h | h <;> rw [h]
        rw [hA] at h
        cases h

end

end Claripy.VSA.Bal
