import ClaripyProofs.Lemmas.VSA.Basic
/-! Elementary facts about `|||` on naturals, split into the part above bit `k` (`z / 2^k`) and the part below
(`z % 2^k`).  Used by the Warren bounds (`Warren.lean`) and the bitwise transfer functions. -/
namespace Claripy.VSA

theorem or_div_pow (x y k : Nat) : (x ||| y) / 2 ^ k = x / 2 ^ k ||| y / 2 ^ k := by
  rw [← Nat.shiftRight_eq_div_pow, ← Nat.shiftRight_eq_div_pow, ← Nat.shiftRight_eq_div_pow]
  exact Nat.shiftRight_or_distrib

theorem div_succ_pow (z k : Nat) : z / 2 ^ (k + 1) = z / 2 ^ k / 2 := by
  rw [Nat.div_div_eq_div_mul, Nat.pow_succ]

theorem testBit_iff (z k : Nat) : z.testBit k = true ↔ z / 2 ^ k % 2 = 1 := by
  rw [Nat.testBit_eq_decide_div_mod_eq]; simp

theorem testBit_false_iff (z k : Nat) : z.testBit k = false ↔ z / 2 ^ k % 2 = 0 := by
  rw [Nat.testBit_eq_decide_div_mod_eq]
  have := Nat.mod_two_eq_zero_or_one (z / 2 ^ k)
  constructor
  · intro h; simp at h; omega
  · intro h; simp [h]

theorem le_of_div_eq (P R Z : Nat) (h1 : R / P = Z / P) (h2 : R % P ≤ Z % P) : R ≤ Z := by
  have e1 := Nat.div_add_mod R P
  have e2 := Nat.div_add_mod Z P
  rw [h1] at e1
  omega

theorem lt_of_div_lt (P R Z : Nat) (h : R / P < Z / P) : R < Z := Nat.lt_of_div_lt_div h

theorem le_of_div_le_mod_max (P R Z : Nat) (hP : 0 < P) (h1 : R / P ≤ Z / P) (h2 : Z % P = P - 1) : R ≤ Z := by
  rcases Nat.lt_or_ge (R / P) (Z / P) with h | h
  · exact Nat.le_of_lt (lt_of_div_lt P R Z h)
  · apply le_of_div_eq P R Z (by omega)
    have := Nat.mod_lt R hP
    omega

theorem mod_le_of_div_eq (P c y : Nat) (h1 : c ≤ y) (h2 : c / P = y / P) : c % P ≤ y % P := by
  have e1 := Nat.div_add_mod c P
  have e2 := Nat.div_add_mod y P
  rw [h2] at e1
  omega

theorem or_mod_two (u v : Nat) : (u ||| v) % 2 = if u % 2 = 1 ∨ v % 2 = 1 then 1 else 0 := by
  have h := @Nat.or_mod_two_pow u v 1
  simp only [Nat.pow_one] at h
  rw [h]
  rcases Nat.mod_two_eq_zero_or_one u with hu | hu <;> rcases Nat.mod_two_eq_zero_or_one v with hv | hv <;>
    simp [hu, hv]

theorem or_eq_half (u v : Nat) : u ||| v = 2 * (u / 2 ||| v / 2) + (if u % 2 = 1 ∨ v % 2 = 1 then 1 else 0) := by
  have := Nat.div_add_mod (u ||| v) 2
  rw [Nat.or_div_two, or_mod_two] at this
  exact this.symm

theorem or_one_even (u : Nat) (h : u % 2 = 0) : u ||| 1 = u + 1 := by
  rw [or_eq_half]
  simp [h]
  omega

theorem or_zero_right (u : Nat) : u ||| 0 = u := Nat.or_zero u

/-- anything below `2^k` or-ed with `2^k - 1` is `2^k - 1` -/
theorem or_ones (v k : Nat) (hv : v < 2 ^ k) : v ||| (2 ^ k - 1) = 2 ^ k - 1 := by
  apply Nat.eq_of_testBit_eq
  intro i
  rw [Nat.testBit_or, Nat.testBit_two_pow_sub_one]
  by_cases hi : i < k
  · simp [hi]
  · have : v < 2 ^ i := Nat.lt_of_lt_of_le hv (Nat.pow_le_pow_right (by omega) (by omega))
    simp [hi, Nat.testBit_lt_two_pow this]

/-- `z` from its two parts -/
theorem split_at (z k : Nat) : z = 2 ^ k * (z / 2 ^ k) + z % 2 ^ k := (Nat.div_add_mod z (2 ^ k)).symm

/-- a multiple of `2^k` or-ed with something below `2^k` is their sum -/
theorem mul_or_low (h l k : Nat) (hl : l < 2 ^ k) : h * 2 ^ k ||| l = h * 2 ^ k + l := by
  rw [← Nat.shiftLeft_eq]
  exact (Nat.shiftLeft_add_eq_or_of_lt hl h).symm

end Claripy.VSA
