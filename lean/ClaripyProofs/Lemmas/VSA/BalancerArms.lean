import ClaripyProofs.Lemmas.VSA.BalancerSteps
import ClaripyProofs.Lemmas.VSA.EvalExact
/-!
The arms of `_balance` (model `balStep`) and `_align_truism` (model `alignTru`) against the concrete meaning.
-/
set_option linter.unusedSectionVars false
namespace Claripy.VSA.Bal
open Claripy.VSA

/-- a node of cardinality above one is symbolic (the concrete backend answers 1) -/
theorem card_gt_one_sym (anno : Nat → SI) (e : BV) (c : Nat) (h : cardNE anno e = .ok c) (hc : 1 < c) : symBV e = true := by
  unfold cardNE at h
  obtain ⟨c', hc', h⟩ := bindM_ok h
  by_cases h0 : c' = 0
  · rw [if_pos h0] at h; cases h
  · rw [if_neg h0] at h
    have := pureM_ok h
    subst this
    unfold card at hc'
    by_cases hs : symBV e = true
    · exact hs
    · rw [if_neg hs] at hc'
      have := pureM_ok hc'
      omega

theorem evalBV_bin (env : Nat → Nat) (op : BinOp) (a b : BV) (x y : Nat) (ha : evalBV env a = some x) (hb : evalBV env b = some y) :
    evalBV env (.bin op a b) = concBin op (wd a) x y := by
  simp [evalBV, ha, hb]

section
variable (anno : Nat → SI) (env : Nat → Nat) (hctx : ∀ i, (anno i).WF ∧ (anno i).mem (env i)) (hnrm : ∀ i, Nrm (anno i))

/-- `_align_bv` / `_align_sub` keep the value, the width and the typing of the left side -/
theorem alignBV_spec (e l' : BV) (hok : ExprOK anno env e) (hs : symBV e = true) (h : alignBV anno e = .ok l') :
    evalBV env l' = evalBV env e ∧ ExprOK anno env l' ∧ wd l' = wd e ∧ symBV l' = true := by
  unfold alignBV at h
  split at h
  · -- sub
    rename_i a b
    obtain ⟨ca, hca, h⟩ := bindM_ok h
    obtain ⟨cb, hcb, h⟩ := bindM_ok h
    by_cases hle : cb ≤ ca
    · rw [if_pos hle] at h
      have := pureM_ok h; subst this
      exact ⟨rfl, hok, rfl, hs⟩
    · rw [if_neg hle] at h
      have hca1 : 1 ≤ ca := by
        unfold cardNE at hca
        obtain ⟨c', _, hh⟩ := bindM_ok hca
        by_cases h0 : c' = 0
        · rw [if_pos h0] at hh; cases hh
        · rw [if_neg h0] at hh; have := pureM_ok hh; omega
      have hsb : symBV b = true := card_gt_one_sym anno b cb hcb (by omega)
      have hnb : foldBV (.neg b) = .neg b := foldBV_sym _ (by simpa [symBV] using hsb)
      rw [hnb] at h
      obtain ⟨cnb, _, h⟩ := bindM_ok h
      obtain ⟨ca', _, h⟩ := bindM_ok h
      have hres := pureM_ok h
      obtain ⟨hoa, hob, hwab⟩ := ok_bin hok
      obtain ⟨x, hx⟩ := exprOK_val anno env a hoa
      obtain ⟨y, hy⟩ := exprOK_val anno env b hob
      have hneg : evalBV env (.neg b) = some (Conc.neg (wd b) y) := by simp [evalBV, hy]
      have hokn : ExprOK anno env (.neg b) := by
        obtain ⟨p, q, r⟩ := hob
        exact ⟨by simpa [WTBV] using p, by simpa [DefBV] using q, by simpa [usesEqBV] using r⟩
      have hval : evalBV env (.bin .sub a b) = some (Conc.sub (wd a) x y) := by
        rw [evalBV_bin env .sub a b x y hx hy]; rfl
      have h1 : ExprOK anno env (.bin .add a (.neg b)) ∧ evalBV env (.bin .add a (.neg b)) = evalBV env (.bin .sub a b) := by
        have hv : evalBV env (.bin .add a (.neg b)) = some (Conc.sub (wd a) x y) := by
          rw [evalBV_bin env .add a (.neg b) x _ hx hneg]
          simp only [concBin]
          rw [sub_as_neg_add, add_comm', hwab]
        refine ⟨⟨?_, ?_, ?_⟩, by rw [hv, hval]⟩
        · simp only [WTBV]; exact ⟨hoa.1, hokn.1, by simpa [wd] using hwab⟩
        · simp only [DefBV]; exact ⟨hoa.2.1, hokn.2.1, _, hv⟩
        · have := hokn.2.2; simp only [usesEqBV] at this; simp [usesEqBV, hoa.2.2, this]
      have h2 : ExprOK anno env (.bin .add (.neg b) a) ∧ evalBV env (.bin .add (.neg b) a) = evalBV env (.bin .sub a b) := by
        have hv : evalBV env (.bin .add (.neg b) a) = some (Conc.sub (wd a) x y) := by
          rw [evalBV_bin env .add (.neg b) a _ x hneg hx]
          simp only [concBin, wd]
          rw [sub_as_neg_add, hwab]
        refine ⟨⟨?_, ?_, ?_⟩, by rw [hv, hval]⟩
        · simp only [WTBV]; exact ⟨hokn.1, hoa.1, by simpa [wd] using hwab.symm⟩
        · simp only [DefBV]; exact ⟨hokn.2.1, hoa.2.1, _, hv⟩
        · have := hokn.2.2; simp only [usesEqBV] at this; simp [usesEqBV, hoa.2.2, this]
      have hs1 : symBV (.bin .add a (.neg b)) = true := by simp [symBV, hsb]
      have hs2 : symBV (.bin .add (.neg b) a) = true := by simp [symBV, hsb]
      by_cases hgt : ca' > cnb
      · rw [if_pos hgt, foldBV_sym _ hs1] at hres
        subst hres
        exact ⟨h1.2, h1.1, by simp [wd], hs1⟩
      · rw [if_neg hgt, foldBV_sym _ hs2] at hres
        subst hres
        exact ⟨h2.2, h2.1, by simp [wd, hwab], hs2⟩
  · -- other binary operations
    rename_i op a b hne
    by_cases hc : isCommutative op = true
    · rw [if_pos hc] at h
      obtain ⟨ca, _, h⟩ := bindM_ok h
      obtain ⟨cb, _, h⟩ := bindM_ok h
      have hres := pureM_ok h
      by_cases hgt : cb > ca
      · rw [if_pos hgt] at hres
        have hsw : symBV (.bin op b a) = true := by
          simp only [symBV] at hs ⊢; rw [Bool.or_comm]; exact hs
        rw [foldBV_sym _ hsw] at hres
        subst hres
        obtain ⟨hoa, hob, hwab⟩ := ok_bin hok
        obtain ⟨x, hx⟩ := exprOK_val anno env a hoa
        obtain ⟨y, hy⟩ := exprOK_val anno env b hob
        have hcomm : concBin op (wd b) y x = concBin op (wd a) x y := by
          have hm : op ≠ .mul := by
            intro he; subst he
            have := hok.2.2; simp [usesEqBV] at this
          cases op <;> simp_all [concBin, isCommutative, Conc.add, Conc.and, Conc.or, Conc.xor, Nat.add_comm, Nat.and_comm,
            Nat.or_comm, Nat.xor_comm]
        have hv : evalBV env (.bin op b a) = evalBV env (.bin op a b) := by
          rw [evalBV_bin env op b a y x hy hx, evalBV_bin env op a b x y hx hy, hcomm]
        refine ⟨hv, ⟨?_, ?_, ?_⟩, by simp [wd, hwab], hsw⟩
        · simp only [WTBV]; exact ⟨hob.1, hoa.1, hwab.symm⟩
        · simp only [DefBV]
          obtain ⟨v, hvv⟩ := exprOK_val anno env _ hok
          exact ⟨hob.2.1, hoa.2.1, v, by rw [hv]; exact hvv⟩
        · have := hok.2.2
          simp only [usesEqBV, Bool.or_eq_false_iff] at this ⊢
          exact ⟨⟨this.1.1, this.2⟩, this.1.2⟩
      · rw [if_neg hgt] at hres
        subst hres
        exact ⟨rfl, hok, rfl, hs⟩
    · rw [if_neg hc] at h
      have := pureM_ok h; subst this
      exact ⟨rfl, hok, rfl, hs⟩
  · have := pureM_ok h; subst this
    exact ⟨rfl, hok, rfl, hs⟩

/-- `_align_truism` keeps the operator, the other side, and the value and typing of the left side -/
theorem alignTru_spec (t ta : Tru) (hok : TruOK anno env t) (h : alignTru anno t = .ok ta) :
    ta.op = t.op ∧ ta.r = t.r ∧ ta.w = t.w ∧ evalBV env ta.lhs = evalBV env t.lhs ∧ TruOK anno env ta ∧
      (∃ p, convBV anno ta.lhs [] = .ok p) := by
  unfold alignTru at h
  obtain ⟨c0, hc0, h⟩ := bindM_ok h
  obtain ⟨l', hl', h⟩ := bindM_ok h
  obtain ⟨b', hb', h⟩ := bindM_ok h
  obtain ⟨b, hb, h⟩ := bindM_ok h
  have hres := pureM_ok h
  obtain ⟨hev, hok', hwd, hsym⟩ := alignBV_spec anno env t.lhs l' hok.ok hok.sym hl'
  -- both truth values were computed, so both left sides convert
  have conv_of_truth : ∀ (u : Tru) (br : BoolRes), truth anno u.toB = .ok br → ∃ p, convBV anno u.lhs [] = .ok p := by
    intro u br hu
    unfold truth Tru.toB at hu
    have hu := liftR_ok hu
    obtain ⟨p, hp, _⟩ := bind_ok _ _ _ hu
    simp only [convB] at hp
    obtain ⟨p1, h1, _⟩ := bind_ok _ _ _ hp
    exact ⟨p1, h1⟩
  by_cases hbb : b' = b
  · rw [if_pos hbb] at hres
    subst hres
    refine ⟨rfl, rfl, rfl, hev, ⟨hok', hsym, ?_, hok.r_lt⟩, conv_of_truth _ _ hb'⟩
    simp only; rw [hwd]; exact hok.wd_eq
  · rw [if_neg hbb] at hres
    subst hres
    exact ⟨rfl, rfl, rfl, rfl, hok, conv_of_truth _ _ hb⟩

end


/-! ### successful conversion of a node gives successful conversion of the operand the arm keeps -/
theorem conv_zext_inner (anno : Nat → SI) (k : Nat) (a : BV) (o : Orders) (p : AV × Orders)
    (h : convBV anno (.zext k a) o = .ok p) : ∃ q, convBV anno a o = .ok q := by
  simp only [convBV] at h
  obtain ⟨q, hq, _⟩ := bind_ok _ _ _ h
  exact ⟨q, hq⟩
theorem conv_extract_inner (anno : Nat → SI) (hi lo : Nat) (a : BV) (o : Orders) (p : AV × Orders)
    (h : convBV anno (.extract hi lo a) o = .ok p) : ∃ q, convBV anno a o = .ok q := by
  simp only [convBV] at h
  obtain ⟨q, hq, _⟩ := bind_ok _ _ _ h
  exact ⟨q, hq⟩
theorem conv_bin_left (anno : Nat → SI) (op : BinOp) (a b : BV) (o : Orders) (p : AV × Orders)
    (h : convBV anno (.bin op a b) o = .ok p) : ∃ q, convBV anno a o = .ok q := by
  simp only [convBV] at h
  obtain ⟨q, hq, _⟩ := bind_ok _ _ _ h
  exact ⟨q, hq⟩
theorem conv_bin_right (anno : Nat → SI) (op : BinOp) (a b : BV) (o : Orders) (p : AV × Orders)
    (h : convBV anno (.bin op a b) o = .ok p) : ∃ o' q, convBV anno b o' = .ok q := by
  simp only [convBV] at h
  obtain ⟨q, _, h⟩ := bind_ok _ _ _ h
  obtain ⟨q', hq', _⟩ := bind_ok _ _ _ h
  exact ⟨_, q', hq'⟩

theorem high_zero' (w k r : Nat) (hk : k ≤ w) (hr : r < 2 ^ w) (h : Conc.extract (w - 1) (w - k) r = 0) : r < 2 ^ (w - k) := by
  by_cases hk0 : k = 0
  · subst hk0; simpa using hr
  · exact high_zero w k r hk (by omega) hr h

section
variable (anno : Nat → SI) (env : Nat → Nat) (hctx : ∀ i, (anno i).WF ∧ (anno i).mem (env i)) (hnrm : ∀ i, Nrm (anno i))
include hctx hnrm

/-- `_balance_zeroext` -/
theorem balZext_pt (t : Tru) (k : Nat) (e : BV) (hl : t.lhs = .zext k e) (hok : TruOK anno env t) (hop : unsOp t.op = true)
    (hh : t.holds env) (hs : symBV (balZext t k e).lhs = true) :
    TruOK anno env (balZext t k e) ∧ (balZext t k e).holds env := by
  unfold balZext at hs ⊢
  by_cases hg : Conc.extract (t.w - 1) (t.w - k) t.r = 0
  · rw [if_pos hg] at hs ⊢
    have hoe : ExprOK anno env e := ok_zext (hl ▸ hok.ok)
    have hw : t.w = k + wd e := by rw [← hok.wd_eq, hl]; rfl
    have hpos : 0 < wd e := wd_pos anno env (fun i => (hctx i).1) e hoe.1
    have hwk : t.w - k = wd e := by omega
    have hr := high_zero' t.w k t.r (by omega) hok.r_lt hg
    have hr' : Conc.extract (t.w - k - 1) 0 t.r = t.r := low_id (t.w - k) t.r (by omega) hr
    refine ⟨⟨hoe, hs, hwk.symm, ?_⟩, ?_⟩
    · simp only; rw [hr']; exact hr
    · obtain ⟨v, hv, hc⟩ := hh
      rw [hl] at hv
      simp only [evalBV] at hv
      refine ⟨v, hv, ?_⟩
      simp only; rw [hr', concCmp_uns t.op _ t.w v t.r hop]; exact hc
  · rw [if_neg hg] at hs ⊢
    exact ⟨hok, hh⟩

/-- `_balance_concat` -/
theorem balConcat_pt (t t' : Tru) (a b : BV) (hl : t.lhs = .concat a b) (hok : TruOK anno env t) (hop : unsOp t.op = true)
    (hh : t.holds env) (h : balConcat anno t a b = .ok t') (hs : symBV t'.lhs = true) :
    TruOK anno env t' ∧ t'.holds env := by
  unfold balConcat at h
  obtain ⟨z, hz, h⟩ := bindM_ok h
  have hres := pureM_ok h
  by_cases hg : (z && decide (Conc.extract (wd t.lhs - 1) (wd t.lhs - wd a) t.r = 0)) = true
  · rw [if_pos hg] at hres
    subst hres
    simp only [Bool.and_eq_true, decide_eq_true_eq] at hg
    obtain ⟨hz1, hg⟩ := hg
    subst hz1
    obtain ⟨hoa, hob⟩ := ok_concat (hl ▸ hok.ok)
    have hw : wd t.lhs = wd a + wd b := by rw [hl]; rfl
    have hpb : 0 < wd b := wd_pos anno env (fun i => (hctx i).1) b hob.1
    have hwk : wd t.lhs - wd a = wd b := by omega
    have hrlt : t.r < 2 ^ wd t.lhs := by rw [hok.wd_eq]; exact hok.r_lt
    have hr := high_zero' (wd t.lhs) (wd a) t.r (by omega) hrlt hg
    have hr' : Conc.extract (wd t.lhs - wd a - 1) 0 t.r = t.r := low_id _ t.r (by omega) hr
    refine ⟨⟨hob, hs, hwk.symm, ?_⟩, ?_⟩
    · simp only; rw [hr']; exact hr
    · obtain ⟨v, hv, hc⟩ := hh
      rw [hl] at hv
      simp only [evalBV] at hv
      obtain ⟨x, hx⟩ := exprOK_val anno env a hoa
      obtain ⟨y, hy⟩ := exprOK_val anno env b hob
      rw [hx, hy] at hv
      simp only [Option.bind_eq_bind, Option.bind_some, Option.some.injEq] at hv
      have hx0 := isZero_sound anno env hctx hnrm a hoa hz x hx
      subst hx0
      have hvy : v = y := by rw [← hv]; simp [Conc.concat]
      subst hvy
      refine ⟨v, hy, ?_⟩
      simp only; rw [hr', concCmp_uns t.op _ t.w v t.r hop]; exact hc
  · rw [if_neg hg] at hres
    subst hres
    exact ⟨hok, hh⟩


theorem optZero_true (c : Bool) (e : BV) (o : Option Bool) (h : optZero anno c e = .ok o) (ho : o = some true) :
    c = true ∧ isZero anno e = .ok true := by
  unfold optZero at h
  cases c with
  | false => simp only [Bool.false_eq_true, if_false] at h; have := pureM_ok h; subst this; cases ho
  | true =>
    simp only [if_true] at h
    obtain ⟨z, hz, h⟩ := bindM_ok h
    have := pureM_ok h; subst this
    cases ho
    exact ⟨rfl, hz⟩

/-- `_balance_extract` -/
theorem balExtract_pt (t t' : Tru) (hi lo : Nat) (e : BV) (hl : t.lhs = .extract hi lo e) (hok : TruOK anno env t)
    (hop : unsOp t.op = true) (hconv : ∃ p, convBV anno t.lhs [] = .ok p)
    (hh : t.holds env) (h : balExtract anno t hi lo e = .ok t') (hs : symBV t'.lhs = true) :
    TruOK anno env t' ∧ t'.holds env := by
  obtain ⟨hoe, hlohi, hhi⟩ := ok_extract (hl ▸ hok.ok)
  have hse : symBV e = true := by have := hok.sym; rw [hl] at this; simpa [symBV] using this
  obtain ⟨p, hp⟩ := hconv
  rw [hl] at hp
  obtain ⟨q, hq⟩ := conv_extract_inner anno hi lo e [] p hp
  obtain ⟨ve, hve⟩ := exprOK_val anno env e hoe
  obtain ⟨_, _, _, hvelt, _⟩ := conv_val anno env hctx hnrm e hoe [] q hq ve hve
  have hw : t.w = hi + 1 - lo := by rw [← hok.wd_eq, hl]; rfl
  obtain ⟨v, hv, hc⟩ := hh
  have hvv : v = Conc.extract hi lo ve := by
    rw [hl] at hv; simp only [evalBV, hve, Option.bind_eq_bind, Option.bind_some, Option.some.injEq] at hv; exact hv.symm
  subst hvv
  have hrlt : t.r < 2 ^ (hi + 1 - lo) := by rw [← hw]; exact hok.r_lt
  unfold balExtract at h
  obtain ⟨msbZ, hm, h⟩ := bindM_ok h
  obtain ⟨lsbZ, hls, h⟩ := bindM_ok h
  have fm : foldBV (.extract (wd e - 1) (hi + 1) e) = .extract (wd e - 1) (hi + 1) e := foldBV_sym _ (by simpa [symBV] using hse)
  have fl : foldBV (.extract (lo - 1) 0 e) = .extract (lo - 1) 0 e := foldBV_sym _ (by simpa [symBV] using hse)
  rw [fm] at hm
  rw [fl] at hls
  -- what the two guards say about the value
  have msb_fact : msbZ = some true → ve < 2 ^ (hi + 1) := by
    intro hmz
    obtain ⟨hcnd, hz⟩ := optZero_true anno env hctx hnrm _ _ _ hm hmz
    have hcnd : hi < wd e - 1 := by simpa using hcnd
    have hok' : ExprOK anno env (.extract (wd e - 1) (hi + 1) e) := ok_mk_extract hoe (by omega) (by omega)
    have := isZero_sound anno env hctx hnrm _ hok' hz (Conc.extract (wd e - 1) (hi + 1) ve) (by simp [evalBV, hve])
    exact ext_high_zero (wd e) hi ve hcnd hvelt this
  have lsb_fact : lsbZ = some true → ve = ve / 2 ^ lo * 2 ^ lo := by
    intro hlz
    obtain ⟨hcnd, hz⟩ := optZero_true anno env hctx hnrm _ _ _ hls hlz
    have hcnd : 0 < lo := by simpa using hcnd
    have hok' : ExprOK anno env (.extract (lo - 1) 0 e) := ok_mk_extract hoe (by omega) (by omega)
    have := isZero_sound anno env hctx hnrm _ hok' hz (Conc.extract (lo - 1) 0 ve) (by simp [evalBV, hve])
    exact ext_low_zero lo ve hcnd this
  have mk : ∀ r', r' < 2 ^ wd e → concCmp t.op (wd e) ve r' = true →
      TruOK anno env ⟨t.op, e, r', wd e⟩ ∧ Tru.holds env ⟨t.op, e, r', wd e⟩ :=
    fun r' h1 h2 => ⟨⟨hoe, hse, rfl, h1⟩, ve, hve, h2⟩
  by_cases c1 : msbZ = some true ∧ lsbZ = some true ∧ isSigned t.op = false
  · rw [if_pos c1] at h
    have := pureM_ok h; subst this
    apply mk
    · exact scale_lt hi lo t.r (wd e) hlohi hhi hrlt
    · rw [← extract_scale t.op t.w (wd e) hi lo ve t.r hop hlohi (msb_fact c1.1) (lsb_fact c1.2.1)]; exact hc
  · rw [if_neg c1] at h
    by_cases c2 : msbZ = some true ∧ lo = 0 ∧ isSigned t.op = false
    · rw [if_pos c2] at h
      have := pureM_ok h; subst this
      obtain ⟨c2a, c2b, _⟩ := c2
      subst c2b
      apply mk
      · exact Nat.lt_of_lt_of_le hrlt (Nat.pow_le_pow_right (by omega) (by omega))
      · have := extract_scale t.op t.w (wd e) hi 0 ve t.r hop (by omega) (msb_fact c2a) (by simp)
        rw [Nat.pow_zero, Nat.mul_one] at this
        rw [← this]; exact hc
    · rw [if_neg c2] at h
      by_cases c3 : lsbZ = some true ∧ hi = wd e - 1
      · rw [if_pos c3] at h
        have := pureM_ok h; subst this
        have hve' : ve < 2 ^ (hi + 1) := by
          have : hi + 1 = wd e := by omega
          rw [this]; exact hvelt
        apply mk
        · exact scale_lt hi lo t.r (wd e) hlohi hhi hrlt
        · rw [← extract_scale t.op t.w (wd e) hi lo ve t.r hop hlohi hve' (lsb_fact c3.1)]; exact hc
      · rw [if_neg c3] at h
        by_cases c4 : lo = 0 ∧ (t.op = .uge ∨ t.op = .ugt ∨ t.op = .ne)
        · rw [if_pos c4] at h
          have := pureM_ok h; subst this
          obtain ⟨c4a, c4b⟩ := c4
          subst c4a
          apply mk
          · exact Nat.lt_of_lt_of_le hrlt (Nat.pow_le_pow_right (by omega) (by omega))
          · exact extract_low_pre t.op t.w (wd e) hi ve t.r c4b (by simpa using hrlt) hc
        · rw [if_neg c4] at h
          have := pureM_ok h; subst this
          exact ⟨hok, _, hv, hc⟩

omit hctx hnrm in
/-- the three outcomes of `_balance_and` -/
theorem balAnd_cases (t : Tru) (a b : BV) :
    balAnd t a b = t ∨ symBV (balAnd t a b).lhs = false ∨
      ∃ v wv n k e', b = .const v wv ∧ lowOnes (v + 1) v 0 = some n ∧ a = .zext k e' ∧ k + n = wd a ∧
        balAnd t a b = { t with lhs := a } := by
  unfold balAnd
  split
  · rename_i v wv
    split
    · exact Or.inl rfl
    · rename_i n hlo
      by_cases hn : n = 0
      · rw [if_pos hn]; exact Or.inr (Or.inl (by simp [symBV]))
      · rw [if_neg hn]
        split
        · rename_i k e'
          by_cases hkn : k + n = wd (BV.zext k e')
          · rw [if_pos hkn]
            exact Or.inr (Or.inr ⟨v, wv, n, k, e', rfl, hlo, rfl, hkn, rfl⟩)
          · rw [if_neg hkn]; exact Or.inl rfl
        · exact Or.inl rfl
  · exact Or.inl rfl

/-- `_balance_and` -/
theorem balAnd_pt (t : Tru) (a b : BV) (hl : t.lhs = .bin .and a b) (hok : TruOK anno env t)
    (hconv : ∃ p, convBV anno t.lhs [] = .ok p) (hh : t.holds env) (hs : symBV (balAnd t a b).lhs = true) :
    TruOK anno env (balAnd t a b) ∧ (balAnd t a b).holds env := by
  rcases balAnd_cases t a b with h | h | ⟨v, wv, n, k, e', hb, hlo, ha, hkn, h⟩
  · rw [h]; exact ⟨hok, hh⟩
  · rw [h] at hs; cases hs
  · rw [h] at hs ⊢
    subst hb; subst ha
    obtain ⟨hoa, hob, hwab⟩ := ok_bin (hl ▸ hok.ok)
    obtain ⟨p, hp⟩ := hconv
    rw [hl] at hp
    obtain ⟨q, hq⟩ := conv_bin_left anno _ _ _ [] p hp
    obtain ⟨q', hq'⟩ := conv_zext_inner anno k e' [] q hq
    have hoe' : ExprOK anno env e' := ok_zext hoa
    obtain ⟨x, hx⟩ := exprOK_val anno env e' hoe'
    obtain ⟨_, _, _, hxlt, _⟩ := conv_val anno env hctx hnrm e' hoe' [] q' hq' x hx
    have hwe : wd e' = n := by simp only [wd] at hkn; omega
    obtain ⟨_, hvn⟩ := lowOnes_spec (v + 1) v 0 n (by omega) hlo
    simp only [Nat.sub_zero] at hvn
    refine ⟨⟨hoa, hs, ?_, hok.r_lt⟩, ?_⟩
    · simp only; rw [← hok.wd_eq, hl]; rfl
    · obtain ⟨u, hu, hc⟩ := hh
      rw [hl] at hu
      have hza : evalBV env (BV.zext k e') = some x := by simp [evalBV, hx]
      have hcb : evalBV env (BV.const v wv) = some v := by simp [evalBV]
      rw [evalBV_bin env .and _ _ x v hza hcb] at hu
      simp only [concBin, Option.some.injEq] at hu
      have : u = x := by
        rw [← hu, hvn]
        have := and_low_mask x n (by rw [← hwe]; exact hxlt)
        unfold Conc.and at this ⊢
        exact this
      subst this
      exact ⟨u, hza, hc⟩

omit hctx hnrm in
/-- `eval(2)` answers a single value: every member is that value -/
theorem eval_single (s : SI) (v : Int) (hs : s.WF) (h : s.eval 2 false = .ok [v]) (x : Nat) (hx : s.mem x) : (x : Int) = v := by
  have hnb : s.bottom = false := hx.1
  have he := eval_exact s 2 [v] hs hnb h
  have hxm : x ∈ s.members := (mem_members s hs x).2 hx
  have hlen : s.members.length ≤ 1 := by
    have := congrArg List.length he
    simp only [List.length_cons, List.length_nil, List.length_map, List.length_take] at this
    omega
  rw [List.take_of_length_le (by omega)] at he
  have : (x : Int) ∈ s.members.map (fun (v : Nat) => (v : Int)) := List.mem_map.2 ⟨x, hxm, rfl⟩
  rw [← he] at this
  simpa using this

/-- `_balance_lshift` -/
theorem balShl_pt (t t' : Tru) (e amt : BV) (hl : t.lhs = .bin .shl e amt) (hok : TruOK anno env t)
    (hop : unsOp t.op = true) (hconv : ∃ p, convBV anno t.lhs [] = .ok p)
    (hh : t.holds env) (h : balShl anno t e amt = .ok t') (hs : symBV t'.lhs = true) :
    TruOK anno env t' ∧ t'.holds env := by
  obtain ⟨hoe, hoa, hwea⟩ := ok_bin (hl ▸ hok.ok)
  obtain ⟨p, hp⟩ := hconv
  rw [hl] at hp
  obtain ⟨q, hq⟩ := conv_bin_left anno _ _ _ [] p hp
  obtain ⟨ve, hve⟩ := exprOK_val anno env e hoe
  obtain ⟨va, hva⟩ := exprOK_val anno env amt hoa
  obtain ⟨_, _, _, hvelt, hwpos⟩ := conv_val anno env hctx hnrm e hoe [] q hq ve hve
  have hw : t.w = wd e := by rw [← hok.wd_eq, hl]; rfl
  obtain ⟨v, hv, hc⟩ := hh
  have hvv : v = Conc.shl (wd e) ve va := by
    rw [hl, evalBV_bin env .shl e amt ve va hve hva] at hv
    simp only [concBin, Option.some.injEq] at hv; exact hv.symm
  subst hvv
  unfold balShl at h
  obtain ⟨vals, hvals, h⟩ := bindM_ok h
  have hvals := liftR_ok hvals
  obtain ⟨pa, hpa, hev⟩ := bind_ok _ _ _ hvals
  obtain ⟨hawf, _, hamem, _, _⟩ := conv_val anno env hctx hnrm amt hoa [] pa hpa va hva
  rcases vals with _ | ⟨n0, _ | ⟨n1, rest⟩⟩
  · have := pureM_ok h; subst this
    exact ⟨hok, _, hv, hc⟩
  · dsimp only at h
    have hva' : (va : Int) = n0 := eval_single pa.1.si n0 hawf hev va hamem
    have hn : n0.toNat = va := by omega
    rw [hn] at h
    by_cases h0 : va = 0
    · rw [if_pos h0] at h
      have := pureM_ok h; subst this
      simp only at hs
      subst h0
      refine ⟨⟨hoe, hs, hw.symm, hok.r_lt⟩, ve, hve, ?_⟩
      have : Conc.shl (wd e) ve 0 = ve := by
        rw [shl_val _ _ _ hwpos]; simp [Nat.mod_eq_of_lt hvelt]
      rw [this] at hc; exact hc
    · rw [if_neg h0] at h
      by_cases h1 : va ≥ wd e ∨ isSigned t.op = true
      · rw [if_pos h1] at h
        have := pureM_ok h; subst this
        exact ⟨hok, _, hv, hc⟩
      · rw [if_neg h1] at h
        have hnw : va < wd e := by omega
        obtain ⟨ok, hokk, h⟩ := bindM_ok h
        by_cases hok0 : ok = false
        · subst hok0
          simp only [Bool.not_false, if_true] at h
          have := pureM_ok h; subst this
          exact ⟨hok, _, hv, hc⟩
        · have hokt : ok = true := by simpa using hok0
          subst hokt
          simp only [Bool.not_true, Bool.false_eq_true, if_false] at h
          by_cases hlow : Conc.extract (va - 1) 0 t.r = 0
          · rw [if_pos hlow] at h
            have := pureM_ok h; subst this
            simp only at hs
            have hrm := low_zero_mul va t.r (by omega) hlow
            have hrw : t.r < 2 ^ wd e := by rw [← hw]; exact hok.r_lt
            have hr' : Conc.lshr t.w t.r va = t.r / 2 ^ va := lshr_val _ _ _ (by omega)
            have hr'lt : t.r / 2 ^ va < 2 ^ t.w := Nat.lt_of_le_of_lt (Nat.div_le_self _ _) hok.r_lt
            refine ⟨⟨hoe, hs, hw.symm, by simp only; rw [hr']; exact hr'lt⟩, ve, hve, ?_⟩
            simp only; rw [hr']
            by_cases hops : t.op = .uge ∨ t.op = .ugt ∨ t.op = .ne
            · rw [hw] at hc ⊢
              exact shl_pre t.op (wd e) (wd e) ve va t.r hops hnw hrm hrw hc
            · rw [if_neg hops] at hokk
              have hse : symBV e = true := hs
              rw [foldBV_sym _ (by simpa [symBV] using hse)] at hokk
              have hok' : ExprOK anno env (.extract (wd e - 1) (wd e - va) e) := ok_mk_extract hoe (by omega) (by omega)
              have hz := isZero_sound anno env hctx hnrm _ hok' hokk (Conc.extract (wd e - 1) (wd e - va) ve)
                (by simp [evalBV, hve])
              have hvs := high_zero' (wd e) va ve (by omega) hvelt hz
              rw [hw] at hc ⊢
              rw [← shl_exact t.op (wd e) (wd e) ve va t.r hop hnw hvs hrm]; exact hc
          · rw [if_neg hlow] at h
            have := pureM_ok h; subst this
            exact ⟨hok, _, hv, hc⟩
  · have := pureM_ok h; subst this
    exact ⟨hok, _, hv, hc⟩

end

end Claripy.VSA.Bal
