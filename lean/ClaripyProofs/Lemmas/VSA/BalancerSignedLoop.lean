import ClaripyProofs.Lemmas.VSA.BalancerSignedSteps
/-!
The dispatch `balStep` and the loop `_balance` on SIGNED orderings (no constant moved across `+` / `-`): a truism that holds
in its signed or in its unsigned reading is turned into one that holds in one of the two; the unsigned reading, once reached
(after `_balance_zeroext` / `_balance_signext` / `_balance_concat`), is kept by every further arm; the signed reading is kept by
the arms that do not drop extension bits.  Then `processTru` (balance + handle) on a signed truism whose unsigned reading
holds: the lone bound it records is sound.
-/
set_option linter.unusedSectionVars false
namespace Claripy.VSA.Bal
open Claripy.VSA

/-- the arms that drop extension bits (`ZeroExt`, `SignExt`, `Concat` with a zero high part): after them only the unsigned
reading of a signed truism is known -/
def isWidthLhs : BV → Bool
  | .zext _ _ | .sext _ _ | .concat _ _ => true
  | _ => false

section
variable (anno : Nat → SI) (env : Nat → Nat) (hctx : ∀ i, (anno i).WF ∧ (anno i).mem (env i)) (hnrm : ∀ i, Nrm (anno i))
include hctx hnrm

/-- `ZeroExt(0, e)` (not built by claripy): the arm replaces it by `e`, same other side, same width, same value -/
theorem balZext_k0 (t : Tru) (e : BV) (hl : t.lhs = .zext 0 e) (hok : TruOK anno env t)
    (hs : symBV (balZext t 0 e).lhs = true) :
    TruOK anno env (balZext t 0 e) ∧ (balZext t 0 e).op = t.op ∧ (t.holds env → (balZext t 0 e).holds env) ∧
      (t.holdsU env → (balZext t 0 e).holdsU env) := by
  have hoe : ExprOK anno env e := ok_zext (hl ▸ hok.ok)
  have hw : t.w = wd e := by rw [← hok.wd_eq, hl]; simp [wd]
  have hpos : 0 < wd e := wd_pos anno env (fun i => (hctx i).1) e hoe.1
  have hg : Conc.extract (t.w - 1) (t.w - 0) t.r = 0 := by
    unfold Conc.extract
    have : t.w - 1 + 1 - (t.w - 0) = 0 := by omega
    rw [this]; simp [Nat.mod_one]
  have hr' : Conc.extract (t.w - 0 - 1) 0 t.r = t.r := low_id (t.w - 0) t.r (by omega) (by simpa using hok.r_lt)
  have he : balZext t 0 e = ⟨t.op, e, t.r, t.w⟩ := by
    unfold balZext; rw [if_pos hg, hr']; simp
  have hev : evalBV env t.lhs = evalBV env e := by rw [hl]; simp [evalBV]
  rw [he] at hs ⊢
  refine ⟨⟨hoe, hs, hw.symm, hok.r_lt⟩, rfl, ?_, ?_⟩
  · rintro ⟨v, hv, hc⟩; exact ⟨v, by rw [← hev]; exact hv, hc⟩
  · rintro ⟨v, hv, hc⟩; exact ⟨v, by rw [← hev]; exact hv, hc⟩

/-- `SignExt(0, e)` (not built by claripy): unchanged, or replaced by `e`, same other side, same width, same value -/
theorem balSext_k0 (t t' : Tru) (e : BV) (hl : t.lhs = .sext 0 e) (hok : TruOK anno env t)
    (hconv : ∃ p, convBV anno t.lhs [] = .ok p) (h : balSext anno t 0 e = .ok t') (hs : symBV t'.lhs = true) :
    t' = t ∨ (TruOK anno env t' ∧ t'.op = t.op ∧ (t.holds env → t'.holds env) ∧ (t.holdsU env → t'.holdsU env)) := by
  have hoe : ExprOK anno env e := ok_sext (hl ▸ hok.ok)
  have hw : t.w = wd e := by rw [← hok.wd_eq, hl]; simp [wd]
  have hpos : 0 < wd e := wd_pos anno env (fun i => (hctx i).1) e hoe.1
  obtain ⟨p, hp⟩ := hconv
  obtain ⟨q', hq'⟩ : ∃ q', convBV anno e [] = .ok q' := by
    rw [hl] at hp; simp only [convBV] at hp
    obtain ⟨q', hq', _⟩ := bind_ok _ _ _ hp
    exact ⟨q', hq'⟩
  obtain ⟨x, hx⟩ := exprOK_val anno env e hoe
  have hxlt : x < 2 ^ wd e := (conv_val anno env hctx hnrm e hoe [] q' hq' x hx).2.2.2.1
  have hev : evalBV env t.lhs = some x := by
    rw [hl]
    simp only [evalBV, hx, Option.bind_eq_bind, Option.bind_some, Option.some.injEq]
    rw [sext_val (wd e) (0 + wd e) x hpos hxlt (by omega)]
    have : 2 ^ (0 + wd e) - 2 ^ wd e = 0 := by rw [Nat.zero_add]; omega
    rw [this]
    split_ifs <;> omega
  have hr' : Conc.extract (t.w - 0 - 1) 0 t.r = t.r := low_id (t.w - 0) t.r (by omega) (by simpa using hok.r_lt)
  unfold balSext at h
  obtain ⟨p1, _, h⟩ := bindM_ok h
  have hres := pureM_ok h
  split_ifs at hres
  · right
    rw [hr'] at hres
    have he : t' = ⟨t.op, e, t.r, t.w⟩ := by rw [hres]; simp
    rw [he] at hs ⊢
    refine ⟨⟨hoe, hs, hw.symm, hok.r_lt⟩, rfl, ?_, ?_⟩
    · rintro ⟨v, hv, hc⟩
      rw [hev] at hv; cases hv
      exact ⟨x, hx, hc⟩
    · rintro ⟨v, hv, hc⟩
      rw [hev] at hv; cases hv
      exact ⟨x, hx, hc⟩
  · exact Or.inl hres

/-- **one arm other than `+` / `-` on a signed ordering**: a truism that holds in its signed or in its unsigned reading is
turned into one that holds in one of the two; the unsigned reading is kept by every arm; the signed reading is kept by every
arm that does not drop extension bits (`__and__`, `Extract`, `__lshift__`) -/
theorem balStep_s (ta t' : Tru) (hok : TruOK anno env ta) (hconv : ∃ p, convBV anno ta.lhs [] = .ok p)
    (hop : sOrd ta.op) (hnm : isModLhs ta.lhs = false) (hh : ta.holds env ∨ ta.holdsU env)
    (h : balStep anno ta = .ok t') (hs : symBV t'.lhs = true) :
    TruOK anno env t' ∧ t'.op = ta.op ∧ (t'.holds env ∨ t'.holdsU env) ∧ (ta.holdsU env → t'.holdsU env) ∧
      (isWidthLhs ta.lhs = false → ta.holds env → t'.holds env) := by
  have same : TruOK anno env ta ∧ ta.op = ta.op ∧ (ta.holds env ∨ ta.holdsU env) ∧ (ta.holdsU env → ta.holdsU env) ∧
      (isWidthLhs ta.lhs = false → ta.holds env → ta.holds env) := ⟨hok, rfl, hh, id, fun _ => id⟩
  have both : ∀ u : Tru, TruOK anno env u → u.op = ta.op → (ta.holds env → u.holds env) → (ta.holdsU env → u.holdsU env) →
      TruOK anno env u ∧ u.op = ta.op ∧ (u.holds env ∨ u.holdsU env) ∧ (ta.holdsU env → u.holdsU env) ∧
        (isWidthLhs ta.lhs = false → ta.holds env → u.holds env) :=
    fun u h1 h2 h3 h4 => ⟨h1, h2, hh.imp h3 h4, h4, fun _ => h3⟩
  unfold balStep at h
  split at h
  · rename_i a b hl; rw [hl] at hnm; simp [isModLhs] at hnm
  · rename_i a b hl; rw [hl] at hnm; simp [isModLhs] at hnm
  · rename_i k e hl
    have := pureM_ok h; subst this
    by_cases hk : 0 < k
    · rcases balZext_s anno env hctx hnrm ta k e hl hk hok hop hconv hh hs with h1 | ⟨h1, h2, h3⟩
      · rw [h1]; exact same
      · exact ⟨h1, h2, Or.inr h3, fun _ => h3, fun hw => by rw [hl] at hw; simp [isWidthLhs] at hw⟩
    · have hk0 : k = 0 := by omega
      subst hk0
      obtain ⟨h1, h2, h3, h4⟩ := balZext_k0 anno env hctx hnrm ta e hl hok hs
      exact both _ h1 h2 h3 h4
  · rename_i k e hl
    by_cases hk : 0 < k
    · rcases balSext_s anno env hctx hnrm ta t' k e hl hk hok hop hh h hs with h1 | ⟨h1, h2, h3⟩
      · rw [h1]; exact same
      · exact ⟨h1, h2, Or.inr h3, fun _ => h3, fun hw => by rw [hl] at hw; simp [isWidthLhs] at hw⟩
    · have hk0 : k = 0 := by omega
      subst hk0
      rcases balSext_k0 anno env hctx hnrm ta t' e hl hok hconv h hs with h1 | ⟨h1, h2, h3, h4⟩
      · rw [h1]; exact same
      · exact both _ h1 h2 h3 h4
  · rename_i hi lo e hl
    rcases balExtract_s anno env hctx hnrm ta t' hi lo e hl hok hop hconv h hs with h1 | ⟨h1, h2, h3, h4⟩
    · rw [h1]; exact same
    · exact both _ h1 h2 h3 h4
  · rename_i a b hl
    have := pureM_ok h; subst this
    obtain ⟨h1, h2, h3, h4⟩ := balAnd_s anno env hctx hnrm ta a b hl hok hconv hs
    exact both _ h1 h2 h3 h4
  · rename_i a b hl
    rcases balConcat_s anno env hctx hnrm ta t' a b hl hok hop hconv hh h hs with h1 | ⟨h1, h2, h3⟩
    · rw [h1]; exact same
    · exact ⟨h1, h2, Or.inr h3, fun _ => h3, fun hw => by rw [hl] at hw; simp [isWidthLhs] at hw⟩
  · rename_i e amt hl
    rcases balShl_s anno env hctx hnrm ta t' e amt hl hok hop hconv h hs with h1 | ⟨h1, h2, h3, h4⟩
    · rw [h1]; exact same
    · exact both _ h1 h2 h3 h4
  · have := pureM_ok h; subst this
    exact same

omit hctx hnrm in
theorem alignTru_holdsU (t ta : Tru) (hok : TruOK anno env t) (h : alignTru anno t = .ok ta) (hu : t.holdsU env) :
    ta.holdsU env := by
  obtain ⟨h1, h2, h3, h4, _, _⟩ := alignTru_spec anno env t ta hok h
  obtain ⟨v, hv, hc⟩ := hu
  exact ⟨v, by rw [h4]; exact hv, by rw [h1, h2, h3]; exact hc⟩

omit hctx hnrm in
theorem alignTru_holds (t ta : Tru) (hok : TruOK anno env t) (h : alignTru anno t = .ok ta) (hu : t.holds env) :
    ta.holds env := by
  obtain ⟨h1, h2, h3, h4, _, _⟩ := alignTru_spec anno env t ta hok h
  obtain ⟨v, hv, hc⟩ := hu
  exact ⟨v, by rw [h4]; exact hv, by rw [h1, h2, h3]; exact hc⟩

/-- **`_balance` on a signed ordering**, no constant moved across `+` / `-`: a truism that holds in its signed or in its
unsigned reading ends as one that holds in one of the two -/
theorem balance1_holds_s (t : Tru) (out : BalOut) (hok : TruOK anno env t) (hop : sOrd t.op)
    (hh : t.holds env ∨ t.holdsU env) (h : balance1 anno t = .ok out) (hs : symBV out.t.lhs = true)
    (hcov : out.usedMod = false) :
    TruOK anno env out.t ∧ out.t.op = t.op ∧ (out.t.holds env ∨ out.t.holdsU env) := by
  unfold balance1 at h
  have := balLoop_inv anno env (fun u => u.op = t.op ∧ (u.holds env ∨ u.holdsU env)) False True
    (by
      intro u ua hoku ⟨ho, hhu⟩ hal
      obtain ⟨h1, _, _, _, h5, h6⟩ := alignTru_spec anno env u ua hoku hal
      exact ⟨⟨by rw [h1, ho], hhu.imp (alignTru_holds anno env u ua hoku hal) (alignTru_holdsU anno env u ua hoku hal)⟩,
        h5, h6⟩)
    (by
      intro ua u' hoku hconv ⟨ho, hhu⟩ hst hsu hallow
      by_cases hm : isModLhs ua.lhs = true
      · rw [if_pos hm] at hallow; exact hallow.elim
      · obtain ⟨h1, h2, h3, _, _⟩ := balStep_s anno env hctx hnrm ua u' hoku hconv (by rw [ho]; exact hop)
          (by simpa using hm) hhu hst hsu
        exact ⟨h1, by rw [h2, ho], h3⟩)
    _ t false false out hok ⟨rfl, hh⟩ h hs (fun hc => by rw [hcov] at hc; cases hc) (fun _ => trivial)
  exact ⟨this.1, this.2.1, this.2.2⟩

/-- the same loop keeps the UNSIGNED reading of a signed truism (the state after `_balance_zeroext` / `_balance_signext` /
`_balance_concat`) -/
theorem balance1_holdsU_s (t : Tru) (out : BalOut) (hok : TruOK anno env t) (hop : sOrd t.op)
    (hh : t.holdsU env) (h : balance1 anno t = .ok out) (hs : symBV out.t.lhs = true) (hcov : out.usedMod = false) :
    TruOK anno env out.t ∧ out.t.op = t.op ∧ out.t.holdsU env := by
  unfold balance1 at h
  have := balLoop_inv anno env (fun u => u.op = t.op ∧ u.holdsU env) False True
    (by
      intro u ua hoku ⟨ho, hhu⟩ hal
      obtain ⟨h1, _, _, _, h5, h6⟩ := alignTru_spec anno env u ua hoku hal
      exact ⟨⟨by rw [h1, ho], alignTru_holdsU anno env u ua hoku hal hhu⟩, h5, h6⟩)
    (by
      intro ua u' hoku hconv ⟨ho, hhu⟩ hst hsu hallow
      by_cases hm : isModLhs ua.lhs = true
      · rw [if_pos hm] at hallow; exact hallow.elim
      · obtain ⟨h1, h2, _, h4, _⟩ := balStep_s anno env hctx hnrm ua u' hoku hconv (by rw [ho]; exact hop)
          (by simpa using hm) (Or.inr hhu) hst hsu
        exact ⟨h1, by rw [h2, ho], h4 hhu⟩)
    _ t false false out hok ⟨rfl, hh⟩ h hs (fun hc => by rw [hcov] at hc; cases hc) (fun _ => trivial)
  exact ⟨this.1, this.2.1, this.2.2⟩

/-- **balance + handle of a signed truism whose UNSIGNED reading holds** (no constant moved across `+` / `-`, any of the
other arms on the way): the lone bound recorded for the final expression, read with the unsigned default of the other
side, contains the value -/
theorem processTru_U_lone (t : Tru) (res : Bounds × BalOut) (hok : TruOK anno env t) (hop : sOrd t.op)
    (hh : t.holdsU env) (h : processTru anno t [] = .ok res) (hcov : res.2.usedMod = false) : Sound env res.1 := by
  unfold processTru at h
  obtain ⟨out, hout, h⟩ := bindM_ok h
  obtain ⟨bs', hbs', h⟩ := bindM_ok h
  have := pureM_ok h; subst this
  simp only at hcov ⊢
  by_cases hs : symBV out.t.lhs = true
  · obtain ⟨h1, h2, h3⟩ := balance1_holdsU_s anno env hctx hnrm t out hok hop hh hout hs hcov
    have hop' : sOrd out.t.op := by rw [h2]; exact hop
    unfold handle at hbs'
    obtain ⟨c, _, hbs'⟩ := bindM_ok hbs'
    by_cases hc1 : c = 1
    · rw [if_pos hc1] at hbs'
      have := pureM_ok hbs'; subst this
      intro e lo hi hm; cases hm
    · rw [if_neg hc1] at hbs'
      exact handleCmp_U_lone anno env hctx hnrm out.t bs' h1 hop' h3 (handle_sOrd anno out.t [] bs' hop' hbs')
  · have hs' : symBV out.t.lhs = false := by simpa using hs
    unfold handle at hbs'
    rw [card_nonsym anno out.t.lhs hs'] at hbs'
    obtain ⟨c, hc, hbs'⟩ := bindM_ok hbs'
    have := pureM_ok hc; subst this
    simp only [if_true] at hbs'
    have := pureM_ok hbs'; subst this
    intro e lo hi hm; cases hm

/-- **balance + handle of a signed truism** that holds in its signed or unsigned reading (no constant moved across `+` / `-`,
any of the other arms on the way): the final truism holds in one of the two readings, and whenever that is the UNSIGNED one
(a `ZeroExt` / `SignExt` / `Concat` was removed on the way) the lone bound recorded for the final expression is sound -/
theorem processTru_s_arms (t : Tru) (res : Bounds × BalOut) (hok : TruOK anno env t) (hop : sOrd t.op)
    (hh : t.holds env ∨ t.holdsU env) (h : processTru anno t [] = .ok res) (hcov : res.2.usedMod = false) :
    (symBV res.2.t.lhs = true → res.2.t.holds env ∨ res.2.t.holdsU env) ∧ (res.2.t.holdsU env → Sound env res.1) := by
  unfold processTru at h
  obtain ⟨out, hout, h⟩ := bindM_ok h
  obtain ⟨bs', hbs', h⟩ := bindM_ok h
  have := pureM_ok h; subst this
  simp only at hcov ⊢
  refine ⟨fun hs => (balance1_holds_s anno env hctx hnrm t out hok hop hh hout hs hcov).2.2, fun hU => ?_⟩
  by_cases hs : symBV out.t.lhs = true
  · obtain ⟨h1, h2, _⟩ := balance1_holds_s anno env hctx hnrm t out hok hop hh hout hs hcov
    have hop' : sOrd out.t.op := by rw [h2]; exact hop
    unfold handle at hbs'
    obtain ⟨c, _, hbs'⟩ := bindM_ok hbs'
    by_cases hc1 : c = 1
    · rw [if_pos hc1] at hbs'
      have := pureM_ok hbs'; subst this
      intro e lo hi hm; cases hm
    · rw [if_neg hc1] at hbs'
      exact handleCmp_U_lone anno env hctx hnrm out.t bs' h1 hop' hU (handle_sOrd anno out.t [] bs' hop' hbs')
  · have hs' : symBV out.t.lhs = false := by simpa using hs
    unfold handle at hbs'
    rw [card_nonsym anno out.t.lhs hs'] at hbs'
    obtain ⟨c, hc, hbs'⟩ := bindM_ok hbs'
    have := pureM_ok hc; subst this
    simp only [if_true] at hbs'
    have := pureM_ok hbs'; subst this
    intro e lo hi hm; cases hm

end

end Claripy.VSA.Bal
