import ClaripyProofs.Lemmas.VSA.Basic
import Mathlib.Tactic.Ring
import Mathlib.Tactic.Linarith
import Mathlib.Tactic.LinearCombination
/-! `extended_euclid` and `diop_natural_solution_linear` as the meet uses it: for `a > 0 > b` and `gcd(a, b) ∣ c` the
result is the natural solution of `a*x + b*y = c` with the least `x` (hence `_minimal_common_integer_splitted` finds
the least common member of two arithmetic progressions). -/
namespace Claripy.VSA

/-! ### extended Euclid -/

theorem extendedEuclidF_spec : ∀ (fuel a b : Nat), b < fuel →
    (a : Int) * (extendedEuclidF fuel a b).1 + (b : Int) * (extendedEuclidF fuel a b).2.1 = (extendedEuclidF fuel a b).2.2 ∧
      (extendedEuclidF fuel a b).2.2 = Nat.gcd a b
  | 0, _, _, h => by omega
  | fuel + 1, a, b, h => by
    unfold extendedEuclidF
    by_cases hb : b = 0
    · subst hb; simp
    · rw [if_neg hb]
      have hlt : a % b < fuel := by
        have := Nat.mod_lt a (Nat.pos_of_ne_zero hb)
        omega
      obtain ⟨ih1, ih2⟩ := extendedEuclidF_spec fuel b (a % b) hlt
      simp only []
      refine ⟨?_, ?_⟩
      · rw [← ih1]
        have hdm : (a : Int) = (b : Int) * ((a / b : Nat) : Int) + ((a % b : Nat) : Int) := by
          have := Nat.div_add_mod a b
          exact_mod_cast this.symm
        generalize (extendedEuclidF fuel b (a % b)).1 = u
        generalize (extendedEuclidF fuel b (a % b)).2.1 = v
        rw [hdm]
        ring
      · rw [ih2, Nat.gcd_comm a b, Nat.gcd_rec b a, Nat.gcd_comm]

theorem extendedEuclid_spec (a b : Nat) :
    (a : Int) * (extendedEuclid a b).1 + (b : Int) * (extendedEuclid a b).2.1 = (extendedEuclid a b).2.2 ∧
      (extendedEuclid a b).2.2 = Nat.gcd a b :=
  extendedEuclidF_spec (b + 1) a b (by omega)

/-! ### `diop_natural_solution_linear`, cut into the reduction by the gcd, the particular solution and the choice of `t` -/

/-- the choice of the parameter `t` and the solution returned (the text of the model after the particular solution) -/
def diopTail (a b c x0 y0 : Int) : R (Option (Int × Int)) :=
    let t0 := Q.mk' (-c * x0) b
    let t1 := Q.mk' (c * y0) a
    let t0ge := !(decide (b < 0))      -- t0_dir == ">="
    let t1ge := decide (a < 0)         -- t1_dir == ">="
    let bounds : Option (EQ × EQ) :=
      if t0ge && t1ge then some (.fin (if t1.lt t0 then t0 else t1), .posInf)
      else if !t0ge && t1ge then (if t1.lt t0 then some (.fin t1, .fin t0) else none)
      else if t0ge && !t1ge then (if t0.lt t1 then some (.fin t0, .fin t1) else none)
      else some (.negInf, .fin (if t0.lt t1 then t0 else t1))
    match bounds with
    | none => throw .typeError
    | some (lb, ub) =>
      let pickUb : Bool :=
        if lb.leZero && ub.geZero then ub.absLt lb
        else if lb.isInf then true
        else if ub.isInf then false
        else ub.absLt lb
      let t : EQ := if pickUb then ub else lb
      match t, ub with
      | .fin tq, .fin uq =>
        let ti := if tq.eq uq then tq.floor else tq.ceil
        pure (some (c * x0 + b * ti, c * y0 - a * ti))
      | .fin tq, _ => let ti := tq.ceil; pure (some (c * x0 + b * ti, c * y0 - a * ti))
      | _, _ => throw .typeError

/-- the model after the division by the gcd of the three coefficients -/
def diopCore (a b c : Int) : R (Option (Int × Int)) :=
  if c = 0 then pure (some (0, 0)) else
  let e := extendedEuclid a.natAbs b.natAbs
  let x0 := e.1 * isign a
  let y0 := e.2.1 * isign b
  let d := e.2.2
  if d = 0 then throw .zeroDiv else
  if Int.emod c d = 0 then
    if b = 0 ∨ a = 0 then throw .assertion else diopTail a b c x0 y0
  else pure none

theorem diop_eq (c a b : Int) :
    diop c a b =
      if Nat.gcd (Nat.gcd a.natAbs b.natAbs) c.natAbs = 0 then throw .zeroDiv
      else diopCore (Int.fdiv a (Nat.gcd (Nat.gcd a.natAbs b.natAbs) c.natAbs : Nat))
        (Int.fdiv b (Nat.gcd (Nat.gcd a.natAbs b.natAbs) c.natAbs : Nat))
        (Int.fdiv c (Nat.gcd (Nat.gcd a.natAbs b.natAbs) c.natAbs : Nat)) := rfl

/-- with `a > 0 > b` both conditions on `t` are upper bounds: the largest admissible integer is chosen -/
theorem diopTail_eval (a b c x0 y0 : Int) (ha : 0 < a) (hb : b < 0) :
    diopTail a b c x0 y0 =
      .ok (some (c * x0 + b * (if (Q.mk' (-c * x0) b).lt (Q.mk' (c * y0) a) then Q.mk' (-c * x0) b else Q.mk' (c * y0) a).floor,
        c * y0 - a * (if (Q.mk' (-c * x0) b).lt (Q.mk' (c * y0) a) then Q.mk' (-c * x0) b else Q.mk' (c * y0) a).floor)) := by
  unfold diopTail
  have h1 : decide (b < 0) = true := by simpa using hb
  have h2 : decide (a < 0) = false := by simp; omega
  simp only [h1, h2, Bool.not_true, Bool.false_and, Bool.and_false, Bool.false_eq_true, if_false, Bool.not_false,
    Bool.and_self]
  generalize (if (Q.mk' (-c * x0) b).lt (Q.mk' (c * y0) a) then Q.mk' (-c * x0) b else Q.mk' (c * y0) a) = tm
  have hpick : (if (EQ.negInf.leZero && (EQ.fin tm).geZero) = true then (EQ.fin tm).absLt EQ.negInf
      else if EQ.negInf.isInf = true then true else if (EQ.fin tm).isInf = true then false
      else (EQ.fin tm).absLt EQ.negInf) = true := by
    simp [EQ.leZero, EQ.geZero, EQ.absLt, EQ.isInf]
  simp only [hpick, if_true]
  have : tm.eq tm = true := by simp [Q.eq]
  simp only [this, if_true]
  rfl

theorem Q_floor_spec (n : Int) (d : Nat) (hd : 0 < d) :
    (⟨n, d⟩ : Q).floor * d ≤ n ∧ ∀ t : Int, t * d ≤ n → t ≤ (⟨n, d⟩ : Q).floor := by
  have hd' : (0 : Int) < d := by exact_mod_cast hd
  unfold Q.floor
  simp only []
  rw [Int.fdiv_eq_ediv_of_nonneg _ (Int.le_of_lt hd')]
  refine ⟨Int.ediv_mul_le _ (Int.ne_of_gt hd'), ?_⟩
  intro t ht
  exact Int.le_ediv_of_mul_le hd' ht

/-- **the solution `diop` returns for coprime `a > 0 > b`** is natural and has the least `x` among the natural solutions -/
theorem diopCore_spec (a b c : Int) (ha : 0 < a) (hb : b < 0) (hco : Nat.gcd a.natAbs b.natAbs = 1) :
    ∃ x y, diopCore a b c = .ok (some (x, y)) ∧ a * x + b * y = c ∧ 0 ≤ x ∧ 0 ≤ y ∧
      ∀ x' y', 0 ≤ x' → 0 ≤ y' → a * x' + b * y' = c → x ≤ x' := by
  unfold diopCore
  by_cases hc : c = 0
  · rw [if_pos hc]
    exact ⟨0, 0, rfl, by simp [hc], Int.le_refl _, Int.le_refl _, fun x' _ hx' _ _ => hx'⟩
  · rw [if_neg hc]
    obtain ⟨e1, e2⟩ := extendedEuclid_spec a.natAbs b.natAbs
    rw [hco] at e2
    simp only []
    rw [e2]
    have hia : isign a = 1 := by unfold isign; rw [if_neg (by omega)]
    have hib : isign b = -1 := by unfold isign; rw [if_pos hb]
    have hna : (a.natAbs : Int) = a := Int.natAbs_of_nonneg (Int.le_of_lt ha)
    have hnb : (b.natAbs : Int) = -b := by omega
    rw [hia, hib]
    generalize (extendedEuclid a.natAbs b.natAbs).1 = u at *
    generalize (extendedEuclid a.natAbs b.natAbs).2.1 = v at *
    rw [e2, hna, hnb] at e1
    have hbez : a * (u * 1) + b * (v * -1) = 1 := by push_cast at e1; linarith
    have hem : Int.emod c ((1 : Nat) : Int) = 0 := by show c % 1 = 0; exact Int.emod_one c
    rw [if_neg (by decide), if_pos hem, if_neg (by omega), diopTail_eval _ _ _ _ _ ha hb]
    generalize u * 1 = x0 at *
    generalize v * -1 = y0 at *
    -- the two bounds on `t`, as fractions with positive denominators
    have hq0 : Q.mk' (-c * x0) b = ⟨c * x0, b.natAbs⟩ := by
      unfold Q.mk'; rw [if_pos hb]; congr 1; ring
    have hq1 : Q.mk' (c * y0) a = ⟨c * y0, a.natAbs⟩ := by
      unfold Q.mk'; rw [if_neg (by omega)]
    rw [hq0, hq1]
    have hbpos : 0 < b.natAbs := by omega
    have hapos : 0 < a.natAbs := by omega
    obtain ⟨f0a, f0b⟩ := Q_floor_spec (c * x0) b.natAbs hbpos
    obtain ⟨f1a, f1b⟩ := Q_floor_spec (c * y0) a.natAbs hapos
    rw [hnb] at f0a f0b
    rw [hna] at f1a f1b
    -- the chosen `t` satisfies both bounds and is the largest such integer
    have key : ∃ ti : Int, (if (⟨c * x0, b.natAbs⟩ : Q).lt ⟨c * y0, a.natAbs⟩ then (⟨c * x0, b.natAbs⟩ : Q)
        else ⟨c * y0, a.natAbs⟩).floor = ti ∧ ti * (-b) ≤ c * x0 ∧ ti * a ≤ c * y0 ∧
        ∀ t : Int, t * (-b) ≤ c * x0 → t * a ≤ c * y0 → t ≤ ti := by
      by_cases hlt : (⟨c * x0, b.natAbs⟩ : Q).lt ⟨c * y0, a.natAbs⟩ = true
      · rw [if_pos hlt]
        refine ⟨_, rfl, f0a, ?_, fun t h1 _ => f0b t h1⟩
        have hlt' : c * x0 * a < c * y0 * (-b) := by
          have : c * x0 * (a.natAbs : Int) < c * y0 * (b.natAbs : Int) := by simpa [Q.lt] using hlt
          rwa [hna, hnb] at this
        have hnbpos : 0 < -b := by omega
        have h3 : (⟨c * x0, b.natAbs⟩ : Q).floor * a * (-b) < c * y0 * (-b) := by nlinarith
        have := Int.lt_of_mul_lt_mul_right h3 (Int.le_of_lt hnbpos)
        exact Int.le_of_lt this
      · rw [if_neg hlt]
        refine ⟨_, rfl, ?_, f1a, fun t _ h2 => f1b t h2⟩
        have hge : c * y0 * (-b) ≤ c * x0 * a := by
          have : ¬ c * x0 * (a.natAbs : Int) < c * y0 * (b.natAbs : Int) := by simpa [Q.lt] using hlt
          rw [hna, hnb] at this
          omega
        have h3 : (⟨c * y0, a.natAbs⟩ : Q).floor * (-b) * a ≤ c * x0 * a := by nlinarith
        exact Int.le_of_mul_le_mul_right h3 ha
    obtain ⟨ti, hti, k1, k2, k3⟩ := key
    rw [hti]
    refine ⟨_, _, rfl, ?_, by nlinarith, by nlinarith, ?_⟩
    · have : a * (c * x0 + b * ti) + b * (c * y0 - a * ti) = c * (a * x0 + b * y0) := by ring
      rw [this, hbez, Int.mul_one]
    · intro x' y' hx' hy' heq
      -- `x' - x = (-b) * j`, `y' - y = a * j` with `j` read off the Bezout identity
      have h0 : a * (c * x0 + b * ti) + b * (c * y0 - a * ti) = c := by
        have : a * (c * x0 + b * ti) + b * (c * y0 - a * ti) = c * (a * x0 + b * y0) := by ring
        rw [this, hbez, Int.mul_one]
      have h1 : a * (x' - (c * x0 + b * ti)) = (-b) * (y' - (c * y0 - a * ti)) := by linarith
      obtain ⟨X, hX⟩ : ∃ X, X = x' - (c * x0 + b * ti) := ⟨_, rfl⟩
      obtain ⟨Y, hY⟩ : ∃ Y, Y = y' - (c * y0 - a * ti) := ⟨_, rfl⟩
      rw [← hX, ← hY] at h1
      have hj : X = (-b) * (x0 * Y - y0 * X) := by linear_combination x0 * h1 - X * hbez
      have hjy : Y = a * (x0 * Y - y0 * X) := by linear_combination y0 * h1 - Y * hbez
      generalize x0 * Y - y0 * X = j at hj hjy
      -- `t' = ti - j` is admissible, so `t' ≤ ti`
      have hxe : x' = c * x0 + b * (ti - j) := by rw [hX] at hj; linear_combination hj
      have hye : y' = c * y0 - a * (ti - j) := by rw [hY] at hjy; linear_combination hjy
      have := k3 (ti - j) (by rw [hxe] at hx'; linarith) (by rw [hye] at hy'; linarith)
      have hj0 : 0 ≤ j := by omega
      have : 0 ≤ (-b) * j := Int.mul_nonneg (by omega) hj0
      rw [← hj, hX] at this
      omega

/-- **`diop_natural_solution_linear(c, a, b)` for `a > 0 > b`, `gcd(a, b) ∣ c`**: the natural solution of
`a*x + b*y = c` with the least `x` -/
theorem diop_spec (c a b : Int) (ha : 0 < a) (hb : b < 0) (hg : ((Nat.gcd a.natAbs b.natAbs : Nat) : Int) ∣ c) :
    ∃ x y, diop c a b = .ok (some (x, y)) ∧ a * x + b * y = c ∧ 0 ≤ x ∧ 0 ≤ y ∧
      ∀ x' y', 0 ≤ x' → 0 ≤ y' → a * x' + b * y' = c → x ≤ x' := by
  generalize hgd : Nat.gcd a.natAbs b.natAbs = g at hg
  have hgpos : 0 < g := by
    rw [← hgd]; exact Nat.gcd_pos_of_pos_left _ (by omega)
  have hgpos' : (0 : Int) < g := by exact_mod_cast hgpos
  have hd : Nat.gcd g c.natAbs = g := Nat.gcd_eq_left (Int.ofNat_dvd_left.1 hg)
  have hga : (g : Int) ∣ a := Int.ofNat_dvd_left.2 (by rw [← hgd]; exact Nat.gcd_dvd_left _ _)
  have hgb : (g : Int) ∣ b := Int.ofNat_dvd_left.2 (by rw [← hgd]; exact Nat.gcd_dvd_right _ _)
  rw [diop_eq, hgd, hd, if_neg (by omega), Int.fdiv_eq_ediv_of_nonneg _ (Int.le_of_lt hgpos'),
    Int.fdiv_eq_ediv_of_nonneg _ (Int.le_of_lt hgpos'), Int.fdiv_eq_ediv_of_nonneg _ (Int.le_of_lt hgpos')]
  have ea : (g : Int) * (a / g) = a := Int.mul_ediv_cancel' hga
  have eb : (g : Int) * (b / g) = b := Int.mul_ediv_cancel' hgb
  have ec : (g : Int) * (c / g) = c := Int.mul_ediv_cancel' hg
  generalize a / (g : Int) = A at *
  generalize b / (g : Int) = B at *
  generalize c / (g : Int) = C at *
  have hA : 0 < A := by
    by_contra hn
    have : (g : Int) * A ≤ 0 := Int.mul_nonpos_of_nonneg_of_nonpos (Int.le_of_lt hgpos') (by omega)
    omega
  have hB : B < 0 := by
    by_contra hn
    have : 0 ≤ (g : Int) * B := Int.mul_nonneg (Int.le_of_lt hgpos') (by omega)
    omega
  have hco : Nat.gcd A.natAbs B.natAbs = 1 := by
    have e1 : a.natAbs = g * A.natAbs := by rw [← ea, Int.natAbs_mul, Int.natAbs_natCast]
    have e2 : b.natAbs = g * B.natAbs := by rw [← eb, Int.natAbs_mul, Int.natAbs_natCast]
    rw [e1, e2, Nat.gcd_mul_left] at hgd
    have : g * Nat.gcd A.natAbs B.natAbs = g * 1 := by rw [hgd, Nat.mul_one]
    exact Nat.eq_of_mul_eq_mul_left hgpos this
  obtain ⟨x, y, h1, h2, h3, h4, h5⟩ := diopCore_spec A B C hA hB hco
  refine ⟨x, y, h1, ?_, h3, h4, ?_⟩
  · rw [← ea, ← eb, ← ec, ← h2]; ring
  · intro x' y' hx' hy' heq
    apply h5 x' y' hx' hy'
    rw [← ea, ← eb, ← ec] at heq
    have : (g : Int) * (A * x' + B * y') = (g : Int) * C := by linarith
    exact Int.eq_of_mul_eq_mul_left (Int.ne_of_gt hgpos') this

end Claripy.VSA
