import ClaripyProofs.Lemmas.VSA.MulTop
import ClaripyProofs.Lemmas.VSA.Udiv
import ClaripyProofs.Lemmas.VSA.Members
/-! `__mod__` (unsigned remainder) is sound and closed when the divisor is aligned: per pair of non-wrapping pieces either
the quotient interval is a single value `k` and the remainder is `p - k * t` (through `mul` and `sub`), or the remainder is
below the divisor's upper bound. -/
namespace Claripy.VSA

/-! ### the nested loops in structural form -/

/-- the outer loop over pairs with a per-pair function -/
def pairOuter (g : SI → SI → R (List SI)) (p2 : List SI) : List SI → List SI → R (List SI)
  | [], acc => pure acc
  | x :: xs, acc => match accLoop (g x) p2 acc with
    | .error e => .error e
    | .ok a' => pairOuter g p2 xs a'

theorem pairOuter_mem (g : SI → SI → R (List SI)) (p2 : List SI) : ∀ (l : List SI) (acc out : List SI),
    pairOuter g p2 l acc = .ok out →
    ∀ q, q ∈ out ↔ (q ∈ acc ∨ ∃ x y lxy, x ∈ l ∧ y ∈ p2 ∧ g x y = .ok lxy ∧ q ∈ lxy) := by
  intro l
  induction l with
  | nil =>
    intro acc out h q
    have : out = acc := by cases h; rfl
    subst this
    constructor
    · exact fun h => Or.inl h
    · rintro (h | ⟨x, _, _, hx, _⟩)
      · exact h
      · cases hx
  | cons x xs ih =>
    intro acc out h q
    unfold pairOuter at h
    cases hf : accLoop (g x) p2 acc with
    | error e => rw [hf] at h; cases h
    | ok a' =>
      rw [hf] at h
      simp only [] at h
      rw [ih _ _ h q, accLoop_mem _ _ _ _ hf q]
      constructor
      · rintro ((h1 | ⟨y, lxy, hy, hl, hq⟩) | ⟨x', y, lxy, hx', hy, hl, hq⟩)
        · exact Or.inl h1
        · exact Or.inr ⟨x, y, lxy, List.mem_cons_self, hy, hl, hq⟩
        · exact Or.inr ⟨x', y, lxy, List.mem_cons_of_mem _ hx', hy, hl, hq⟩
      · rintro (h1 | ⟨x', y, lxy, hx', hy, hl, hq⟩)
        · exact Or.inl (Or.inl h1)
        · rcases List.mem_cons.1 hx' with he | he
          · subst he; exact Or.inl (Or.inr ⟨y, lxy, hy, hl, hq⟩)
          · exact Or.inr ⟨x', y, lxy, he, hy, hl, hq⟩

theorem pairOuter_ok (g : SI → SI → R (List SI)) (p2 : List SI) : ∀ (l : List SI) (acc out : List SI),
    pairOuter g p2 l acc = .ok out → ∀ x y, x ∈ l → y ∈ p2 → ∃ lxy, g x y = .ok lxy := by
  intro l
  induction l with
  | nil => intro _ _ _ x _ hx; cases hx
  | cons z zs ih =>
    intro acc out h x y hx hy
    unfold pairOuter at h
    cases hf : accLoop (g z) p2 acc with
    | error e => rw [hf] at h; cases h
    | ok a' =>
      rw [hf] at h
      rcases List.mem_cons.1 hx with he | he
      · subst he; exact accLoop_ok _ _ _ _ hf y hy
      · exact ih _ _ h x y he hy

/-- the contribution of one pair of pieces to `__mod__` -/
def modPair (w : Nat) (p t : SI) : R (List SI) :=
  udivPiece p t >>= fun q => q.cardinality >>= fun card =>
    if card = 1 then q.mul t >>= fun m => pure [p.sub m] else pure [SI.new w 1 0 ((t.ub : Int) - 1)]

theorem modOuter_eq (w : Nat) (ts : List SI) (l : List SI) : ∀ acc : List SI,
    (forIn l acc (fun p r => (do
      let r' ← forIn ts r (fun t r2 => (do
        let q ← udivPiece p t
        let card ← q.cardinality
        if card = 1 then do
          let m ← q.mul t
          pure (ForInStep.yield (r2 ++ [p.sub m]))
        else pure (ForInStep.yield (r2 ++ [SI.new w 1 0 ((t.ub : Int) - 1)])) : R _))
      pure (ForInStep.yield r') : R _))) = pairOuter (modPair w) ts l acc := by
  induction l with
  | nil => intro acc; rfl
  | cons p ps ih =>
    intro acc
    rw [List.forIn_cons]
    unfold pairOuter
    have e : (forIn ts acc (fun t r2 => (do
        let q ← udivPiece p t
        let card ← q.cardinality
        if card = 1 then do
          let m ← q.mul t
          pure (ForInStep.yield (r2 ++ [p.sub m]))
        else pure (ForInStep.yield (r2 ++ [SI.new w 1 0 ((t.ub : Int) - 1)])) : R _))) = accLoop (modPair w p) ts acc := by
      rw [← accLoop_eq]
      congr
      funext t r2
      unfold modPair
      generalize udivPiece p t = rq
      cases rq with
      | error e => rfl
      | ok q =>
        simp only [bind, Except.bind]
        generalize q.cardinality = rc
        cases rc with
        | error e => rfl
        | ok card =>
          simp only []
          by_cases hc : card = 1
          · rw [if_pos hc, if_pos hc]
            generalize q.mul t = rm
            cases rm <;> rfl
          · rw [if_neg hc, if_neg hc]; rfl
    rw [e]
    cases h : accLoop (modPair w p) ts acc with
    | error e => rfl
    | ok a' => simp only [bind, Except.bind, pure, Except.pure]; exact ih _

theorem mod_eq (s o : SI) :
    s.mod o =
      if o.isInteger && o.lb == 0 then pure (SI.empty o.bits)
      else if s.isInteger && o.isInteger then pure (SI.new s.bits 0 ((s.lb % o.lb : Nat) : Int) ((s.lb % o.lb : Nat) : Int))
      else s.ssplit >>= fun ss => o.ssplit >>= fun ts => pairOuter (modPair s.bits) ts ss [] >>= fun all =>
        leastUpperBound all >>= fun u => pure u.renorm := by
  unfold SI.mod
  split
  · rfl
  · split
    · rfl
    · congr
      funext ss
      congr
      funext ts
      rw [← modOuter_eq]

/-! ### one pair of pieces -/

theorem renorm_nowrap (w : Nat) (p : SI) (hp : WFw w p) (hb : p.bottom = false) (hle : p.lb ≤ p.ub) :
    p.renorm.lb ≤ p.renorm.ub := by
  unfold SI.renorm; rw [hb]; simp only [Bool.false_eq_true, if_false]
  exact new_nowrap _ _ _ _ hp.1.2.1 hp.1.2.2.1 hle

theorem renorm_bottom (X : SI) : X.renorm.bottom = X.bottom := by
  unfold SI.renorm
  split
  · rfl
  · rename_i h
    rw [new_bottom]
    cases hb : X.bottom with
    | false => rfl
    | true => exact absurd hb h

/-- `_wrapped_unsigned_div` of two non-wrapping pieces is aligned (stride 1) unless it is empty -/
theorem wud_aligned (w : Nat) (p q : SI) (hp : WFw w p) (hq : WFw w q) :
    (wrappedUnsignedDiv p q).bottom = false → (wrappedUnsignedDiv p q).Aligned := by
  have hbits : Nat.max p.bits q.bits = w := by rw [hp.2, hq.2]; exact Nat.max_self _
  have hpu : p.ub < 2 ^ w := by have := hp.1.2.2.1; rwa [hp.2] at this
  have hpl : p.lb < 2 ^ w := by have := hp.1.2.1; rwa [hp.2] at this
  unfold wrappedUnsignedDiv
  simp only [hbits]
  split
  · intro h; cases h
  · intro _
    exact aligned_new w 1 _ _ (Nat.lt_of_le_of_lt (Nat.div_le_self _ _) hpl) (Nat.lt_of_le_of_lt (Nat.div_le_self _ _) hpu)
      (Nat.one_dvd _)

/-- `udiv` of two non-wrapping pieces: one partial result -/
theorem udivPiece_spec (w : Nat) (p t q : SI) (hp : WFw w p) (ht : WFw w t) (pb : p.bottom = false) (tb : t.bottom = false)
    (ple : p.lb ≤ p.ub) (tle : t.lb ≤ t.ub) (h : udivPiece p t = .ok q) :
    WFw w q ∧ Nrm q ∧ (q.bottom = false → q.Aligned) ∧ ∀ x y, p.mem x → t.mem y → y ≠ 0 → q.mem (x / y) := by
  have hw0 : 0 < w := by rw [← hp.2]; exact hp.1.1
  unfold udivPiece at h
  rw [ssplit_nowrap p (by omega), ssplit_nowrap t (by omega)] at h
  simp only [bind, Except.bind, List.map_cons, List.map_nil, List.flatten_cons, List.flatten_nil, List.append_nil] at h
  have hd : dedupe [wrappedUnsignedDiv p.renorm t.renorm] = [wrappedUnsignedDiv p.renorm t.renorm] := by
    unfold dedupe; simp
  rw [hd] at h
  have hq := pure_ok' h
  have pw := renorm_WFw w p hp
  have tw := renorm_WFw w t ht
  have prl := renorm_nowrap w p hp pb ple
  have trl := renorm_nowrap w t ht tb tle
  obtain ⟨g1, g2⟩ := wudiv_piece w p.renorm t.renorm pw tw hw0 prl trl
  rw [hq]
  refine ⟨renorm_WFw w _ g1, nrm_of_renorm _ _ rfl (renorm_WFw w _ g1).1, ?_, ?_⟩
  · intro hb
    have hb' : (wrappedUnsignedDiv p.renorm t.renorm).bottom = false := by
      rw [← renorm_bottom]; exact hb
    exact renorm_aligned _ g1.1 (wud_aligned w _ _ pw tw hb')
  · intro x y hx hy hy0
    exact (renorm_mem _ g1.1 _).2 (g2 x y ((renorm_mem p hp.1 x).2 hx) ((renorm_mem t ht.1 y).2 hy) hy0)

/-- an interval with exactly one member -/
theorem single_member (q : SI) (hq : q.WF) (h : q.cardinality = .ok 1) :
    ∃ k, q.mem k ∧ ∀ z, q.mem z → z = k := by
  rw [cardinality_exact q hq] at h
  have hl : q.members.length = 1 := Except.ok.inj h
  match hm : q.members, hl with
  | [k], _ =>
    refine ⟨k, (mem_members q hq k).1 (by rw [hm]; exact List.mem_cons_self), ?_⟩
    intro z hz
    have := (mem_members q hq z).2 hz
    rw [hm] at this
    simpa using this

/-- **one pair of pieces of `__mod__`** (divisor piece aligned and normal) -/
theorem modPair_sound (w : Nat) (p t : SI) (hp : WFw w p) (ht : WFw w t) (pb : p.bottom = false) (tb : t.bottom = false)
    (ple : p.lb ≤ p.ub) (tle : t.lb ≤ t.ub) (tA : t.Aligned) (tn : Nrm t) (l : List SI) (h : modPair w p t = .ok l) :
    (∀ r, r ∈ l → WFw w r) ∧ ∀ x y, p.mem x → t.mem y → y ≠ 0 → ∃ r, r ∈ l ∧ r.mem (x % y) := by
  have hw0 : 0 < w := by rw [← hp.2]; exact hp.1.1
  unfold modPair at h
  obtain ⟨q, hq, h⟩ := bind_ok' h
  obtain ⟨card, hc, h⟩ := bind_ok' h
  obtain ⟨qw, qn, qal, qm⟩ := udivPiece_spec w p t q hp ht pb tb ple tle hq
  by_cases h1 : card = 1
  · rw [if_pos h1] at h
    obtain ⟨m, hm, h⟩ := bind_ok' h
    have hl := pure_ok' h
    subst hl
    rw [h1] at hc
    obtain ⟨k, hk, hkall⟩ := single_member q qw.1 hc
    have qb : q.bottom = false := hk.1
    obtain ⟨mw, mm⟩ := mul_sound w q t m qw ht qb tb (qal qb) tA qn tn hm
    have hbits : p.bits = m.bits := by rw [hp.2, mw.2]
    obtain ⟨sw, sb⟩ := sub_WF p m hp.1 mw.1 hbits
    refine ⟨?_, ?_⟩
    · intro r hr
      rw [List.mem_singleton] at hr
      rw [hr]; exact ⟨sw, by rw [sb, hp.2]⟩
    · intro x y hx hy hy0
      refine ⟨_, List.mem_cons_self, ?_⟩
      have hk' : x / y = k := hkall _ (qm x y hx hy hy0)
      have hxl : x < 2 ^ w := by have := hx.2.1; rwa [hp.2] at this
      have hmul : k * y ≤ x := by rw [← hk']; exact Nat.div_mul_le_self x y
      have hmem := mm k y hk hy
      rw [Nat.mod_eq_of_lt (by omega)] at hmem
      have := sub_sound p m x (k * y) hbits hp.1 mw.1 hx hmem
      rw [hp.2] at this
      have e : (x + 2 ^ w - k * y) % 2 ^ w = x % y := by
        have h2 : x + 2 ^ w - k * y = (x - k * y) + 2 ^ w := by omega
        rw [h2, Nat.add_mod_right, Nat.mod_eq_of_lt (by omega)]
        have := Nat.div_add_mod x y
        rw [hk'] at this
        have e3 : y * k = k * y := Nat.mul_comm _ _
        omega
      rw [e] at this
      exact this
  · rw [if_neg h1] at h
    have hl := pure_ok' h
    subst hl
    refine ⟨?_, ?_⟩
    · intro r hr
      rw [List.mem_singleton] at hr
      rw [hr]; exact new_WF_nz w 1 _ _ hw0 (by decide)
    · intro x y hx hy hy0
      refine ⟨_, List.mem_cons_self, ?_⟩
      obtain ⟨_, hy2⟩ := mem_between t w ht tle y hy
      have htu : t.ub < 2 ^ w := by have := ht.1.2.2.1; rwa [ht.2] at this
      have hlt := Nat.mod_lt x (Nat.pos_of_ne_zero hy0)
      have e : (t.ub : Int) - 1 = ((t.ub - 1 : Nat) : Int) := by omega
      rw [e]
      have : (0 : Int) = ((0 : Nat) : Int) := rfl
      rw [this]
      apply mem_new_of w 1 0 (t.ub - 1) (x % y) (two_pow_pos' w) (by omega) (by omega)
      · rw [cd_zero, cd_zero]; omega
      · exact Nat.one_dvd _
      · intro hh; cases hh

/-- **`__mod__` is sound and closed** when the divisor is aligned (division by zero exempt) -/
theorem mod_sound (w : Nat) (s o r : SI) (hs : WFw w s) (ho : WFw w o) (hsb : s.bottom = false) (hob : o.bottom = false)
    (hoA : o.Aligned) (h : s.mod o = .ok r) :
    (WFw w r ∧ Nrm r) ∧ ∀ x y, s.mem x → o.mem y → y ≠ 0 → r.mem (x % y) := by
  have hw0 : 0 < w := by rw [← hs.2]; exact hs.1.1
  rw [mod_eq] at h
  by_cases c1 : (o.isInteger && o.lb == 0) = true
  · rw [if_pos c1] at h
    have hr := pure_ok' h
    have hi : o.lb = o.ub ∧ o.lb = 0 := by simpa [SI.isInteger] using c1
    rw [hr, ho.2]
    refine ⟨⟨empty_WFw w hw0, by unfold Nrm SI.renorm SI.empty; simp⟩, ?_⟩
    intro x y _ hy hy0
    have := mem_integer o y ho.1 hi.1 hy
    omega
  · rw [if_neg c1] at h
    by_cases c2 : (s.isInteger && o.isInteger) = true
    · rw [if_pos c2] at h
      have hr := pure_ok' h
      have hi : s.lb = s.ub ∧ o.lb = o.ub := by simpa [SI.isInteger] using c2
      have hsl : s.lb < 2 ^ w := by have := hs.1.2.1; rwa [hs.2] at this
      have hv : s.lb % o.lb < 2 ^ w := Nat.lt_of_le_of_lt (Nat.mod_le _ _) hsl
      rw [hr, hs.2]
      refine ⟨⟨⟨const_WF _ w hw0, new_bits _ _ _ _⟩, nrm_new _ _ _ _ hw0⟩, ?_⟩
      intro x y hx hy _
      rw [mem_integer s x hs.1 hi.1 hx, mem_integer o y ho.1 hi.2 hy]
      exact const_mem _ w hv
    · rw [if_neg c2] at h
      obtain ⟨ss, hss, h⟩ := bind_ok' h
      obtain ⟨ts, hts, h⟩ := bind_ok' h
      obtain ⟨all, hall, h⟩ := bind_ok' h
      obtain ⟨u, hu, h⟩ := bind_ok' h
      have hr := pure_ok' h
      obtain ⟨q1, e1, pr1, cov1, _⟩ := ssplit_spec s hs.1 hsb
      obtain ⟨q2, e2, pr2, cov2, _⟩ := ssplit_spec o ho.1 hob
      rw [hss] at e1; cases e1
      rw [hts] at e2; cases e2
      rw [hs.2] at pr1 hall
      rw [ho.2] at pr2
      have al2 := ssplit_aligned o ho.1 hoA ts hts
      have nr2 := ssplit_nrm o ho.1 ts hts
      have pair : ∀ p t, p ∈ ss → t ∈ ts → ∀ l, modPair w p t = .ok l →
          (∀ r, r ∈ l → WFw w r) ∧ ∀ x y, p.mem x → t.mem y → y ≠ 0 → ∃ r, r ∈ l ∧ r.mem (x % y) := by
        intro p t hp ht l hl
        obtain ⟨a1, a2, a3, _⟩ := pr1 p hp
        obtain ⟨b1, b2, b3, _⟩ := pr2 t ht
        exact modPair_sound w p t a1 b1 a2 b2 a3 b3 (al2 t ht) (nr2 t ht) l hl
      have hmem := pairOuter_mem (modPair w) ts ss [] all hall
      have hP : ∀ q, q ∈ all → WFw w q := by
        intro q hq
        rcases (hmem q).1 hq with h1 | ⟨p, t, l, hp, ht, hl, hql⟩
        · cases h1
        · exact (pair p t hp ht l hl).1 q hql
      obtain ⟨m1, m2⟩ := lub_sup w all u hP hu
      rw [hr]
      refine ⟨⟨renorm_WFw w u m1, nrm_of_renorm u _ rfl (renorm_WFw w u m1).1⟩, ?_⟩
      intro x y hx hy hy0
      obtain ⟨p, hp, hpx⟩ := cov1 x hx
      obtain ⟨t, ht, hty⟩ := cov2 y hy
      obtain ⟨l, hl⟩ := pairOuter_ok (modPair w) ts ss [] all hall p t hp ht
      obtain ⟨r', hr', hm⟩ := (pair p t hp ht l hl).2 x y hpx hty hy0
      apply (renorm_mem u m1.1 _).2
      exact m2 _ ⟨r', (hmem r').2 (Or.inr ⟨p, t, l, hp, ht, hl, hr'⟩), hm⟩

end Claripy.VSA
