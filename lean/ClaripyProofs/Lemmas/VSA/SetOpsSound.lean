import ClaripyProofs.Lemmas.VSA.SetLift
import ClaripyProofs.Lemmas.VSA.ModSound
import ClaripyProofs.Lemmas.VSA.ModFull4
import ClaripyProofs.Lemmas.VSA.SextSound
import ClaripyProofs.Lemmas.VSA.AshrSound
import ClaripyProofs.Lemmas.VSA.ConcatSound
import ClaripyProofs.Lemmas.VSA.MeetFinal
import ClaripyProofs.Lemmas.VSA.EvalExact
import ClaripyProofs.Lemmas.VSA.AlignedBasic
import Claripy.VSA.SetOps
/-! The lifted operations of `DiscreteStridedIntervalSet` are sound: instances of `lift2_spec` / `lift1_spec` with the interval
theorems of C21/C22, for every iteration order of the Python sets involved. -/
namespace Claripy.VSA

/-- a non-empty well-formed member of width `w` -/
structure NE (w : Nat) (s : SI) : Prop where
  wf : s.WF
  bits : s.bits = w
  nb : s.bottom = false

/-- … in constructor-normal form -/
def NEn (w : Nat) (s : SI) : Prop := NE w s ∧ Nrm s
/-- … and aligned -/
def NEa (w : Nat) (s : SI) : Prop := NE w s ∧ Nrm s ∧ s.Aligned

/-! ### binary liftings -/

theorem dsis_sub (w : Nat) (a : DSIS) (bs : List SI) (order : List Nat) (v : Val)
    (ha : ∀ s, s ∈ a.sis → NE w s) (hb : ∀ t, t ∈ bs → NE w t)
    (h : a.lift2 (fun s t => pure (s.sub t)) bs order = .ok v) (x y : Nat) (hx : a.mem x) (hy : memL bs y) :
    v.mem ((x + 2 ^ w - y) % 2 ^ w) := by
  refine lift2_spec w _ (fun x y => (x + 2 ^ w - y) % 2 ^ w) (fun _ _ => True) (NE w) (NE w) a bs order v ?_ ha hb h x y hx hy trivial
  intro s t r hs ht hr
  have : r = s.sub t := by cases hr; rfl
  subst this
  have hbits : s.bits = t.bits := by rw [hs.bits, ht.bits]
  obtain ⟨c1, c2⟩ := sub_WF s t hs.wf ht.wf hbits
  refine ⟨⟨c1, by rw [c2, hs.bits]⟩, ?_⟩
  intro x y hx hy _
  have := sub_sound s t x y hbits hs.wf ht.wf hx hy
  rwa [hs.bits] at this

theorem dsis_or (w : Nat) (a : DSIS) (bs : List SI) (order : List Nat) (v : Val)
    (ha : ∀ s, s ∈ a.sis → NE w s) (hb : ∀ t, t ∈ bs → NE w t)
    (h : a.lift2 SI.bitwiseOr bs order = .ok v) (x y : Nat) (hx : a.mem x) (hy : memL bs y) : v.mem (x ||| y) := by
  refine lift2_spec w _ (fun x y => x ||| y) (fun _ _ => True) (NE w) (NE w) a bs order v ?_ ha hb h x y hx hy trivial
  intro s t r hs ht hr
  obtain ⟨g1, g2⟩ := or_sound s t r hs.wf ht.wf (by rw [hs.bits, ht.bits]) hs.nb ht.nb hr
  rw [hs.bits] at g1
  exact ⟨g1, fun x y hx hy _ => g2 x y hx hy⟩

theorem dsis_xor (w : Nat) (a : DSIS) (bs : List SI) (order : List Nat) (v : Val)
    (ha : ∀ s, s ∈ a.sis → NE w s) (hb : ∀ t, t ∈ bs → NE w t)
    (h : a.lift2 SI.bitwiseXor bs order = .ok v) (x y : Nat) (hx : a.mem x) (hy : memL bs y) : v.mem (x ^^^ y) := by
  refine lift2_spec w _ (fun x y => x ^^^ y) (fun _ _ => True) (NE w) (NE w) a bs order v ?_ ha hb h x y hx hy trivial
  intro s t r hs ht hr
  obtain ⟨⟨g1, _⟩, g2⟩ := xor_sound s t r hs.wf ht.wf (by rw [hs.bits, ht.bits]) hs.nb ht.nb hr
  rw [hs.bits] at g1
  exact ⟨g1, fun x y hx hy _ => g2 x y hx hy⟩

theorem dsis_and (w : Nat) (a : DSIS) (bs : List SI) (order : List Nat) (v : Val)
    (ha : ∀ s, s ∈ a.sis → NEn w s) (hb : ∀ t, t ∈ bs → NEn w t)
    (h : a.lift2 SI.bitwiseAnd bs order = .ok v) (x y : Nat) (hx : a.mem x) (hy : memL bs y) : v.mem (x &&& y) := by
  refine lift2_spec w _ (fun x y => x &&& y) (fun _ _ => True) (NEn w) (NEn w) a bs order v ?_ ha hb h x y hx hy trivial
  intro s t r hs ht hr
  obtain ⟨⟨g1, _⟩, g2⟩ := and_sound s t r hs.1.wf ht.1.wf (by rw [hs.1.bits, ht.1.bits]) hs.1.nb ht.1.nb hs.2 ht.2 hr
  rw [hs.1.bits] at g1
  exact ⟨g1, fun x y hx hy _ => g2 x y hx hy⟩

/-- `*` on sets — members aligned (the guard of the interval operation) -/
theorem dsis_mul (w : Nat) (a : DSIS) (bs : List SI) (order : List Nat) (v : Val)
    (ha : ∀ s, s ∈ a.sis → NEa w s) (hb : ∀ t, t ∈ bs → NEa w t)
    (h : a.lift2 SI.mul bs order = .ok v) (x y : Nat) (hx : a.mem x) (hy : memL bs y) : v.mem ((x * y) % 2 ^ w) := by
  refine lift2_spec w _ (fun x y => (x * y) % 2 ^ w) (fun _ _ => True) (NEa w) (NEa w) a bs order v ?_ ha hb h x y hx hy trivial
  intro s t r hs ht hr
  obtain ⟨g1, g2⟩ := mul_sound w s t r ⟨hs.1.wf, hs.1.bits⟩ ⟨ht.1.wf, ht.1.bits⟩ hs.1.nb ht.1.nb hs.2.2 ht.2.2 hs.2.1 ht.2.1 hr
  exact ⟨g1, fun x y hx hy _ => g2 x y hx hy⟩

/-- `%` on sets — any divisor members (`mod_sound_full`); division by zero exempt -/
theorem dsis_mod (w : Nat) (a : DSIS) (bs : List SI) (order : List Nat) (v : Val)
    (ha : ∀ s, s ∈ a.sis → NE w s) (hb : ∀ t, t ∈ bs → NE w t)
    (h : a.lift2 SI.mod bs order = .ok v) (x y : Nat) (hx : a.mem x) (hy : memL bs y) (hy0 : y ≠ 0) : v.mem (x % y) := by
  refine lift2_spec w _ (fun x y => x % y) (fun _ y => y ≠ 0) (NE w) (NE w) a bs order v ?_ ha hb h x y hx hy hy0
  intro s t r hs ht hr
  obtain ⟨⟨g1, _⟩, g2⟩ := mod_sound_full w s t r ⟨hs.wf, hs.bits⟩ ⟨ht.wf, ht.bits⟩ hs.nb ht.nb hr
  exact ⟨g1, g2⟩

/-- the three shifts on sets (the amounts: any well-formed intervals) -/
theorem dsis_shl (w : Nat) (a : DSIS) (bs : List SI) (order : List Nat) (v : Val)
    (ha : ∀ s, s ∈ a.sis → NE w s) (hb : ∀ t, t ∈ bs → t.WF)
    (h : a.lift2 SI.lshift bs order = .ok v) (x y : Nat) (hx : a.mem x) (hy : memL bs y) : v.mem (Conc.shl w x y) := by
  refine lift2_spec w _ (Conc.shl w) (fun _ _ => True) (NE w) SI.WF a bs order v ?_ ha hb h x y hx hy trivial
  intro s t r hs ht hr
  obtain ⟨g1, g2⟩ := shl_sound s t r hs.wf hs.nb ht hr
  rw [hs.bits] at g1 g2
  exact ⟨g1, fun x y hx hy _ => g2 x y hx hy⟩

theorem dsis_lshr (w : Nat) (a : DSIS) (bs : List SI) (order : List Nat) (v : Val)
    (ha : ∀ s, s ∈ a.sis → NE w s) (hb : ∀ t, t ∈ bs → t.WF)
    (h : a.lift2 SI.rshiftLogical bs order = .ok v) (x y : Nat) (hx : a.mem x) (hy : memL bs y) : v.mem (Conc.lshr w x y) := by
  refine lift2_spec w _ (Conc.lshr w) (fun _ _ => True) (NE w) SI.WF a bs order v ?_ ha hb h x y hx hy trivial
  intro s t r hs ht hr
  obtain ⟨g1, g2⟩ := lshr_sound s t r hs.wf hs.nb ht hr
  rw [hs.bits] at g1 g2
  exact ⟨g1, fun x y hx hy _ => g2 x y hx hy⟩

theorem dsis_ashr (w : Nat) (a : DSIS) (bs : List SI) (order : List Nat) (v : Val)
    (ha : ∀ s, s ∈ a.sis → NEn w s) (hb : ∀ t, t ∈ bs → t.WF)
    (h : a.lift2 SI.rshiftArith bs order = .ok v) (x y : Nat) (hx : a.mem x) (hy : memL bs y) : v.mem (Conc.ashr w x y) := by
  refine lift2_spec w _ (Conc.ashr w) (fun _ _ => True) (NEn w) SI.WF a bs order v ?_ ha hb h x y hx hy trivial
  intro s t r hs ht hr
  obtain ⟨g1, g2⟩ := ashr_sound s t r hs.1.wf hs.1.nb hs.2 ht hr
  rw [hs.1.bits] at g1 g2
  exact ⟨g1, fun x y hx hy _ => g2 x y hx hy⟩

/-- `concat` on sets -/
theorem dsis_concat (w wb : Nat) (a : DSIS) (bs : List SI) (order : List Nat) (v : Val)
    (ha : ∀ s, s ∈ a.sis → NE w s) (hb : ∀ t, t ∈ bs → NE wb t)
    (h : a.lift2 SI.concat bs order = .ok v) (x y : Nat) (hx : a.mem x) (hy : memL bs y) : v.mem (x <<< wb ||| y) := by
  refine lift2_spec (w + wb) _ (fun x y => x <<< wb ||| y) (fun _ _ => True) (NE w) (NE wb) a bs order v ?_ ha hb h x y hx hy trivial
  intro s t r hs ht hr
  obtain ⟨⟨g1, _⟩, g2⟩ := concat_sound s t r hs.wf ht.wf hs.nb ht.nb hr
  rw [hs.bits, ht.bits] at g1
  rw [ht.bits] at g2
  exact ⟨g1, fun x y hx hy _ => g2 x y hx hy⟩

/-! ### unary liftings -/

theorem dsis_neg (w : Nat) (a : DSIS) (order : List Nat) (v : Val) (ha : ∀ s, s ∈ a.sis → NE w s)
    (h : a.lift1 (fun s => pure s.neg) order = .ok v) (x : Nat) (hx : a.mem x) : v.mem ((2 ^ w - x) % 2 ^ w) := by
  refine lift1_spec w _ (fun x => (2 ^ w - x) % 2 ^ w) (NE w) a order v ?_ ha h x hx
  intro s r hs hr
  have : r = s.neg := by cases hr; rfl
  subst this
  obtain ⟨c1, c2⟩ := neg_WF s hs.wf
  refine ⟨⟨c1, by rw [c2, hs.bits]⟩, ?_⟩
  intro x hx
  have := neg_sound s x hs.wf hx
  rwa [hs.bits] at this

theorem dsis_not (w : Nat) (a : DSIS) (order : List Nat) (v : Val) (ha : ∀ s, s ∈ a.sis → NE w s)
    (h : a.lift1 SI.bitwiseNot order = .ok v) (x : Nat) (hx : a.mem x) : v.mem (2 ^ w - 1 - x) := by
  refine lift1_spec w _ (fun x => 2 ^ w - 1 - x) (NE w) a order v ?_ ha h x hx
  intro s r hs hr
  obtain ⟨g1, g2⟩ := not_sound s r hs.wf hs.nb hr
  rw [hs.bits] at g1 g2
  exact ⟨g1, g2⟩

theorem dsis_zext (w nl : Nat) (hnl : w ≤ nl) (a : DSIS) (order : List Nat) (v : Val) (ha : ∀ s, s ∈ a.sis → NE w s)
    (h : a.lift1 (fun s => s.zeroExtend nl) order = .ok v) (x : Nat) (hx : a.mem x) : v.mem x := by
  refine lift1_spec nl _ (fun x => x) (NE w) a order v ?_ ha h x hx
  intro s r hs hr
  exact zext_sound s r nl hs.wf hs.nb (by rw [hs.bits]; exact hnl) hr

theorem dsis_sext (w nl : Nat) (hnl : w ≤ nl) (a : DSIS) (order : List Nat) (v : Val) (ha : ∀ s, s ∈ a.sis → NEn w s)
    (h : a.lift1 (fun s => s.signExtend nl) order = .ok v) (x : Nat) (hx : a.mem x) : v.mem (Conc.sext w nl x) := by
  refine lift1_spec nl _ (Conc.sext w nl) (NEn w) a order v ?_ ha h x hx
  intro s r hs hr
  have := sext_sound s r nl hs.1.wf hs.1.nb hs.2 (by rw [hs.1.bits]; exact hnl) hr
  rwa [hs.1.bits] at this

/-- `extract` on sets (a bare set when there is more than one distinct result: no `normalize`) -/
theorem dsis_extract (w hi lo : Nat) (hlo : lo ≤ hi) (hhi : hi < w) (a : DSIS) (order : List Nat) (v : Val)
    (ha : ∀ s, s ∈ a.sis → NE w s) (h : a.extract hi lo order = .ok v) (x : Nat) (hx : a.mem x) :
    v.mem (Conc.extract hi lo x) := by
  unfold DSIS.extract at h
  obtain ⟨L, hL, h⟩ := bind_ok' h
  obtain ⟨s, hs, hsx⟩ := hx
  obtain ⟨r, hrL, hor⟩ := applyEach1_mem _ a.sis L hL s hs
  have hm := (extract_sound s r hi lo (ha s hs).wf (ha s hs).nb hlo (by rw [(ha s hs).bits]; exact hhi) hor).2 x hsx
  simp only [] at h
  cases hp : permute (dedupe L) order with
  | none => rw [hp] at h; cases h
  | some l =>
    rw [hp] at h
    have hrl : r ∈ l := permute_mem _ _ _ hp r (dedupe_mem _ r hrL)
    match l, hrl, h with
    | [], hrl, _ => cases hrl
    | [q], hrl, h =>
      have hv := pure_ok' h
      subst hv
      have : r = q := by simpa using hrl
      subst this
      exact hm
    | q1 :: q2 :: qs, hrl, h =>
      have hv := pure_ok' h
      subst hv
      exact ⟨r, hrl, hm⟩

/-! ### comparisons, widening, the reflected operations: through `collapse()` -/

theorem val_collapse_sound (w : Nat) (b : Val) (cb : SI) (h : b.collapse = .ok cb)
    (hb : match b with | .si _ => True | .ds d => ∀ t, t ∈ d.sis → WFw w t) (y : Nat) (hy : b.mem y) : cb.mem y := by
  cases b with
  | si s => have := pure_ok' h; subst this; exact hy
  | ds d => exact collapse_sound (WFw w) (joinOK w) d cb hb h y hy

/-- the collapsed interval of a non-empty set of well-formed intervals is well formed, of the same width -/
theorem collapse_WFw (w : Nat) (hw : 0 < w) (d : DSIS) (r : SI) (hb : d.bits = w) (hP : ∀ s, s ∈ d.sis → WFw w s)
    (h : d.collapse = .ok r) : WFw w r :=
  collapse_prop (WFw w) d r (by rw [hb]; exact empty_WFw w hw) (fun a b ha hb => (pseudoJoin_ok w a b ha hb true).1) hP h

theorem collapse_nrm (w : Nat) (d : DSIS) (r : SI) (hP : ∀ s, s ∈ d.sis → WFw w s ∧ Nrm s)
    (h : d.collapse = .ok r) : Nrm r := by
  have := collapse_prop (fun s => (s.bottom = false → WFw w s) ∧ Nrm s) d r
    ⟨fun hb => (by simp [SI.empty] at hb), (by unfold Nrm SI.renorm SI.empty; simp)⟩ ?_ (fun s hs => ⟨fun _ => (hP s hs).1, (hP s hs).2⟩) h
  · exact this.2
  · intro a b ha hb
    by_cases hab : a.bottom = true
    · have e : pseudoJoin a b true = b := by unfold pseudoJoin; rw [if_pos hab]
      rw [e]; exact hb
    · by_cases hbb : b.bottom = true
      · have e : pseudoJoin a b true = a := by unfold pseudoJoin; rw [if_neg hab, if_pos hbb]
        rw [e]; exact ha
      · have wa := ha.1 (by simpa using hab)
        have wb := hb.1 (by simpa using hbb)
        exact ⟨fun _ => (pseudoJoin_ok w a b wa wb true).1, pseudoJoin_nrm a b true wa.1 ha.2 hb.2⟩

theorem collapse_aligned (w : Nat) (d : DSIS) (r : SI) (hP : ∀ s, s ∈ d.sis → WFw w s ∧ s.Aligned)
    (h : d.collapse = .ok r) : r.Aligned := by
  have := collapse_prop (fun s => (s.bottom = false → WFw w s) ∧ s.Aligned) d r
    ⟨fun hb => (by simp [SI.empty] at hb), empty_aligned _⟩ ?_ (fun s hs => ⟨fun _ => (hP s hs).1, (hP s hs).2⟩) h
  · exact this.2
  · intro a b ha hb
    by_cases hab : a.bottom = true
    · have e : pseudoJoin a b true = b := by unfold pseudoJoin; rw [if_pos hab]
      rw [e]; exact hb
    · by_cases hbb : b.bottom = true
      · have e : pseudoJoin a b true = a := by unfold pseudoJoin; rw [if_neg hab, if_pos hbb]
        rw [e]; exact ha
      · have wa := ha.1 (by simpa using hab)
        have wb := hb.1 (by simpa using hbb)
        exact ⟨fun _ => (pseudoJoin_ok w a b wa wb true).1,
          pseudoJoin_aligned a b true wa.1 wb.1 (by rw [wa.2, wb.2]) ha.2 hb.2⟩

end Claripy.VSA
