import ClaripyProofs.Lemmas.VSA.ValueSetSound
/-! `//` on sets (nested set orders) and the value-set operations with an interval operand (`+ - %`). -/
namespace Claripy.VSA

theorem applyEach2o_mem (op : SI → SI → List Nat → R SI) : ∀ (ps : List (SI × SI)) (os : List (List Nat)) (L : List SI),
    applyEach2o op ps os = .ok L →
    (∀ p, p ∈ ps → ∃ o r, r ∈ L ∧ op p.1 p.2 o = .ok r) ∧ (∀ r, r ∈ L → ∃ p o, p ∈ ps ∧ op p.1 p.2 o = .ok r)
  | [], _, L, h => by
    unfold applyEach2o at h
    have := pure_ok' h
    subst this
    exact ⟨fun p hp => (by cases hp), fun r hr => (by cases hr)⟩
  | p :: ps, [], L, h => by unfold applyEach2o at h; cases h
  | p :: ps, o :: os, L, h => by
    unfold applyEach2o at h
    obtain ⟨r, hr, h⟩ := bind_ok' h
    obtain ⟨rs, hrs, h⟩ := bind_ok' h
    have := pure_ok' h
    subst this
    obtain ⟨g1, g2⟩ := applyEach2o_mem op ps os rs hrs
    constructor
    · intro q hq
      rcases List.mem_cons.1 hq with he | he
      · subst he; exact ⟨o, r, List.mem_cons_self, hr⟩
      · obtain ⟨o', r', hr', ho'⟩ := g1 q he
        exact ⟨o', r', List.mem_cons_of_mem _ hr', ho'⟩
    · intro r' hr'
      rcases List.mem_cons.1 hr' with he | he
      · subst he; exact ⟨p, o, List.mem_cons_self, hr⟩
      · obtain ⟨q, o', hq, ho'⟩ := g2 r' he
        exact ⟨q, o', List.mem_cons_of_mem _ hq, ho'⟩

/-- **`set // set`** for every iteration order of every Python set involved; division by zero exempt -/
theorem dsis_udiv (w : Nat) (a : DSIS) (bs : List SI) (orders : List (List Nat)) (order : List Nat) (v : Val)
    (ha : ∀ s, s ∈ a.sis → NE w s) (hb : ∀ t, t ∈ bs → NE w t)
    (h : a.udivSet bs orders order = .ok v) (x y : Nat) (hx : a.mem x) (hy : memL bs y) (hy0 : y ≠ 0) : v.mem (x / y) := by
  unfold DSIS.udivSet at h
  obtain ⟨L, hL, h⟩ := bind_ok' h
  obtain ⟨g1, g2⟩ := applyEach2o_mem SI.udiv _ orders L hL
  obtain ⟨s, hs, hsx⟩ := hx
  obtain ⟨t, ht, hty⟩ := hy
  have hp : (s, t) ∈ a.sis.flatMap fun s => bs.map fun t => (s, t) := by
    rw [List.mem_flatMap]; exact ⟨s, hs, List.mem_map.2 ⟨t, ht, rfl⟩⟩
  obtain ⟨o, r, hr, hor⟩ := g1 (s, t) hp
  have hm := (udiv_sound s t r o (ha s hs).wf (hb t ht).wf (by rw [(ha s hs).bits, (hb t ht).bits]) (ha s hs).nb (hb t ht).nb hor).2
    x y hsx hty hy0
  have hPL : ∀ r, r ∈ L → WFw w r := by
    intro r' hr'
    obtain ⟨p, o', hp', ho'⟩ := g2 r' hr'
    obtain ⟨s', hs', hp2⟩ := List.mem_flatMap.1 hp'
    obtain ⟨t', ht', hpe⟩ := List.mem_map.1 hp2
    subst hpe
    have := (udiv_sound s' t' r' o' (ha s' hs').wf (hb t' ht').wf (by rw [(ha s' hs').bits, (hb t' ht').bits]) (ha s' hs').nb
      (hb t' ht').nb ho').1
    rwa [(ha s' hs').bits] at this
  exact finishSet_sound (WFw w) (joinOK w) a.bits L order v hPL h (x / y) ⟨r, hr, hm⟩

/-- value sets: an operation with an interval operand whose interval theorem has hypotheses on the operand -/
theorem vs_opSI (v v' : VS) (op : SI → R SI) (f : Nat → Nat) (Q : SI → Prop) (C : Prop)
    (hspec : ∀ s r, Q s → op s = .ok r → ∀ x, s.mem x → C → r.mem (f x))
    (hv : ∀ p, p ∈ v.regions → Q p.2) (h : v.mapRegions op = .ok v') (region : String) (x : Nat)
    (hx : v.memAt region x) (hc : C) : v'.memAt region (f x) := by
  obtain ⟨p, hp, hreg, hm⟩ := hx
  obtain ⟨r, hr, hin⟩ := mapRegions_entry v v' op h p hp
  exact ⟨(p.1, r), hin, hreg, hspec p.2 r (hv p hp) hr x hm hc⟩

/-- **`valueset + interval`, `valueset - interval`, `valueset % interval`** region by region -/
theorem vs_arith (w : Nat) (v v' : VS) (b : SI) (hv : ∀ p, p ∈ v.regions → NE w p.2) (hb : NE w b) (region : String)
    (x y : Nat) (hx : v.memAt region x) (hy : b.mem y) :
    (v.mapRegions (fun s => pure (s.add b)) = .ok v' → v'.memAt region ((x + y) % 2 ^ w)) ∧
    (v.mapRegions (fun s => pure (s.sub b)) = .ok v' → v'.memAt region ((x + 2 ^ w - y) % 2 ^ w)) ∧
    (v.mapRegions (fun s => s.mod b) = .ok v' → y ≠ 0 → v'.memAt region (x % y)) := by
  refine ⟨fun h => ?_, fun h => ?_, fun h hy0 => ?_⟩
  · refine vs_opSI v v' _ (fun x => (x + y) % 2 ^ w) (NE w) True ?_ hv h region x hx trivial
    intro s r hs hr x hsx _
    have : r = s.add b := by cases hr; rfl
    subst this
    have := add_sound s b x y (by rw [hs.bits, hb.bits]) hs.wf hb.wf hsx hy
    rwa [hs.bits] at this
  · refine vs_opSI v v' _ (fun x => (x + 2 ^ w - y) % 2 ^ w) (NE w) True ?_ hv h region x hx trivial
    intro s r hs hr x hsx _
    have : r = s.sub b := by cases hr; rfl
    subst this
    have := sub_sound s b x y (by rw [hs.bits, hb.bits]) hs.wf hb.wf hsx hy
    rwa [hs.bits] at this
  · refine vs_opSI v v' _ (fun x => x % y) (NE w) True ?_ hv h region x hx trivial
    intro s r hs hr x hsx _
    exact (mod_sound_full w s b r ⟨hs.wf, hs.bits⟩ ⟨hb.wf, hb.bits⟩ hs.nb hb.nb hr).2 x y hsx hy hy0

end Claripy.VSA
