import ClaripyProofs.Lemmas.VSA.MeetFinal
/-! The meet under the hypothesis the proofs of `MeetMain/MeetTop/MeetFinal` actually use: **every wrapping operand splits into
two pieces** (`TwoPieces`).  Alignment implies it (`aligned_two`), and it is void for non-wrapping operands — so
`intersection` is sound on ALL non-wrapping operands in constructor-normal form, aligned or not.  (Generated from the three
files by replacing the alignment hypotheses; the proofs are unchanged.) -/
namespace Claripy.VSA

/-- a configuration with a single result `[fin(mci(X, Y), U)]`, `{X, Y} = {s, b}` -/
theorem meet_single_tp (w : Nat) (s b X Y : SI) (U : Nat) (hs : WFw w s) (hb : WFw w b) (hsb : s.bottom = false)
    (hbb : b.bottom = false) (Hs : s.ub < s.lb → TwoPieces s) (Hb : b.ub < b.lb → TwoPieces b) (hss : s.stride ≠ 0) (hbs : b.stride ≠ 0)
    (hXY : (X = s ∧ Y = b) ∨ (X = b ∧ Y = s)) (hU : U < 2 ^ w) (hnc : NoCross s b)
    (hgeoR : ∀ x n, s.mem x → b.mem x → s.mem n → b.mem n →
      ((s.ub < s.lb ∨ ¬ b.ub < b.lb) → cd (2 ^ w) s.lb n ≤ cd (2 ^ w) s.lb x) →
      ((b.ub < b.lb ∨ ¬ s.ub < s.lb) → cd (2 ^ w) b.lb n ≤ cd (2 ^ w) b.lb x) →
      s.stride ∣ cd (2 ^ w) n x ∧ b.stride ∣ cd (2 ^ w) n x ∧ cd (2 ^ w) n x ≤ cd (2 ^ w) n U)
    (o : Option Int) (r : SI) (hm : minimalCommonInteger X Y = .ok o)
    (hf : meetFin w (Nat.lcm s.stride b.stride) o U = .ok r) (x : Nat) (hx : s.mem x) (hy : b.mem x) : r.mem x := by
  rcases hXY with ⟨e1, e2⟩ | ⟨e1, e2⟩
  · subst e1; subst e2
    exact meet_call w X Y X Y U x o r hss hbs hs hb hsb hbb (fun h => Or.inl (Hs h)) (fun h => Or.inl (Hb h)) hnc hm hf hU
      hx hy (fun n mx my _ f1 f2 => hgeoR x n hx hy mx my f1 f2)
  · subst e1; subst e2
    exact meet_call w Y X X Y U x o r hss hbs hb hs hbb hsb (fun h => Or.inl (Hb h)) (fun h => Or.inl (Hs h))
      (nocross_symm _ _ hnc) hm hf hU hy hx (fun n mx my _ f1 f2 => hgeoR x n hx hy my mx f2 f1)

/-- **`_multi_valued_intersection` on two proper intervals** (aligned, constructor-normal): the results are well formed
and every common member is in one of them -/
theorem multiMeet_proper_sound_tp (w : Nat) (s b : SI) (hs : WFw w s) (hb : WFw w b) (hsb : s.bottom = false)
    (hbb : b.bottom = false) (Hs : s.ub < s.lb → TwoPieces s) (Hb : b.ub < b.lb → TwoPieces b) (ns : Nrm s) (nb : Nrm b)
    (hsi : s.lb ≠ s.ub) (hbi : b.lb ≠ b.ub) (l : List SI) (h : s.multiMeet b = .ok l) :
    (∀ r, r ∈ l → WFw w r) ∧ ∀ x, s.mem x → b.mem x → ∃ r, r ∈ l ∧ r.mem x := by
  have hw0 : 0 < w := by rw [← hs.2]; exact hs.1.1
  have hbits : s.bits = b.bits := by rw [hs.2, hb.2]
  have hss : s.stride ≠ 0 := fun h0 => hsi (hs.1.2.2.2.1 h0)
  have hbs : b.stride ≠ 0 := fun h0 => hbi (hb.1.2.2.2.1 h0)
  have hsl := hs.1.2.1; have hsu := hs.1.2.2.1; have hbl := hb.1.2.1; have hbu := hb.1.2.2.1
  rw [hs.2] at hsl hsu
  rw [hb.2] at hbl hbu
  have hSl := cd_lt (2 ^ w) s.lb s.ub hsl hsu
  have hpl := cd_lt (2 ^ w) s.lb b.lb hsl hbl
  have hql := cd_lt (2 ^ w) s.lb b.ub hsl hbu
  have hzl : ∀ z, z < 2 ^ w → cd (2 ^ w) s.lb z < 2 ^ w := fun z hz => cd_lt _ _ _ hsl hz
  rw [multiMeet_general s b hsb hbb hbits (by simp [SI.isInteger, hsi]) (by simp [SI.isInteger, hbi]), hs.2] at h
  -- one result
  have single : ∀ (X Y : SI) (U : Nat) (rest : R (List SI)),
      rest = (minimalCommonInteger X Y >>= fun m => meetFin w (Nat.lcm s.stride b.stride) m U >>= fun r => pure [r]) →
      rest = .ok l → ((X = s ∧ Y = b) ∨ (X = b ∧ Y = s)) → U < 2 ^ w → NoCross s b →
      (∀ x n, s.mem x → b.mem x → s.mem n → b.mem n →
        ((s.ub < s.lb ∨ ¬ b.ub < b.lb) → cd (2 ^ w) s.lb n ≤ cd (2 ^ w) s.lb x) →
        ((b.ub < b.lb ∨ ¬ s.ub < s.lb) → cd (2 ^ w) b.lb n ≤ cd (2 ^ w) b.lb x) →
        s.stride ∣ cd (2 ^ w) n x ∧ b.stride ∣ cd (2 ^ w) n x ∧ cd (2 ^ w) n x ≤ cd (2 ^ w) n U) →
      (∀ r, r ∈ l → WFw w r) ∧ ∀ x, s.mem x → b.mem x → ∃ r, r ∈ l ∧ r.mem x := by
    intro X Y U rest hrest hok hXY hU hnc hgeoR
    rw [hrest] at hok
    obtain ⟨o, hm, hok⟩ := bind_ok' hok
    obtain ⟨r, hf, hok⟩ := bind_ok' hok
    have hl := pure_ok' hok
    subst hl
    refine ⟨?_, ?_⟩
    · intro r' hr'
      have : r' = r := by simpa using hr'
      subst this
      exact meetFin_WF w _ o U r' hw0 hf
    · intro x hx hy
      exact ⟨r, List.mem_cons_self, meet_single_tp w s b X Y U hs hb hsb hbb Hs Hb hss hbs hXY hU hnc hgeoR o r hm hf x hx hy⟩
  -- the rotated geometry, given a lemma of `MeetGeo`
  have viaGeo : ∀ (U : Nat), U < 2 ^ w →
      (∀ x n, cd (2 ^ w) s.lb x ≤ cd (2 ^ w) s.lb s.ub → cd (2 ^ w) s.lb n ≤ cd (2 ^ w) s.lb s.ub →
        cd (2 ^ w) (cd (2 ^ w) s.lb b.lb) (cd (2 ^ w) s.lb x) ≤ cd (2 ^ w) (cd (2 ^ w) s.lb b.lb) (cd (2 ^ w) s.lb b.ub) →
        cd (2 ^ w) (cd (2 ^ w) s.lb b.lb) (cd (2 ^ w) s.lb n) ≤ cd (2 ^ w) (cd (2 ^ w) s.lb b.lb) (cd (2 ^ w) s.lb b.ub) →
        (cd (2 ^ w) s.lb n ≤ cd (2 ^ w) s.lb x ∨
          cd (2 ^ w) (cd (2 ^ w) s.lb b.lb) (cd (2 ^ w) s.lb n) ≤ cd (2 ^ w) (cd (2 ^ w) s.lb b.lb) (cd (2 ^ w) s.lb x)) →
        cd (2 ^ w) s.lb n ≤ cd (2 ^ w) s.lb x ∧
          cd (2 ^ w) (cd (2 ^ w) s.lb b.lb) (cd (2 ^ w) s.lb n) ≤ cd (2 ^ w) (cd (2 ^ w) s.lb b.lb) (cd (2 ^ w) s.lb x) ∧
          cd (2 ^ w) (cd (2 ^ w) s.lb n) (cd (2 ^ w) s.lb x) ≤ cd (2 ^ w) (cd (2 ^ w) s.lb n) (cd (2 ^ w) s.lb U)) →
      ∀ x n, s.mem x → b.mem x → s.mem n → b.mem n →
        ((s.ub < s.lb ∨ ¬ b.ub < b.lb) → cd (2 ^ w) s.lb n ≤ cd (2 ^ w) s.lb x) →
        ((b.ub < b.lb ∨ ¬ s.ub < s.lb) → cd (2 ^ w) b.lb n ≤ cd (2 ^ w) b.lb x) →
        s.stride ∣ cd (2 ^ w) n x ∧ b.stride ∣ cd (2 ^ w) n x ∧ cd (2 ^ w) n x ≤ cd (2 ^ w) n U := by
    intro U hU hgeo x n hx hy hn hm f1 f2
    obtain ⟨hnl, hns, hnsd⟩ := arc_facts w s n hs hn
    obtain ⟨_, hnb, hnbd⟩ := arc_facts w b n hb hm
    exact geo_apply w s b hs hb x n U hx hy hU hnl hns hnsd hnb hnbd (ord_of _ _ _ _ f1 f2) (hgeo x n)
  by_cases c1 : s.isSurrounded b = true
  · rw [if_pos c1] at h
    rcases isSurrounded_true s b hs.1 hb.1 hbits hsb c1 with ht | hG
    · -- `b` is the full circle `[0, 2^w - 1]` with stride 1
      obtain ⟨t1, t2, t3⟩ := top_nrm b hb.1 hbb nb ht
      rw [hb.2] at t3
      have hnw : ¬ b.ub < b.lb := by omega
      apply single s b s.ub _ rfl h (Or.inl ⟨rfl, rfl⟩) hsu (fun hc => hnw hc.2.1)
      intro x n hx hy hn hm f1 _
      obtain ⟨hxl, hxs, hxd⟩ := arc_facts w s x hs hx
      obtain ⟨hnl, hns, hnd⟩ := arc_facts w s n hs hn
      have o1 := f1 (Or.inr hnw)
      exact ⟨dvd_of_order _ _ _ _ _ hsl hnl hxl hnd hxd o1, by rw [t1]; exact Nat.one_dvd _,
        arc_tail _ _ _ _ _ hsl hsu hnl hxl o1 hxs⟩
    · apply single s b s.ub _ rfl h (Or.inl ⟨rfl, rfl⟩) hsu (nocross_of_G w s b hs hb (Or.inl hG))
      apply viaGeo s.ub hsu
      intro x n a1 a2 a3 a4 a5
      exact geo_C1 _ _ _ _ _ _ hSl hpl hql (Nat.lt_of_le_of_lt a1 hSl) (Nat.lt_of_le_of_lt a2 hSl)
        ((G_rot_sb w s b hs hb).1 hG) a1 a2 a3 a4 a5
  · rw [if_neg c1] at h
    obtain ⟨bnt, c1'⟩ := isSurrounded_false s b hs.1 hb.1 hbits hsb c1
    by_cases c2 : b.isSurrounded s = true
    · rw [if_pos c2] at h
      rcases isSurrounded_true b s hb.1 hs.1 hbits.symm hbb c2 with ht | hG
      · -- `s` is the full circle
        obtain ⟨t1, t2, t3⟩ := top_nrm s hs.1 hsb ns ht
        rw [hs.2] at t3
        have hnw : ¬ s.ub < s.lb := by omega
        apply single s b b.ub _ rfl h (Or.inl ⟨rfl, rfl⟩) hbu (fun hc => hnw hc.1)
        intro x n hx hy hn hm _ f2
        obtain ⟨hxl, hxs, hxd⟩ := arc_facts w b x hb hy
        obtain ⟨hnl, hns, hnd⟩ := arc_facts w b n hb hm
        have o2 := f2 (Or.inr hnw)
        exact ⟨by rw [t1]; exact Nat.one_dvd _, dvd_of_order _ _ _ _ _ hbl hnl hxl hnd hxd o2,
          arc_tail _ _ _ _ _ hbl hbu hnl hxl o2 hxs⟩
      · apply single s b b.ub _ rfl h (Or.inl ⟨rfl, rfl⟩) hbu (nocross_of_G w s b hs hb (Or.inr hG))
        apply viaGeo b.ub hbu
        intro x n a1 a2 a3 a4 a5
        exact geo_C2 _ _ _ _ _ _ hSl hpl hql (Nat.lt_of_le_of_lt a1 hSl) (Nat.lt_of_le_of_lt a2 hSl)
          ((G_rot_bs w s b hs hb).1 hG) a1 a2 a3 a4 a5
    · rw [if_neg c2] at h
      obtain ⟨snt, c2'⟩ := isSurrounded_false b s hb.1 hs.1 hbits.symm hbb c2
      have nG1 : ¬ G s b := by
        rcases c1' with h1 | h1
        · rw [snt] at h1; cases h1
        · exact h1
      have nG2 : ¬ G b s := by
        rcases c2' with h1 | h1
        · rw [bnt] at h1; cases h1
        · exact h1
      have rG1 := mt (G_rot_sb w s b hs hb).2 nG1
      have rG2 := mt (G_rot_bs w s b hs hb).2 nG2
      -- the four surround tests as facts about distances
      have e1 : s.surroundsMember (b.lb : Int) = true ↔ sur s b.lb := surrounds_sur s b.lb hs.1 (by rw [hs.2]; exact hbl)
      have e2 : s.surroundsMember (b.ub : Int) = true ↔ sur s b.ub := surrounds_sur s b.ub hs.1 (by rw [hs.2]; exact hbu)
      have e3 : b.surroundsMember (s.lb : Int) = true ↔ sur b s.lb := surrounds_sur b s.lb hb.1 (by rw [hb.2]; exact hsl)
      have e4 : b.surroundsMember (s.ub : Int) = true ↔ sur b s.ub := surrounds_sur b s.ub hb.1 (by rw [hb.2]; exact hsu)
      have r1 := sur_s_iff w s hs b.lb
      have r2 := sur_s_iff w s hs b.ub
      have r3 := sur_b_sl w s b hs hb
      have r4 := sur_rot_b w s b hs hb s.ub hsu
      by_cases c3 : (s.surroundsMember (b.lb : Int) && s.surroundsMember (b.ub : Int) && b.surroundsMember (s.lb : Int) &&
          b.surroundsMember (s.ub : Int)) = true
      · rw [if_pos c3] at h
        have c3' : ((s.surroundsMember (b.lb : Int) = true ∧ s.surroundsMember (b.ub : Int) = true) ∧
            b.surroundsMember (s.lb : Int) = true) ∧ b.surroundsMember (s.ub : Int) = true := by
          simpa only [Bool.and_eq_true] using c3
        have s1 := e1.1 c3'.1.1.1
        have s2 := e2.1 c3'.1.1.2
        have s3 := e3.1 c3'.1.2
        have s4 := e4.1 c3'.2
        have r4w := (four_rot w s b hs hb).1 ⟨s1, s2, s3, s4⟩
        have a2 := r2.1 s2          -- `b.ub` on the arc of `s`
        have b4 : cd (2 ^ w) b.lb s.ub ≤ cd (2 ^ w) b.lb b.ub := by
          have := s4; unfold sur at this; rwa [hb.2] at this
        have b3 : cd (2 ^ w) b.lb s.lb ≤ cd (2 ^ w) b.lb b.ub := by
          have := s3; unfold sur at this; rwa [hb.2] at this
        have a1 := r1.1 s1
        obtain ⟨o0, hm0, h⟩ := bind_ok' h
        obtain ⟨o1, hm1, h⟩ := bind_ok' h
        obtain ⟨r0, hf0, h⟩ := bind_ok' h
        obtain ⟨r1', hf1, h⟩ := bind_ok' h
        have hl := pure_ok' h
        subst hl
        refine ⟨?_, ?_⟩
        · intro r hr
          rcases List.mem_cons.1 hr with he | he
          · subst he; exact meetFin_WF w _ o0 b.ub _ hw0 hf0
          · have : r = r1' := by simpa using he
            subst this; exact meetFin_WF w _ o1 s.ub _ hw0 hf1
        · intro x hx hy
          obtain ⟨hxl, hxs, hxsd⟩ := arc_facts w s x hs hx
          obtain ⟨_, hxb, hxbd⟩ := arc_facts w b x hb hy
          have rx := (le_rot _ s.lb b.lb b.ub x hsl hbl hbu hxl).1 hxb
          rcases geo_C3c _ _ _ _ _ 0 hSl hpl hql (Nat.lt_of_le_of_lt hxs hSl) (two_pow_pos' w) r4w rG1 rG2 hxs rx with hA | hB
          · -- `x` on the first overlap arc `[s.lb, b.ub]`
            refine ⟨r0, List.mem_cons_self, ?_⟩
            obtain ⟨bl0, bu0⟩ := c3_bounds w s b.ub hs hsb ns hbu a2
            have hXw : WFw w (SI.new w s.stride (s.lb : Int) (b.ub : Int)) := new_WF_nz w _ _ _ hw0 hss
            apply meet_call w s b _ b b.ub x o0 r0 hss hbs hXw hb (new_bottom _ _ _ _) hbb ?_ (fun hh => Or.inl (Hb hh)) ?_
              hm0 hf0 hbu (mem_new_of w _ _ _ x hsl hbu hxl hA hxsd (fun h0 => absurd h0 hss)) hy
            · intro n mx my hnl f1 f2
              rw [bl0, bu0] at f1 f2
              obtain ⟨_, hn1, hn1d⟩ := new_arc_facts w s.stride s.lb b.ub n hsl hbu mx
              obtain ⟨_, hnb, hnbd⟩ := arc_facts w b n hb my
              exact geo_apply w s b hs hb x n b.ub hx hy hbu hnl (Nat.le_trans hn1 a2) hn1d hnb hnbd (ord_of _ _ _ _ f1 f2)
                (fun g1 g2 g3 g4 g5 => geo_C3a _ _ _ _ _ _ hSl hpl hql (Nat.lt_of_le_of_lt g1 hSl) (Nat.lt_of_le_of_lt g2 hSl)
                  r4w rG1 rG2 hA hn1 g1 g2 g3 g4 g5)
            · intro hh
              rw [bl0, bu0] at hh
              have hbw := wraps_of_sur _ _ _ _ hbl hbu hsl b3 hh
              exact Or.inr ⟨Hb hbw, by rw [bl0]; exact hh⟩
            · unfold NoCross; rw [bl0, bu0]; omega
          · -- `x` on the second overlap arc `[b.lb, s.ub]`
            refine ⟨r1', List.mem_cons_of_mem _ List.mem_cons_self, ?_⟩
            obtain ⟨bl1, bu1⟩ := c3_bounds w b s.ub hb hbb nb hsu b4
            have hXw : WFw w (SI.new w b.stride (b.lb : Int) (s.ub : Int)) := new_WF_nz w _ _ _ hw0 hbs
            have hB' : cd (2 ^ w) b.lb x ≤ cd (2 ^ w) b.lb s.ub := (le_rot _ s.lb b.lb s.ub x hsl hbl hsu hxl).2 hB
            apply meet_call w s b _ s s.ub x o1 r1' hss hbs hXw hs (new_bottom _ _ _ _) hsb ?_ (fun hh => Or.inl (Hs hh)) ?_
              hm1 hf1 hsu (mem_new_of w _ _ _ x hbl hsu hxl hB' hxbd (fun h0 => absurd h0 hbs)) hx
            · intro n mx my hnl f1 f2
              rw [bl1, bu1] at f1 f2
              obtain ⟨_, hn1, hn1d⟩ := new_arc_facts w b.stride b.lb s.ub n hbl hsu mx
              obtain ⟨_, hns, hnsd⟩ := arc_facts w s n hs my
              have hn1r := (le_rot _ s.lb b.lb s.ub n hsl hbl hsu hnl).1 hn1
              exact geo_apply w s b hs hb x n s.ub hx hy hsu hnl hns hnsd (Nat.le_trans hn1 b4) hn1d
                ((ord_of _ _ _ _ f1 f2).symm)
                (fun g1 g2 g3 g4 g5 => geo_C3b _ _ _ _ _ _ hSl hpl hql (Nat.lt_of_le_of_lt g1 hSl) (Nat.lt_of_le_of_lt g2 hSl)
                  r4w rG1 rG2 hB hn1r g1 g2 g3 g4 g5)
            · intro hh
              rw [bl1, bu1] at hh
              have hsw := wraps_of_sur _ _ _ _ hsl hsu hbl a1 hh
              exact Or.inr ⟨Hs hsw, by rw [bl1]; exact hh⟩
            · unfold NoCross; rw [bl1, bu1]; omega
      · rw [if_neg c3] at h
        have n4 : ¬ (sur s b.lb ∧ sur s b.ub ∧ sur b s.lb ∧ sur b s.ub) := by
          intro hh
          apply c3
          simp only [Bool.and_eq_true]
          exact ⟨⟨⟨e1.2 hh.1, e2.2 hh.2.1⟩, e3.2 hh.2.2.1⟩, e4.2 hh.2.2.2⟩
        have rn4 := mt (four_rot w s b hs hb).2 n4
        have hnc := nocross_of_not4 w s b hs hb n4
        by_cases c4 : s.surroundsMember (b.lb : Int) = true
        · rw [if_pos c4] at h
          apply single b s s.ub _ rfl h (Or.inr ⟨rfl, rfl⟩) hsu hnc
          apply viaGeo s.ub hsu
          intro x n a1 a2 a3 a4 a5
          exact geo_C4 _ _ _ _ _ _ hSl hpl hql (Nat.lt_of_le_of_lt a1 hSl) (Nat.lt_of_le_of_lt a2 hSl)
            (r1.1 (e1.1 c4)) rn4 rG1 rG2 a1 a2 a3 a4 a5
        · rw [if_neg c4] at h
          have np : ¬ cd (2 ^ w) s.lb b.lb ≤ cd (2 ^ w) s.lb s.ub := fun hh => c4 (e1.2 (r1.2 hh))
          by_cases c5 : s.surroundsMember (b.ub : Int) = true
          · rw [if_pos c5] at h
            apply single b s b.ub _ rfl h (Or.inr ⟨rfl, rfl⟩) hbu hnc
            apply viaGeo b.ub hbu
            intro x n a1 a2 a3 a4 a5
            exact geo_C5 _ _ _ _ _ _ hSl hpl hql (Nat.lt_of_le_of_lt a1 hSl) (Nat.lt_of_le_of_lt a2 hSl)
              (r2.1 (e2.1 c5)) np rG1 rG2 a1 a2 a3 a4 a5
          · rw [if_neg c5] at h
            have nq : ¬ cd (2 ^ w) s.lb b.ub ≤ cd (2 ^ w) s.lb s.ub := fun hh => c5 (e2.2 (r2.2 hh))
            by_cases c6 : b.surroundsMember (s.lb : Int) = true
            · rw [if_pos c6] at h
              apply single s b b.ub _ rfl h (Or.inl ⟨rfl, rfl⟩) hbu hnc
              apply viaGeo b.ub hbu
              intro x n a1 a2 a3 a4 a5
              exact geo_C6 _ _ _ _ _ _ hSl hpl hql (Nat.lt_of_le_of_lt a1 hSl) (Nat.lt_of_le_of_lt a2 hSl)
                (r3.1 (e3.1 c6)) np nq rG1 rG2 a1 a2 a3 a4 a5
            · rw [if_neg c6] at h
              have n0 := fun hh => c6 (e3.2 (r3.2 hh))
              by_cases c7 : b.surroundsMember (s.ub : Int) = true
              · rw [if_pos c7] at h
                apply single s b s.ub _ rfl h (Or.inl ⟨rfl, rfl⟩) hsu hnc
                apply viaGeo s.ub hsu
                intro x n a1 a2 a3 a4 a5
                exact geo_C7 _ _ _ _ _ _ hSl hpl hql (Nat.lt_of_le_of_lt a1 hSl) (Nat.lt_of_le_of_lt a2 hSl)
                  (r4.1 (e4.1 c7)) np nq n0 rG1 rG2 a1 a2 a3 a4 a5
              · rw [if_neg c7] at h
                have nS := fun hh => c7 (e4.2 (r4.2 hh))
                have hl := pure_ok' h
                subst hl
                refine ⟨?_, ?_⟩
                · intro r hr
                  have : r = SI.empty w := by simpa using hr
                  subst this
                  exact empty_WFw w hw0
                · intro x hx hy
                  exfalso
                  obtain ⟨hxl, hxs, _⟩ := arc_facts w s x hs hx
                  obtain ⟨_, hxb, _⟩ := arc_facts w b x hb hy
                  have rx := (le_rot _ s.lb b.lb b.ub x hsl hbl hbu hxl).1 hxb
                  exact geo_none _ _ _ _ _ 0 hSl hpl hql (Nat.lt_of_le_of_lt hxs hSl) (two_pow_pos' w) np nq n0 nS hxs rx

/-- **`_multi_valued_intersection`** on aligned operands in constructor-normal form: well-formed results that together
contain every common member -/
theorem multiMeet_sound_tp (w : Nat) (s b : SI) (hs : WFw w s) (hb : WFw w b) (hsb : s.bottom = false)
    (hbb : b.bottom = false) (Hs : s.ub < s.lb → TwoPieces s) (Hb : b.ub < b.lb → TwoPieces b) (ns : Nrm s) (nb : Nrm b)
    (l : List SI) (h : s.multiMeet b = .ok l) :
    (∀ r, r ∈ l → WFw w r) ∧ ∀ x, s.mem x → b.mem x → ∃ r, r ∈ l ∧ r.mem x := by
  have hw0 : 0 < w := by rw [← hs.2]; exact hs.1.1
  have hbits : s.bits = b.bits := by rw [hs.2, hb.2]
  have hsl := hs.1.2.1; have hbl := hb.1.2.1
  rw [hs.2] at hsl
  rw [hb.2] at hbl
  -- a single result that is the constant `v` or empty
  have konst : ∀ (c : Prop) [Decidable c] (v : Nat), v < 2 ^ w →
      (∀ x, s.mem x → b.mem x → c ∧ x = v) →
      l = [if c then SI.new w 0 (v : Int) (v : Int) else SI.empty w] →
      (∀ r, r ∈ l → WFw w r) ∧ ∀ x, s.mem x → b.mem x → ∃ r, r ∈ l ∧ r.mem x := by
    intro c _ v hv hc hl
    subst hl
    refine ⟨?_, ?_⟩
    · intro r hr
      rw [List.mem_singleton] at hr
      subst hr
      split
      · exact ⟨const_WF v w hw0, new_bits _ _ _ _⟩
      · exact empty_WFw w hw0
    · intro x hx hy
      obtain ⟨h1, h2⟩ := hc x hx hy
      refine ⟨_, List.mem_cons_self, ?_⟩
      rw [if_pos h1, h2]
      exact const_mem v w hv
  by_cases hsi : s.lb = s.ub
  · by_cases hbi : b.lb = b.ub
    · rw [multiMeet_int_int s b hsb hbb hbits hsi hbi, hs.2] at h
      have hl : l = _ := (Except.ok.inj h).symm
      apply konst (s.lb = b.lb) s.lb hsl _ hl
      intro x hx hy
      have e1 := mem_integer s x hs.1 hsi hx
      have e2 := mem_integer b x hb.1 hbi hy
      exact ⟨by omega, e1⟩
    · have hbs : b.stride ≠ 0 := fun h0 => hbi (hb.1.2.2.2.1 h0)
      rw [multiMeet_int_left s b hsb hbb hbits hsi hbi hbs, hs.2] at h
      have hl : l = _ := (Except.ok.inj h).symm
      apply konst _ s.lb hsl _ hl
      intro x hx hy
      have e1 := mem_integer s x hs.1 hsi hx
      rw [e1] at hy
      obtain ⟨_, h2, h3⟩ := arc_facts w b s.lb hb hy
      refine ⟨⟨?_, ?_⟩, e1⟩
      · rw [modSub_nat _ _ _ hsl hbl]
        exact Nat.mod_eq_zero_of_dvd h3
      · exact (surrounds_sur b s.lb hb.1 (by rw [hb.2]; exact hsl)).2 (by unfold sur; rw [hb.2]; exact h2)
  · by_cases hbi : b.lb = b.ub
    · have hss : s.stride ≠ 0 := fun h0 => hsi (hs.1.2.2.2.1 h0)
      rw [multiMeet_int s b hsb hbb hbits hsi hss hbi, hs.2] at h
      have hl : l = _ := (Except.ok.inj h).symm
      apply konst _ b.lb hbl _ hl
      intro x hx hy
      have e1 := mem_integer b x hb.1 hbi hy
      rw [e1] at hx
      obtain ⟨_, h2, h3⟩ := arc_facts w s b.lb hs hx
      refine ⟨⟨?_, ?_⟩, e1⟩
      · rw [modSub_nat _ _ _ hbl hsl]
        exact Nat.mod_eq_zero_of_dvd h3
      · exact (surrounds_sur s b.lb hs.1 (by rw [hs.2]; exact hbl)).2 (by unfold sur; rw [hs.2]; exact h2)
    · exact multiMeet_proper_sound_tp w s b hs hb hsb hbb Hs Hb ns nb hsi hbi l h

/-- **`intersection` is sound on aligned operands** (in constructor-normal form): closed, and the result contains every
common member -/
theorem meet_sound_tp (w : Nat) (s b r : SI) (hs : WFw w s) (hb : WFw w b) (hsb : s.bottom = false)
    (hbb : b.bottom = false) (Hs : s.ub < s.lb → TwoPieces s) (Hb : b.ub < b.lb → TwoPieces b) (ns : Nrm s) (nb : Nrm b)
    (h : s.intersection b = .ok r) : WFw w r ∧ ∀ x, s.mem x → b.mem x → r.mem x := by
  unfold SI.intersection at h
  obtain ⟨l, hl, h⟩ := bind_ok' h
  obtain ⟨g1, g2⟩ := multiMeet_sound_tp w s b hs hb hsb hbb Hs Hb ns nb l hl
  match l, g1, g2, h with
  | [], _, _, h => cases h
  | [v], g1, g2, h =>
    have hr := pure_ok' h
    subst hr
    refine ⟨g1 _ List.mem_cons_self, ?_⟩
    intro x hx hy
    obtain ⟨r', hr', hm⟩ := g2 x hx hy
    have : r' = r := by simpa using hr'
    subst this; exact hm
  | [v, u], g1, g2, h =>
    have hr := pure_ok' h
    subst hr
    have hv := g1 v List.mem_cons_self
    have hu := g1 u (List.mem_cons_of_mem _ List.mem_cons_self)
    obtain ⟨j1, j2⟩ := pseudoJoin_ok w v u hv hu true
    refine ⟨j1, ?_⟩
    intro x hx hy
    obtain ⟨r', hr', hm⟩ := g2 x hx hy
    rcases List.mem_cons.1 hr' with he | he
    · subst he; exact j2 x (Or.inl hm)
    · have : r' = u := by simpa using he
      subst this; exact j2 x (Or.inr hm)
  | _ :: _ :: _ :: _, _, _, h => cases h

/-- **`intersection` of two non-wrapping intervals** (constructor-normal form) contains every common member — no alignment -/
theorem meet_sound_nowrap (w : Nat) (s b r : SI) (hs : WFw w s) (hb : WFw w b) (hsb : s.bottom = false)
    (hbb : b.bottom = false) (hsle : s.lb ≤ s.ub) (hble : b.lb ≤ b.ub) (ns : Nrm s) (nb : Nrm b)
    (h : s.intersection b = .ok r) : WFw w r ∧ ∀ x, s.mem x → b.mem x → r.mem x :=
  meet_sound_tp w s b r hs hb hsb hbb (fun hh => absurd hh (by omega)) (fun hh => absurd hh (by omega)) ns nb h

end Claripy.VSA
