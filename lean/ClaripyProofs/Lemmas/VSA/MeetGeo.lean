import ClaripyProofs.Lemmas.VSA.Basic
/-! Geometry of two arcs on the circle for the meet, in coordinates relative to the lower bound of the first arc
(`s = [0, S]`, `b = [p, q]`): in each configuration `_multi_valued_intersection` distinguishes, the common points lie on
one overlap arc along which the distances from both lower bounds grow in lockstep.  Every lemma is linear arithmetic
over the two cases of each clockwise distance. -/
namespace Claripy.VSA

theorem cd_cases (m a b : Nat) : (a ≤ b ∧ cd m a b = b - a) ∨ (b < a ∧ cd m a b = b + m - a) := by
  unfold cd; split <;> omega

set_option maxHeartbeats 1000000 in
/-- `s` surrounded by `b`: overlap = the arc of `s` -/
theorem geo_C1 (N S p q x n : Nat) (_hS : S < N) (_hp : p < N) (_hq : q < N) (_hx : x < N) (_hn : n < N)
    (g0 : cd N p 0 ≤ cd N p q ∧ cd N p S ≤ cd N p q ∧ ((p = 0 ∧ q = S) ∨ ¬ p ≤ S ∨ ¬ q ≤ S))
    (g1 : x ≤ S)
    (g2 : n ≤ S)
    (g3 : cd N p x ≤ cd N p q)
    (g4 : cd N p n ≤ cd N p q)
    (g5 : n ≤ x ∨ cd N p n ≤ cd N p x)
    :
    n ≤ x ∧ cd N p n ≤ cd N p x ∧ cd N n x ≤ cd N n S := by
  have c0 := cd_cases N p q
  have c1 := cd_cases N p 0
  have c2 := cd_cases N p S
  have c3 := cd_cases N p x
  have c4 := cd_cases N p n
  have c5 := cd_cases N n x
  have c6 := cd_cases N n S
  generalize cd N p q = d0 at *
  generalize cd N p 0 = d1 at *
  generalize cd N p S = d2 at *
  generalize cd N p x = d3 at *
  generalize cd N p n = d4 at *
  generalize cd N n x = d5 at *
  generalize cd N n S = d6 at *
  omega

set_option maxHeartbeats 1000000 in
/-- `b` surrounded by `s`: overlap = the arc of `b` -/
theorem geo_C2 (N S p q x n : Nat) (_hS : S < N) (_hp : p < N) (_hq : q < N) (_hx : x < N) (_hn : n < N)
    (g0 : p ≤ S ∧ q ≤ S ∧ ((0 = p ∧ S = q) ∨ ¬ cd N p 0 ≤ cd N p q ∨ ¬ cd N p S ≤ cd N p q))
    (g1 : x ≤ S)
    (g2 : n ≤ S)
    (g3 : cd N p x ≤ cd N p q)
    (g4 : cd N p n ≤ cd N p q)
    (g5 : n ≤ x ∨ cd N p n ≤ cd N p x)
    :
    n ≤ x ∧ cd N p n ≤ cd N p x ∧ cd N n x ≤ cd N n q := by
  have c0 := cd_cases N p q
  have c1 := cd_cases N p 0
  have c2 := cd_cases N p S
  have c3 := cd_cases N p x
  have c4 := cd_cases N p n
  have c5 := cd_cases N n x
  have c6 := cd_cases N n q
  generalize cd N p q = d0 at *
  generalize cd N p 0 = d1 at *
  generalize cd N p S = d2 at *
  generalize cd N p x = d3 at *
  generalize cd N p n = d4 at *
  generalize cd N n x = d5 at *
  generalize cd N n q = d6 at *
  omega

set_option maxHeartbeats 1000000 in
/-- mutual overlap, first arc `[s.lb, b.ub]` -/
theorem geo_C3a (N S p q x n : Nat) (_hS : S < N) (_hp : p < N) (_hq : q < N) (_hx : x < N) (_hn : n < N)
    (g0 : p ≤ S ∧ q ≤ S ∧ cd N p 0 ≤ cd N p q ∧ cd N p S ≤ cd N p q)
    (g1 : ¬ (cd N p 0 ≤ cd N p q ∧ cd N p S ≤ cd N p q ∧ ((p = 0 ∧ q = S) ∨ ¬ p ≤ S ∨ ¬ q ≤ S)))
    (g2 : ¬ (p ≤ S ∧ q ≤ S ∧ ((0 = p ∧ S = q) ∨ ¬ cd N p 0 ≤ cd N p q ∨ ¬ cd N p S ≤ cd N p q)))
    (g3 : x ≤ q)
    (g4 : n ≤ q)
    (g5 : x ≤ S)
    (g6 : n ≤ S)
    (g7 : cd N p x ≤ cd N p q)
    (g8 : cd N p n ≤ cd N p q)
    (g9 : n ≤ x ∨ cd N p n ≤ cd N p x)
    :
    n ≤ x ∧ cd N p n ≤ cd N p x ∧ cd N n x ≤ cd N n q := by
  have c0 := cd_cases N p q
  have c1 := cd_cases N p 0
  have c2 := cd_cases N p S
  have c3 := cd_cases N p x
  have c4 := cd_cases N p n
  have c5 := cd_cases N n x
  have c6 := cd_cases N n q
  generalize cd N p q = d0 at *
  generalize cd N p 0 = d1 at *
  generalize cd N p S = d2 at *
  generalize cd N p x = d3 at *
  generalize cd N p n = d4 at *
  generalize cd N n x = d5 at *
  generalize cd N n q = d6 at *
  omega

set_option maxHeartbeats 1000000 in
/-- mutual overlap, second arc `[b.lb, s.ub]` -/
theorem geo_C3b (N S p q x n : Nat) (_hS : S < N) (_hp : p < N) (_hq : q < N) (_hx : x < N) (_hn : n < N)
    (g0 : p ≤ S ∧ q ≤ S ∧ cd N p 0 ≤ cd N p q ∧ cd N p S ≤ cd N p q)
    (g1 : ¬ (cd N p 0 ≤ cd N p q ∧ cd N p S ≤ cd N p q ∧ ((p = 0 ∧ q = S) ∨ ¬ p ≤ S ∨ ¬ q ≤ S)))
    (g2 : ¬ (p ≤ S ∧ q ≤ S ∧ ((0 = p ∧ S = q) ∨ ¬ cd N p 0 ≤ cd N p q ∨ ¬ cd N p S ≤ cd N p q)))
    (g3 : cd N p x ≤ cd N p S)
    (g4 : cd N p n ≤ cd N p S)
    (g5 : x ≤ S)
    (g6 : n ≤ S)
    (g7 : cd N p x ≤ cd N p q)
    (g8 : cd N p n ≤ cd N p q)
    (g9 : n ≤ x ∨ cd N p n ≤ cd N p x)
    :
    n ≤ x ∧ cd N p n ≤ cd N p x ∧ cd N n x ≤ cd N n S := by
  have c0 := cd_cases N p q
  have c1 := cd_cases N p 0
  have c2 := cd_cases N p S
  have c3 := cd_cases N p x
  have c4 := cd_cases N p n
  have c5 := cd_cases N n x
  have c6 := cd_cases N n S
  generalize cd N p q = d0 at *
  generalize cd N p 0 = d1 at *
  generalize cd N p S = d2 at *
  generalize cd N p x = d3 at *
  generalize cd N p n = d4 at *
  generalize cd N n x = d5 at *
  generalize cd N n S = d6 at *
  omega

set_option maxHeartbeats 1000000 in
/-- mutual overlap: a common point lies on one of the two arcs -/
theorem geo_C3c (N S p q x n : Nat) (_hS : S < N) (_hp : p < N) (_hq : q < N) (_hx : x < N) (_hn : n < N)
    (g0 : p ≤ S ∧ q ≤ S ∧ cd N p 0 ≤ cd N p q ∧ cd N p S ≤ cd N p q)
    (g1 : ¬ (cd N p 0 ≤ cd N p q ∧ cd N p S ≤ cd N p q ∧ ((p = 0 ∧ q = S) ∨ ¬ p ≤ S ∨ ¬ q ≤ S)))
    (g2 : ¬ (p ≤ S ∧ q ≤ S ∧ ((0 = p ∧ S = q) ∨ ¬ cd N p 0 ≤ cd N p q ∨ ¬ cd N p S ≤ cd N p q)))
    (g3 : x ≤ S)
    (g4 : cd N p x ≤ cd N p q)
    :
    x ≤ q ∨ cd N p x ≤ cd N p S := by
  have c0 := cd_cases N p q
  have c1 := cd_cases N p 0
  have c2 := cd_cases N p S
  have c3 := cd_cases N p x
  generalize cd N p q = d0 at *
  generalize cd N p 0 = d1 at *
  generalize cd N p S = d2 at *
  generalize cd N p x = d3 at *
  omega

set_option maxHeartbeats 1000000 in
/-- `b.lb` inside `s`: overlap `[b.lb, s.ub]` -/
theorem geo_C4 (N S p q x n : Nat) (_hS : S < N) (_hp : p < N) (_hq : q < N) (_hx : x < N) (_hn : n < N)
    (g0 : p ≤ S)
    (g1 : ¬ (p ≤ S ∧ q ≤ S ∧ cd N p 0 ≤ cd N p q ∧ cd N p S ≤ cd N p q))
    (g2 : ¬ (cd N p 0 ≤ cd N p q ∧ cd N p S ≤ cd N p q ∧ ((p = 0 ∧ q = S) ∨ ¬ p ≤ S ∨ ¬ q ≤ S)))
    (g3 : ¬ (p ≤ S ∧ q ≤ S ∧ ((0 = p ∧ S = q) ∨ ¬ cd N p 0 ≤ cd N p q ∨ ¬ cd N p S ≤ cd N p q)))
    (g4 : x ≤ S)
    (g5 : n ≤ S)
    (g6 : cd N p x ≤ cd N p q)
    (g7 : cd N p n ≤ cd N p q)
    (g8 : n ≤ x ∨ cd N p n ≤ cd N p x)
    :
    n ≤ x ∧ cd N p n ≤ cd N p x ∧ cd N n x ≤ cd N n S := by
  have c0 := cd_cases N p q
  have c1 := cd_cases N p 0
  have c2 := cd_cases N p S
  have c3 := cd_cases N p x
  have c4 := cd_cases N p n
  have c5 := cd_cases N n x
  have c6 := cd_cases N n S
  generalize cd N p q = d0 at *
  generalize cd N p 0 = d1 at *
  generalize cd N p S = d2 at *
  generalize cd N p x = d3 at *
  generalize cd N p n = d4 at *
  generalize cd N n x = d5 at *
  generalize cd N n S = d6 at *
  omega

set_option maxHeartbeats 1000000 in
/-- `b.ub` inside `s`, `b.lb` outside: overlap `[s.lb, b.ub]` -/
theorem geo_C5 (N S p q x n : Nat) (_hS : S < N) (_hp : p < N) (_hq : q < N) (_hx : x < N) (_hn : n < N)
    (g0 : q ≤ S)
    (g1 : ¬ p ≤ S)
    (g2 : ¬ (cd N p 0 ≤ cd N p q ∧ cd N p S ≤ cd N p q ∧ ((p = 0 ∧ q = S) ∨ ¬ p ≤ S ∨ ¬ q ≤ S)))
    (g3 : ¬ (p ≤ S ∧ q ≤ S ∧ ((0 = p ∧ S = q) ∨ ¬ cd N p 0 ≤ cd N p q ∨ ¬ cd N p S ≤ cd N p q)))
    (g4 : x ≤ S)
    (g5 : n ≤ S)
    (g6 : cd N p x ≤ cd N p q)
    (g7 : cd N p n ≤ cd N p q)
    (g8 : n ≤ x ∨ cd N p n ≤ cd N p x)
    :
    n ≤ x ∧ cd N p n ≤ cd N p x ∧ cd N n x ≤ cd N n q := by
  have c0 := cd_cases N p q
  have c1 := cd_cases N p 0
  have c2 := cd_cases N p S
  have c3 := cd_cases N p x
  have c4 := cd_cases N p n
  have c5 := cd_cases N n x
  have c6 := cd_cases N n q
  generalize cd N p q = d0 at *
  generalize cd N p 0 = d1 at *
  generalize cd N p S = d2 at *
  generalize cd N p x = d3 at *
  generalize cd N p n = d4 at *
  generalize cd N n x = d5 at *
  generalize cd N n q = d6 at *
  omega

set_option maxHeartbeats 1000000 in
/-- `s.lb` inside `b`, both bounds of `b` outside `s` -/
theorem geo_C6 (N S p q x n : Nat) (_hS : S < N) (_hp : p < N) (_hq : q < N) (_hx : x < N) (_hn : n < N)
    (g0 : cd N p 0 ≤ cd N p q)
    (g1 : ¬ p ≤ S)
    (g2 : ¬ q ≤ S)
    (g3 : ¬ (cd N p 0 ≤ cd N p q ∧ cd N p S ≤ cd N p q ∧ ((p = 0 ∧ q = S) ∨ ¬ p ≤ S ∨ ¬ q ≤ S)))
    (g4 : ¬ (p ≤ S ∧ q ≤ S ∧ ((0 = p ∧ S = q) ∨ ¬ cd N p 0 ≤ cd N p q ∨ ¬ cd N p S ≤ cd N p q)))
    (g5 : x ≤ S)
    (g6 : n ≤ S)
    (g7 : cd N p x ≤ cd N p q)
    (g8 : cd N p n ≤ cd N p q)
    (g9 : n ≤ x ∨ cd N p n ≤ cd N p x)
    :
    n ≤ x ∧ cd N p n ≤ cd N p x ∧ cd N n x ≤ cd N n q := by
  have c0 := cd_cases N p q
  have c1 := cd_cases N p 0
  have c2 := cd_cases N p S
  have c3 := cd_cases N p x
  have c4 := cd_cases N p n
  have c5 := cd_cases N n x
  have c6 := cd_cases N n q
  generalize cd N p q = d0 at *
  generalize cd N p 0 = d1 at *
  generalize cd N p S = d2 at *
  generalize cd N p x = d3 at *
  generalize cd N p n = d4 at *
  generalize cd N n x = d5 at *
  generalize cd N n q = d6 at *
  omega

set_option maxHeartbeats 1000000 in
/-- `s.ub` inside `b`, nothing else -/
theorem geo_C7 (N S p q x n : Nat) (_hS : S < N) (_hp : p < N) (_hq : q < N) (_hx : x < N) (_hn : n < N)
    (g0 : cd N p S ≤ cd N p q)
    (g1 : ¬ p ≤ S)
    (g2 : ¬ q ≤ S)
    (g3 : ¬ cd N p 0 ≤ cd N p q)
    (g4 : ¬ (cd N p 0 ≤ cd N p q ∧ cd N p S ≤ cd N p q ∧ ((p = 0 ∧ q = S) ∨ ¬ p ≤ S ∨ ¬ q ≤ S)))
    (g5 : ¬ (p ≤ S ∧ q ≤ S ∧ ((0 = p ∧ S = q) ∨ ¬ cd N p 0 ≤ cd N p q ∨ ¬ cd N p S ≤ cd N p q)))
    (g6 : x ≤ S)
    (g7 : n ≤ S)
    (g8 : cd N p x ≤ cd N p q)
    (g9 : cd N p n ≤ cd N p q)
    (g10 : n ≤ x ∨ cd N p n ≤ cd N p x)
    :
    n ≤ x ∧ cd N p n ≤ cd N p x ∧ cd N n x ≤ cd N n S := by
  have c0 := cd_cases N p q
  have c1 := cd_cases N p 0
  have c2 := cd_cases N p S
  have c3 := cd_cases N p x
  have c4 := cd_cases N p n
  have c5 := cd_cases N n x
  have c6 := cd_cases N n S
  generalize cd N p q = d0 at *
  generalize cd N p 0 = d1 at *
  generalize cd N p S = d2 at *
  generalize cd N p x = d3 at *
  generalize cd N p n = d4 at *
  generalize cd N n x = d5 at *
  generalize cd N n S = d6 at *
  omega

set_option maxHeartbeats 1000000 in
/-- no bound of one arc inside the other: the arcs are disjoint -/
theorem geo_none (N S p q x n : Nat) (_hS : S < N) (_hp : p < N) (_hq : q < N) (_hx : x < N) (_hn : n < N)
    (g0 : ¬ p ≤ S)
    (g1 : ¬ q ≤ S)
    (g2 : ¬ cd N p 0 ≤ cd N p q)
    (g3 : ¬ cd N p S ≤ cd N p q)
    (g4 : x ≤ S)
    (g5 : cd N p x ≤ cd N p q)
    :
    False := by
  have c0 := cd_cases N p q
  have c1 := cd_cases N p 0
  have c2 := cd_cases N p S
  have c3 := cd_cases N p x
  generalize cd N p q = d0 at *
  generalize cd N p 0 = d1 at *
  generalize cd N p S = d2 at *
  generalize cd N p x = d3 at *
  omega

end Claripy.VSA
