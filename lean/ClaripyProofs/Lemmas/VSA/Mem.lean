import ClaripyProofs.Lemmas.VSA.Basic
/-! Membership in closed form; membership and well-formedness of `SI.new`, `SI.top`. -/
namespace Claripy.VSA

theorem mem_iff (s : SI) (x : Nat) (hlb : s.lb < 2 ^ s.bits) (hub : s.ub < 2 ^ s.bits) :
    s.mem x ↔ s.bottom = false ∧ x < 2 ^ s.bits ∧ cd (2 ^ s.bits) s.lb x ≤ cd (2 ^ s.bits) s.lb s.ub ∧
      (if s.stride = 0 then cd (2 ^ s.bits) s.lb x = 0 else cd (2 ^ s.bits) s.lb x % s.stride = 0) := by
  unfold SI.mem SI.span
  constructor
  · rintro ⟨h1, h2, h3, h4⟩
    rw [modSub_nat _ _ _ h2 hlb] at h3 h4
    rw [modSub_nat _ _ _ hub hlb] at h3
    exact ⟨h1, h2, h3, h4⟩
  · rintro ⟨h1, h2, h3, h4⟩
    rw [modSub_nat _ _ _ h2 hlb, modSub_nat _ _ _ hub hlb]
    exact ⟨h1, h2, h3, h4⟩

/-- `SI.new` with the two tests in sequence -/
theorem new_eq (b s : Nat) (l u : Int) :
    SI.new b s l u =
      if imod l b = imod u b then { bits := b, stride := 0, lb := imod l b, ub := imod u b }
      else if imod l b = (imod u b + 1) % 2 ^ b ∧ s = 1 then { bits := b, stride := s, lb := 0, ub := 2 ^ b - 1 }
      else { bits := b, stride := s, lb := imod l b, ub := imod u b } := by
  have hcast : ((imod u b : Int) + 1) = ((imod u b + 1 : Nat) : Int) := by push_cast; rfl
  simp only [SI.new, modAdd, maxInt, hcast, imod_nat]
  by_cases h : imod l b = imod u b
  · simp [h]
  · simp [h]

@[simp] theorem new_bits (b s : Nat) (l u : Int) : (SI.new b s l u).bits = b := by
  rw [new_eq]; split; rfl; split <;> rfl

@[simp] theorem new_bottom (b s : Nat) (l u : Int) : (SI.new b s l u).bottom = false := by
  rw [new_eq]; split; rfl; split <;> rfl

theorem new_lb_lt (b s : Nat) (l u : Int) : (SI.new b s l u).lb < 2 ^ b := by
  rw [new_eq]; split; exact imod_lt _ _; split; exact two_pow_pos' b; exact imod_lt _ _

theorem new_ub_lt (b s : Nat) (l u : Int) : (SI.new b s l u).ub < 2 ^ b := by
  have := two_pow_pos' b
  rw [new_eq]; split; exact imod_lt _ _; split; (show 2 ^ b - 1 < 2 ^ b; omega); exact imod_lt _ _

theorem succ_mod_cases (u m : Nat) (hu : u < m) : (u + 1) % m = if u + 1 < m then u + 1 else 0 := by
  split
  · exact Nat.mod_eq_of_lt ‹_›
  · have : u + 1 = m := by omega
    rw [this, Nat.mod_self]

theorem cd_lt (m a b : Nat) (ha : a < m) (_hb : b < m) : cd m a b < m := by
  unfold cd; split_ifs <;> omega

theorem cd_self (m a : Nat) : cd m a a = 0 := by
  unfold cd; simp

theorem cd_zero (m x : Nat) : cd m 0 x = x := by
  unfold cd; simp

theorem cd_eq_zero (m a b : Nat) (ha : a < m) (_hb : b < m) : cd m a b = 0 ↔ a = b := by
  unfold cd; split_ifs <;> omega

theorem cd_succ (m l u : Nat) (hl : l < m) (hu : u < m) (h : l = (u + 1) % m) (_hne : l ≠ u) : cd m l u = m - 1 := by
  rw [succ_mod_cases _ _ hu] at h
  unfold cd
  split_ifs at h ⊢ <;> omega

/-- Membership in a freshly constructed (normalised) interval, in terms of the reduced bounds. -/
theorem mem_new (b s : Nat) (l u : Int) (x : Nat) :
    (SI.new b s l u).mem x ↔ x < 2 ^ b ∧ cd (2 ^ b) (imod l b) x ≤ cd (2 ^ b) (imod l b) (imod u b) ∧
      (if s = 0 then cd (2 ^ b) (imod l b) x = 0 else cd (2 ^ b) (imod l b) x % s = 0) := by
  have hl := imod_lt l b
  have hu := imod_lt u b
  have hm := two_pow_pos' b
  rw [mem_iff _ _ (by simpa using new_lb_lt b s l u) (by simpa using new_ub_lt b s l u)]
  simp only [new_bits, new_bottom, true_and]
  rw [new_eq]
  generalize imod l b = l' at *
  generalize imod u b = u' at *
  by_cases h1 : l' = u'
  · rw [if_pos h1]
    subst h1
    simp only [cd_self, Nat.le_zero, if_true]
    by_cases hs : s = 0
    · simp [hs]
    · simp only [hs, if_false]
      constructor
      · rintro ⟨hx, h2, h3⟩
        refine ⟨hx, h2, ?_⟩
        rw [h3]; exact Nat.zero_mod _
      · rintro ⟨hx, h2, _⟩
        exact ⟨hx, h2, h2⟩
  · rw [if_neg h1]
    by_cases h2 : l' = (u' + 1) % 2 ^ b ∧ s = 1
    · rw [if_pos h2]
      obtain ⟨h2a, h2b⟩ := h2
      subst h2b
      simp only [Nat.mod_one, Nat.one_ne_zero, if_false, and_true, cd_zero]
      rw [cd_succ _ _ _ hl hu h2a h1]
      constructor
      · rintro ⟨hx, _⟩
        have := cd_lt _ _ _ hl hx
        exact ⟨hx, by omega⟩
      · rintro ⟨hx, _⟩
        exact ⟨hx, by omega⟩
    · rw [if_neg h2]

theorem imod_zero (w : Nat) : imod 0 w = 0 := by unfold imod; simp

theorem mem_top (w x : Nat) : (SI.top w).mem x ↔ x < 2 ^ w := by
  unfold SI.top
  rw [mem_new]
  have hm := two_pow_pos' w
  have h1 : imod ((maxInt w : Nat) : Int) w = 2 ^ w - 1 := imod_of_lt _ w (by unfold maxInt; omega)
  rw [imod_zero, h1]
  simp only [cd_zero, Nat.one_ne_zero, if_false, Nat.mod_one, and_true]
  constructor
  · exact fun h => h.1
  · exact fun h => ⟨h, by omega⟩

theorem new_WF (b s : Nat) (l u : Int) (hb : 0 < b) (h : s = 0 → imod l b = imod u b) : (SI.new b s l u).WF := by
  have hl := imod_lt l b
  have hu := imod_lt u b
  have hm : 2 ≤ 2 ^ b := by
    have : 2 ^ 1 ≤ 2 ^ b := Nat.pow_le_pow_right (by omega) hb
    simpa using this
  unfold SI.WF
  rw [new_eq]
  by_cases h1 : imod l b = imod u b
  · rw [if_pos h1]
    exact ⟨hb, hl, hu, by simp [h1]⟩
  · rw [if_neg h1]
    by_cases h2 : imod l b = (imod u b + 1) % 2 ^ b ∧ s = 1
    · rw [if_pos h2]
      obtain ⟨_, hs1⟩ := h2
      subst hs1
      refine ⟨hb, ?_, ?_, ?_⟩
      · show 0 < 2 ^ b; omega
      · show 2 ^ b - 1 < 2 ^ b; omega
      · show (1 = 0 ↔ 0 = 2 ^ b - 1)
        constructor
        · intro hs; cases hs
        · intro hh; omega
    · rw [if_neg h2]
      refine ⟨hb, hl, hu, ?_⟩
      constructor
      · intro hs; exact absurd (h hs) h1
      · intro hh; exact absurd hh h1

theorem top_WF (w : Nat) (hw : 0 < w) : (SI.top w).WF := by
  unfold SI.top
  exact new_WF w 1 0 _ hw (by intro h; cases h)

theorem top_bits (w : Nat) : (SI.top w).bits = w := by unfold SI.top; simp

end Claripy.VSA
