import ClaripyProofs.Lemmas.VSA.ModFull3
/-! **`__mod__` is sound and closed for every divisor**, aligned or not. -/
namespace Claripy.VSA

/-- a non-wrapping, constructor-normal interval inside one half of the circle is its own only piece -/
theorem psplit_nostraddle (s : SI) (hn : Nrm s) (hle : s.lb ≤ s.ub)
    (hns : s.ub < 2 ^ (s.bits - 1) ∨ 2 ^ (s.bits - 1) ≤ s.lb) : s.psplit = .ok [s] := by
  have hH := two_pow_pos' (s.bits - 1)
  have hstr : ¬ ((if s.ub ≥ 2 ^ (s.bits - 1) then (decide (s.lb > s.ub) || decide (s.lb ≤ maxInt (s.bits - 1)))
          else (decide (s.lb > s.ub) && decide (s.lb ≤ maxInt (s.bits - 1)))) = true) := by
    unfold maxInt
    split_ifs <;> simp <;> omega
  have hnsp : s.nsplit = .ok [s] := by
    unfold SI.nsplit
    simp only []
    rw [if_neg hstr, hn]; rfl
  have hss : s.ssplit = .ok [s] := by
    unfold SI.ssplit; rw [if_neg (by omega), hn]; rfl
  rw [psplit_eq, hnsp]
  show ssplitAll [s] [] = _
  unfold ssplitAll
  rw [hss]
  rfl

/-- one pair `({k}, b)` of pieces of `mul`: closed; and sound when `b` is a proper piece whose multiples do not overflow -/
theorem mulPair_single (w k : Nat) (a b : SI) (ha : Single w k a) (hb : WFw w b) (hbb : b.bottom = false)
    (hle : b.lb ≤ b.ub) (hhalf : b.ub < 2 ^ (w - 1) ∨ 2 ^ (w - 1) ≤ b.lb) (l : List SI) (h : mulPair a b = .ok l) :
    (∀ r, r ∈ l → WFw w r) ∧
    (b.lb ≠ b.ub → k < 2 ^ (w - 1) → k * b.ub < 2 ^ w → (2 ^ (w - 1) ≤ b.lb → k ≤ 1) →
      ∀ y, b.mem y → ∃ r, r ∈ l ∧ r.mem (k * y)) := by
  unfold mulPair at h
  obtain ⟨sm, hsm, h⟩ := bind_ok' h
  obtain ⟨u1, u2⟩ := umul_single_WF w k a b ha hb
  obtain ⟨s1, s2⟩ := smul_single_WF w k a b sm ha hb hsm
  refine ⟨multiMeet_WF w _ sm u1 s1 u2 s2 l h, ?_⟩
  intro hbi hk hno hhi y hy
  have eU := umul_single_eq w k a b ha hb hbi hle hno
  have eS := smul_single_eq w k a b ha hb hbi hle hhalf hk hno hhi
  rw [eS] at hsm
  have : sm = SI.new w (k * b.stride) ((k * b.lb : Nat) : Int) ((k * b.ub : Nat) : Int) := by injection hsm with h'; exact h'.symm
  subst this
  rw [eU] at h u1
  have hlu : k * b.lb ≤ k * b.ub := Nat.mul_le_mul_left _ hle
  exact multiMeet_self w _ u1 (new_bottom _ _ _ _) (new_nowrap w _ _ _ (by omega) hno hlu) l h (k * y)
    (umul_single_mem w k b hb hbb hle hno y hy)

/-- **`{k} * t`** for a non-wrapping interval `t` that need not be aligned: closed; and it contains `k·y` for every member `y`
when `k·t.ub` does not overflow and `k` has no sign bit -/
theorem mul_single_sound (w k : Nat) (q t m : SI) (hq : Single w k q) (nq : Nrm q) (ht : WFw w t) (htb : t.bottom = false)
    (nt : Nrm t) (hle : t.lb ≤ t.ub) (h : q.mul t = .ok m) :
    WFw w m ∧ (t.lb ≠ t.ub → k < 2 ^ (w - 1) → k * t.ub < 2 ^ w → ∀ y, t.mem y → m.mem (k * y)) := by
  have hw0 : 0 < w := by rw [← ht.2]; exact ht.1.1
  have hm2 := two_pow_half w hw0
  have htu : t.ub < 2 ^ w := by have := ht.1.2.2.1; rwa [ht.2] at this
  rw [mul_eq] at h
  by_cases hint : (q.isInteger && t.isInteger) = true
  · rw [if_pos hint] at h
    have hr := pure_ok' h
    have hi : q.lb = q.ub ∧ t.lb = t.ub := by simpa [SI.isInteger] using hint
    rw [hr, hq.wf.2]
    exact ⟨⟨new_WF _ _ _ _ hw0 (fun _ => rfl), new_bits _ _ _ _⟩, fun hne => absurd hi.2 hne⟩
  · rw [if_neg hint] at h
    obtain ⟨p1, hp1, h⟩ := bind_ok' h
    obtain ⟨p2, hp2, h⟩ := bind_ok' h
    obtain ⟨all, hall, h⟩ := bind_ok' h
    obtain ⟨u, hu, h⟩ := bind_ok' h
    have hr := pure_ok' h
    -- the single value is its own only piece
    have hqH : q.ub < 2 ^ (q.bits - 1) ∨ 2 ^ (q.bits - 1) ≤ q.lb := by rw [hq.lb, hq.ub]; omega
    have e1 := psplit_nostraddle q nq (by rw [hq.lb, hq.ub]) hqH
    rw [hp1] at e1
    have hp1' : p1 = [q] := by injection e1
    subst hp1'
    obtain ⟨q2, e2, pr2, cov2⟩ := psplit_spec t ht.1 htb nt
    rw [hp2] at e2; cases e2
    rw [ht.2] at pr2
    have hmem := mulOuter_mem p2 [q] [] all hall
    have hP : ∀ r, r ∈ all → WFw w r := by
      intro r hr'
      rcases (hmem r).1 hr' with h1 | ⟨a, b, lab, ha, hb, hl, hql⟩
      · cases h1
      · have : a = q := by simpa using ha
        subst this
        obtain ⟨c1, c2, c3, c4, _, _⟩ := pr2 b hb
        exact (mulPair_single w k a b hq c1 c2 c3 c4 lab hl).1 r hql
    obtain ⟨m1, m2⟩ := lub_sup w all u hP hu
    rw [hr]
    refine ⟨renorm_WFw w u m1, ?_⟩
    intro hti hk hno y hy
    obtain ⟨b, hb, hby⟩ := cov2 y hy
    obtain ⟨c1, c2, c3, c4, _, _⟩ := pr2 b hb
    obtain ⟨lab, hl⟩ := mulOuter_ok p2 [q] [] all hall q b List.mem_cons_self hb
    have hbu : b.ub < 2 ^ w := by have := c1.1.2.2.1; rwa [c1.2] at this
    apply (renorm_mem u m1.1 _).2
    -- a piece that is a single value is aligned: the general theorem applies; otherwise `mulPair_single`
    by_cases hbi : b.lb = b.ub
    · have hqP : PieceOK w q := ⟨hq.wf, hq.nb, by rw [hq.lb, hq.ub], by rw [hq.lb, hq.ub]; omega,
        by left; exact hq.stride⟩
      have hbP : PieceOK w b := ⟨c1, c2, c3, c4, by left; exact c1.1.2.2.2.2 hbi⟩
      have hqk : q.mem k := by have := mem_lb q hq.wf.1 hq.nb; rwa [hq.lb] at this
      obtain ⟨r', hr', hm⟩ := (mulPair_sound w q b hqP hbP lab hl).2 k y hqk hby
      have hyl : y ≤ t.ub := (mem_between t w ht hle y hy).2
      have hky : k * y < 2 ^ w := Nat.lt_of_le_of_lt (Nat.mul_le_mul_left _ hyl) hno
      rw [Nat.mod_eq_of_lt hky] at hm
      exact m2 _ ⟨r', (hmem r').2 (Or.inr ⟨q, b, lab, List.mem_cons_self, hb, hl, hr'⟩), hm⟩
    · -- no overflow on the piece: either `t` is its own piece, or it straddles the north pole and then `k ≤ 1`
      have hnob : k * b.ub < 2 ^ w ∧ (2 ^ (w - 1) ≤ b.lb → k ≤ 1) := by
        by_cases hst : t.ub < 2 ^ (w - 1) ∨ 2 ^ (w - 1) ≤ t.lb
        · have e := psplit_nostraddle t nt hle (by rw [ht.2]; exact hst)
          rw [hp2] at e
          have : p2 = [t] := by injection e
          subst this
          have : b = t := by simpa using hb
          subst this
          refine ⟨hno, fun hh => ?_⟩
          have : k * 2 ^ (w - 1) ≤ k * b.ub := Nat.mul_le_mul_left _ (by omega)
          by_cases hk2 : k ≤ 1
          · exact hk2
          · have : 2 * 2 ^ (w - 1) ≤ k * 2 ^ (w - 1) := Nat.mul_le_mul_right _ (by omega)
            omega
        · have hk1 : k ≤ 1 := by
            by_cases hk2 : k ≤ 1
            · exact hk2
            · have h1 : k * 2 ^ (w - 1) ≤ k * t.ub := Nat.mul_le_mul_left _ (by omega)
              have h2 : 2 * 2 ^ (w - 1) ≤ k * 2 ^ (w - 1) := Nat.mul_le_mul_right _ (by omega)
              omega
          refine ⟨?_, fun _ => hk1⟩
          have : k * b.ub ≤ 1 * b.ub := Nat.mul_le_mul_right _ hk1
          omega
      obtain ⟨r', hr', hm⟩ := (mulPair_single w k q b hq c1 c2 c3 c4 lab hl).2 hbi hk hnob.1 hnob.2 y hby
      exact m2 _ ⟨r', (hmem r').2 (Or.inr ⟨q, b, lab, List.mem_cons_self, hb, hl, hr'⟩), hm⟩

theorem new_lb_nowrap (w st l u : Nat) (hu : u < 2 ^ w) (hle : l ≤ u) : (SI.new w st (l : Int) (u : Int)).lb = l := by
  have hl : l < 2 ^ w := by omega
  rw [new_eq, imod_of_lt _ _ hl, imod_of_lt _ _ hu]
  split
  · rfl
  · split
    · rename_i h
      have h1 := h.1
      rw [succ_mod_cases _ _ hu] at h1
      split_ifs at h1
      · omega
      · exact h1.symm
    · rfl

/-- the quotient interval of two non-wrapping pieces, divisor piece not `{0}`-bounded above: its lower bound is
`p.lb / t.ub` -/
theorem udivPiece_lb (w : Nat) (p t q : SI) (hp : WFw w p) (ht : WFw w t) (pb : p.bottom = false) (tb : t.bottom = false)
    (ple : p.lb ≤ p.ub) (tle : t.lb ≤ t.ub) (htu0 : t.ub ≠ 0) (h : udivPiece p t = .ok q) : q.lb = p.lb / t.ub := by
  have hw0 : 0 < w := by rw [← hp.2]; exact hp.1.1
  have hpu : p.ub < 2 ^ w := by have := hp.1.2.2.1; rwa [hp.2] at this
  unfold udivPiece at h
  rw [ssplit_nowrap p (by omega), ssplit_nowrap t (by omega)] at h
  simp only [bind, Except.bind, List.map_cons, List.map_nil, List.flatten_cons, List.flatten_nil, List.append_nil] at h
  have hd : dedupe [wrappedUnsignedDiv p.renorm t.renorm] = [wrappedUnsignedDiv p.renorm t.renorm] := by
    unfold dedupe; simp
  rw [hd] at h
  have hq := pure_ok' h
  obtain ⟨pr1, pr2⟩ := renorm_bounds_nowrap p hp.1 pb ple
  obtain ⟨tr1, tr2⟩ := renorm_bounds_nowrap t ht.1 tb tle
  have hbits : Nat.max p.renorm.bits t.renorm.bits = w := by
    rw [(renorm_WFw w p hp).2, (renorm_WFw w t ht).2]; exact Nat.max_self _
  rw [hq]
  unfold wrappedUnsignedDiv
  simp only [hbits, pr1, pr2, tr1, tr2]
  rw [if_neg (by omega), if_neg htu0, new_renorm _ _ _ _ hw0]
  have hdl : (if t.lb = 0 then 1 else t.lb) ≤ t.ub ∧ 0 < (if t.lb = 0 then 1 else t.lb) := by split_ifs <;> omega
  have hlohi : p.lb / t.ub ≤ p.ub / (if t.lb = 0 then 1 else t.lb) :=
    Nat.div_le_div ple hdl.1 (by omega)
  exact new_lb_nowrap w 1 _ _ (Nat.lt_of_le_of_lt (Nat.div_le_self _ _) hpu) hlohi

/-- **one pair of pieces of `__mod__`** — the divisor piece need not be aligned -/
theorem modPair_full (w : Nat) (p t : SI) (hp : WFw w p) (ht : WFw w t) (pb : p.bottom = false) (tb : t.bottom = false)
    (ple : p.lb ≤ p.ub) (tle : t.lb ≤ t.ub) (tn : Nrm t) (l : List SI) (h : modPair w p t = .ok l) :
    (∀ r, r ∈ l → WFw w r) ∧ ∀ x y, p.mem x → t.mem y → y ≠ 0 → ∃ r, r ∈ l ∧ r.mem (x % y) := by
  by_cases tA : t.Aligned
  · exact modPair_sound w p t hp ht pb tb ple tle tA tn l h
  have hw0 : 0 < w := by rw [← hp.2]; exact hp.1.1
  have hm2 := two_pow_half w hw0
  have hti : t.lb ≠ t.ub := fun he => tA (by left; exact ht.1.2.2.2.2 he)
  have hpl : p.lb < 2 ^ w := by have := hp.1.2.1; rwa [hp.2] at this
  have htu : t.ub < 2 ^ w := by have := ht.1.2.2.1; rwa [ht.2] at this
  have htu0 : t.ub ≠ 0 := by omega
  unfold modPair at h
  obtain ⟨q, hq, h⟩ := bind_ok' h
  obtain ⟨card, hc, h⟩ := bind_ok' h
  obtain ⟨qw, qn, qal, qm⟩ := udivPiece_spec w p t q hp ht pb tb ple tle hq
  by_cases h1 : card = 1
  · rw [if_pos h1] at h
    obtain ⟨m, hm, h⟩ := bind_ok' h
    have hl := pure_ok' h
    subst hl
    rw [h1] at hc
    obtain ⟨k, hk, hkall⟩ := single_member q qw.1 hc
    have qb : q.bottom = false := hk.1
    -- the quotient interval is aligned with one member: it is the single value `k`
    have e1 := hkall q.lb (mem_lb q qw.1 qb)
    have e2 := hkall q.ub (mem_ub_of_aligned q qw.1 qb (qal qb))
    have hqS : Single w k q := ⟨qw, qb, e1, e2⟩
    have hklb : k * t.ub ≤ p.lb := by
      have := udivPiece_lb w p t q hp ht pb tb ple tle htu0 hq
      rw [e1] at this
      rw [this]; exact Nat.div_mul_le_self _ _
    have hno : k * t.ub < 2 ^ w := by omega
    obtain ⟨mw, mm⟩ := mul_single_sound w k q t m hqS qn ht tb tn tle hm
    have hbits : p.bits = m.bits := by rw [hp.2, mw.2]
    obtain ⟨sw, sb⟩ := sub_WF p m hp.1 mw.1 hbits
    refine ⟨?_, ?_⟩
    · intro r hr
      rw [List.mem_singleton] at hr
      rw [hr]; exact ⟨sw, by rw [sb, hp.2]⟩
    · intro x y hx hy hy0
      refine ⟨_, List.mem_cons_self, ?_⟩
      have hk' : x / y = k := hkall _ (qm x y hx hy hy0)
      have hxl : x < 2 ^ w := by have := hx.2.1; rwa [hp.2] at this
      have hmul : k * y ≤ x := by rw [← hk']; exact Nat.div_mul_le_self x y
      -- a non-zero member below the upper bound: `t.ub ≥ 2`, so `k` has no sign bit
      obtain ⟨_, hy2⟩ := mem_between t w ht tle y hy
      have hyub : y < t.ub := by
        rcases Nat.lt_or_ge y t.ub with hlt | hge
        · exact hlt
        · exfalso
          apply tA
          have : y = t.ub := by omega
          rw [this] at hy
          exact aligned_of_mem_ub t hy
      have hk2 : k < 2 ^ (w - 1) := by
        by_contra hge
        have h1 : 2 ^ (w - 1) * t.ub ≤ k * t.ub := Nat.mul_le_mul_right _ (by omega)
        have h2 : 2 ^ (w - 1) * 2 ≤ 2 ^ (w - 1) * t.ub := Nat.mul_le_mul_left _ (by omega)
        omega
      have hmem := mm hti hk2 hno y hy
      have := sub_sound p m x (k * y) hbits hp.1 mw.1 hx hmem
      rw [hp.2] at this
      have e : (x + 2 ^ w - k * y) % 2 ^ w = x % y := by
        have h2 : x + 2 ^ w - k * y = (x - k * y) + 2 ^ w := by omega
        rw [h2, Nat.add_mod_right, Nat.mod_eq_of_lt (by omega)]
        have := Nat.div_add_mod x y
        rw [hk'] at this
        have e3 : y * k = k * y := Nat.mul_comm _ _
        omega
      rw [e] at this
      exact this
  · rw [if_neg h1] at h
    have hl := pure_ok' h
    subst hl
    refine ⟨?_, ?_⟩
    · intro r hr
      rw [List.mem_singleton] at hr
      rw [hr]; exact new_WF_nz w 1 _ _ hw0 (by decide)
    · intro x y hx hy hy0
      refine ⟨_, List.mem_cons_self, ?_⟩
      obtain ⟨_, hy2⟩ := mem_between t w ht tle y hy
      have hlt := Nat.mod_lt x (Nat.pos_of_ne_zero hy0)
      have e : (t.ub : Int) - 1 = ((t.ub - 1 : Nat) : Int) := by omega
      rw [e]
      have : (0 : Int) = ((0 : Nat) : Int) := rfl
      rw [this]
      apply mem_new_of w 1 0 (t.ub - 1) (x % y) (two_pow_pos' w) (by omega) (by omega)
      · rw [cd_zero, cd_zero]; omega
      · exact Nat.one_dvd _
      · intro hh; cases hh

/-- **`__mod__` is sound and closed for every divisor** (aligned or not; division by zero exempt) -/
theorem mod_sound_full (w : Nat) (s o r : SI) (hs : WFw w s) (ho : WFw w o) (hsb : s.bottom = false) (hob : o.bottom = false)
    (h : s.mod o = .ok r) : (WFw w r ∧ Nrm r) ∧ ∀ x y, s.mem x → o.mem y → y ≠ 0 → r.mem (x % y) := by
  have hw0 : 0 < w := by rw [← hs.2]; exact hs.1.1
  rw [mod_eq] at h
  by_cases c1 : (o.isInteger && o.lb == 0) = true
  · rw [if_pos c1] at h
    have hr := pure_ok' h
    have hi : o.lb = o.ub ∧ o.lb = 0 := by simpa [SI.isInteger] using c1
    rw [hr, ho.2]
    refine ⟨⟨empty_WFw w hw0, by unfold Nrm SI.renorm SI.empty; simp⟩, ?_⟩
    intro x y _ hy hy0
    have := mem_integer o y ho.1 hi.1 hy
    omega
  · rw [if_neg c1] at h
    by_cases c2 : (s.isInteger && o.isInteger) = true
    · rw [if_pos c2] at h
      have hr := pure_ok' h
      have hi : s.lb = s.ub ∧ o.lb = o.ub := by simpa [SI.isInteger] using c2
      have hsl : s.lb < 2 ^ w := by have := hs.1.2.1; rwa [hs.2] at this
      have hv : s.lb % o.lb < 2 ^ w := Nat.lt_of_le_of_lt (Nat.mod_le _ _) hsl
      rw [hr, hs.2]
      refine ⟨⟨⟨const_WF _ w hw0, new_bits _ _ _ _⟩, nrm_new _ _ _ _ hw0⟩, ?_⟩
      intro x y hx hy _
      rw [mem_integer s x hs.1 hi.1 hx, mem_integer o y ho.1 hi.2 hy]
      exact const_mem _ w hv
    · rw [if_neg c2] at h
      obtain ⟨ss, hss, h⟩ := bind_ok' h
      obtain ⟨ts, hts, h⟩ := bind_ok' h
      obtain ⟨all, hall, h⟩ := bind_ok' h
      obtain ⟨u, hu, h⟩ := bind_ok' h
      have hr := pure_ok' h
      obtain ⟨q1, e1, pr1, cov1, _⟩ := ssplit_spec s hs.1 hsb
      obtain ⟨q2, e2, pr2, cov2, _⟩ := ssplit_spec o ho.1 hob
      rw [hss] at e1; cases e1
      rw [hts] at e2; cases e2
      rw [hs.2] at pr1 hall
      rw [ho.2] at pr2
      have nr2 := ssplit_nrm o ho.1 ts hts
      have pair : ∀ p t, p ∈ ss → t ∈ ts → ∀ l, modPair w p t = .ok l →
          (∀ r, r ∈ l → WFw w r) ∧ ∀ x y, p.mem x → t.mem y → y ≠ 0 → ∃ r, r ∈ l ∧ r.mem (x % y) := by
        intro p t hp ht l hl
        obtain ⟨a1, a2, a3, _⟩ := pr1 p hp
        obtain ⟨b1, b2, b3, _⟩ := pr2 t ht
        exact modPair_full w p t a1 b1 a2 b2 a3 b3 (nr2 t ht) l hl
      have hmem := pairOuter_mem (modPair w) ts ss [] all hall
      have hP : ∀ q, q ∈ all → WFw w q := by
        intro q hq
        rcases (hmem q).1 hq with h1 | ⟨p, t, l, hp, ht, hl, hql⟩
        · cases h1
        · exact (pair p t hp ht l hl).1 q hql
      obtain ⟨m1, m2⟩ := lub_sup w all u hP hu
      rw [hr]
      refine ⟨⟨renorm_WFw w u m1, nrm_of_renorm u _ rfl (renorm_WFw w u m1).1⟩, ?_⟩
      intro x y hx hy hy0
      obtain ⟨p, hp, hpx⟩ := cov1 x hx
      obtain ⟨t, ht, hty⟩ := cov2 y hy
      obtain ⟨l, hl⟩ := pairOuter_ok (modPair w) ts ss [] all hall p t hp ht
      obtain ⟨r', hr', hm⟩ := (pair p t hp ht l hl).2 x y hpx hty hy0
      apply (renorm_mem u m1.1 _).2
      exact m2 _ ⟨r', (hmem r').2 (Or.inr ⟨p, t, l, hp, ht, hl, hr'⟩), hm⟩

end Claripy.VSA
