import ClaripyProofs.Lemmas.VSA.Warren
import ClaripyProofs.Lemmas.VSA.NotExt
import ClaripyProofs.Lemmas.VSA.Extract
/-! `bitwise_or` is sound and closed: per pair of non-wrapping pieces the low `t` bits (`2^t` divides both strides) are
constant, the part above is bounded by Warren's `min_or`/`max_or`; the pieces are joined by `least_upper_bound`. -/
namespace Claripy.VSA

theorem clearLow_eq (x st w : Nat) (hx : x < 2 ^ w) : clearLow x st w = x / 2 ^ st * 2 ^ st := by
  unfold clearLow
  rw [Nat.mod_eq_of_lt hx, Nat.shiftLeft_eq, Nat.shiftRight_eq_div_pow]

theorem floor_or (x y t : Nat) : x / 2 ^ t * 2 ^ t ||| y / 2 ^ t * 2 ^ t = (x / 2 ^ t ||| y / 2 ^ t) * 2 ^ t := by
  have hp := two_pow_pos' t
  have h := split_at (x / 2 ^ t * 2 ^ t ||| y / 2 ^ t * 2 ^ t) t
  rw [or_div_pow, Nat.or_mod_two_pow, Nat.mul_div_cancel _ hp, Nat.mul_div_cancel _ hp, Nat.mul_mod_left,
    Nat.mul_mod_left] at h
  simp only [Nat.or_self, Nat.add_zero] at h
  rw [h, Nat.mul_comm]

theorem or_split (x y t : Nat) : x ||| y = (x / 2 ^ t ||| y / 2 ^ t) * 2 ^ t + (x % 2 ^ t ||| y % 2 ^ t) := by
  have h := split_at (x ||| y) t
  rw [or_div_pow, Nat.or_mod_two_pow, Nat.mul_comm] at h
  exact h

/-- numeric core of one `(u, v)` iteration of `bitwise_or`: `2^t` divides both strides, so the low `t` bits of the
members are those of the lower bounds -/
theorem or_core (w t ul uu vl vu x y : Nat)
    (hx1 : ul ≤ x) (hx2 : x ≤ uu) (huu : uu < 2 ^ w) (hy1 : vl ≤ y) (hy2 : y ≤ vu) (hvu : vu < 2 ^ w)
    (hxm : x % 2 ^ t = ul % 2 ^ t) (hym : y % 2 ^ t = vl % 2 ^ t)
    (lo hi : Nat)
    (hlo : lo = minOr (ul / 2 ^ t * 2 ^ t) (uu / 2 ^ t * 2 ^ t) (vl / 2 ^ t * 2 ^ t) (vu / 2 ^ t * 2 ^ t) w)
    (hhi : hi = maxOr (ul / 2 ^ t * 2 ^ t) (uu / 2 ^ t * 2 ^ t) (vl / 2 ^ t * 2 ^ t) (vu / 2 ^ t * 2 ^ t) w) :
    lo / 2 ^ t * 2 ^ t ||| (ul % 2 ^ t ||| vl % 2 ^ t) ≤ x ||| y ∧
    x ||| y ≤ hi / 2 ^ t * 2 ^ t ||| (ul % 2 ^ t ||| vl % 2 ^ t) ∧
    2 ^ t ∣ (x ||| y) - (lo / 2 ^ t * 2 ^ t ||| (ul % 2 ^ t ||| vl % 2 ^ t)) ∧
    hi / 2 ^ t * 2 ^ t ||| (ul % 2 ^ t ||| vl % 2 ^ t) < 2 ^ w ∧ (lo = hi → x ||| y = lo / 2 ^ t * 2 ^ t ||| (ul % 2 ^ t ||| vl % 2 ^ t)) := by
  have hp := two_pow_pos' t
  have fl : ∀ p q : Nat, p ≤ q → p / 2 ^ t * 2 ^ t ≤ q / 2 ^ t * 2 ^ t :=
    fun p q h => Nat.mul_le_mul_right _ (Nat.div_le_div_right h)
  have fle : ∀ p : Nat, p / 2 ^ t * 2 ^ t ≤ p := fun p => Nat.div_mul_le_self p _
  have hB : uu / 2 ^ t * 2 ^ t < 2 ^ w := Nat.lt_of_le_of_lt (fle uu) huu
  have hD : vu / 2 ^ t * 2 ^ t < 2 ^ w := Nat.lt_of_le_of_lt (fle vu) hvu
  have h1 := minOr_le _ _ _ _ w _ _ (fl _ _ hx1) (fl _ _ hx2) (fl _ _ hy1) (fl _ _ hy2) hB hD
  have h2 := le_maxOr _ _ _ _ w _ _ (fl _ _ hx1) (fl _ _ hx2) (fl _ _ hy1) (fl _ _ hy2) hB hD
  rw [← hlo, floor_or] at h1
  rw [← hhi, floor_or] at h2
  have hr : ul % 2 ^ t ||| vl % 2 ^ t < 2 ^ t := Nat.or_lt_two_pow (Nat.mod_lt _ hp) (Nat.mod_lt _ hp)
  have hr2 : ul % 2 ^ t ||| vl % 2 ^ t < 2 ^ w :=
    Nat.or_lt_two_pow (Nat.lt_of_le_of_lt (Nat.mod_le _ _) (by omega)) (Nat.lt_of_le_of_lt (Nat.mod_le _ _) (by omega))
  have hhilt : hi < 2 ^ w := by
    have := maxOrLoop_high w (ul / 2 ^ t * 2 ^ t) (uu / 2 ^ t * 2 ^ t) (vl / 2 ^ t * 2 ^ t) (vu / 2 ^ t * 2 ^ t)
    rw [Nat.div_eq_of_lt hB, Nat.div_eq_of_lt hD] at this
    simp only [Nat.or_self] at this
    rw [hhi]; unfold maxOr
    exact (Nat.div_eq_zero_iff_lt (two_pow_pos' w)).1 this
  have hU : hi / 2 ^ t * 2 ^ t ||| (ul % 2 ^ t ||| vl % 2 ^ t) < 2 ^ w :=
    Nat.or_lt_two_pow (Nat.lt_of_le_of_lt (fle hi) hhilt) hr2
  rw [or_split x y t, hxm, hym, mul_or_low _ _ _ hr, mul_or_low _ _ _ hr]
  rw [mul_or_low _ _ _ hr] at hU
  generalize x / 2 ^ t ||| y / 2 ^ t = q at *
  generalize ul % 2 ^ t ||| vl % 2 ^ t = r at *
  have g1 : lo / 2 ^ t ≤ q := by
    have := Nat.div_le_div_right (c := 2 ^ t) h1
    rwa [Nat.mul_div_cancel _ hp] at this
  have g2 : q ≤ hi / 2 ^ t := (Nat.le_div_iff_mul_le hp).2 h2
  have g1' := Nat.mul_le_mul_right (2 ^ t) g1
  have g2' := Nat.mul_le_mul_right (2 ^ t) g2
  refine ⟨by omega, by omega, ?_, hU, ?_⟩
  · rw [Nat.add_sub_add_right, ← Nat.sub_mul]
    exact Nat.dvd_mul_left _ _
  · intro he
    subst he
    have : q = lo / 2 ^ t := by omega
    rw [this]

theorem minOr_lt (a b c d w : Nat) (ha : a < 2 ^ w) (hc : c < 2 ^ w) : minOr a b c d w < 2 ^ w := by
  have := minOrLoop_high w a b c d
  rw [Nat.div_eq_of_lt ha, Nat.div_eq_of_lt hc] at this
  simp only [Nat.or_self] at this
  unfold minOr
  exact (Nat.div_eq_zero_iff_lt (two_pow_pos' w)).1 this

theorem maxOr_lt (a b c d w : Nat) (hb : b < 2 ^ w) (hd : d < 2 ^ w) : maxOr a b c d w < 2 ^ w := by
  have := maxOrLoop_high w a b c d
  rw [Nat.div_eq_of_lt hb, Nat.div_eq_of_lt hd] at this
  simp only [Nat.or_self] at this
  unfold maxOr
  exact (Nat.div_eq_zero_iff_lt (two_pow_pos' w)).1 this

/-- the number of low bits `bitwise_or` treats as constant -/
def orSt (u v : SI) : Nat :=
  if u.isInteger then ntz v.stride else if v.isInteger then ntz u.stride else Nat.min (ntz u.stride) (ntz v.stride)

def orNs0 (u v : SI) : Nat :=
  if u.isInteger && u.lb == 0 then v.stride else if v.isInteger && v.lb == 0 then u.stride else 2 ^ orSt u v

theorem orPiece_eq (u v : SI) :
    orPiece u v =
      SI.new u.bits
        (if minOr (clearLow u.lb (orSt u v) u.bits) (clearLow u.ub (orSt u v) u.bits) (clearLow v.lb (orSt u v) u.bits)
              (clearLow v.ub (orSt u v) u.bits) u.bits =
            maxOr (clearLow u.lb (orSt u v) u.bits) (clearLow u.ub (orSt u v) u.bits) (clearLow v.lb (orSt u v) u.bits)
              (clearLow v.ub (orSt u v) u.bits) u.bits then 0 else orNs0 u v)
        ((clearLow (minOr (clearLow u.lb (orSt u v) u.bits) (clearLow u.ub (orSt u v) u.bits)
            (clearLow v.lb (orSt u v) u.bits) (clearLow v.ub (orSt u v) u.bits) u.bits) (orSt u v) u.bits |||
            (u.lb % 2 ^ orSt u v ||| v.lb % 2 ^ orSt u v) : Nat) : Int)
        ((clearLow (maxOr (clearLow u.lb (orSt u v) u.bits) (clearLow u.ub (orSt u v) u.bits)
            (clearLow v.lb (orSt u v) u.bits) (clearLow v.ub (orSt u v) u.bits) u.bits) (orSt u v) u.bits |||
            (u.lb % 2 ^ orSt u v ||| v.lb % 2 ^ orSt u v) : Nat) : Int) := rfl

theorem orSt_dvd (u v : SI) (hu : u.WF) (hv : v.WF) : 2 ^ orSt u v ∣ u.stride ∧ 2 ^ orSt u v ∣ v.stride := by
  unfold orSt
  by_cases h1 : u.isInteger = true
  · rw [if_pos h1]
    have : u.stride = 0 := hu.2.2.2.2 ((isInteger_iff u).1 h1)
    rw [this]
    exact ⟨Nat.dvd_zero _, ntz_dvd _⟩
  · rw [if_neg h1]
    by_cases h2 : v.isInteger = true
    · rw [if_pos h2]
      have : v.stride = 0 := hv.2.2.2.2 ((isInteger_iff v).1 h2)
      rw [this]
      exact ⟨ntz_dvd _, Nat.dvd_zero _⟩
    · rw [if_neg h2]
      constructor
      · exact Nat.dvd_trans (Nat.pow_dvd_pow 2 (Nat.min_le_left _ _)) (ntz_dvd _)
      · exact Nat.dvd_trans (Nat.pow_dvd_pow 2 (Nat.min_le_right _ _)) (ntz_dvd _)

/-- members of a non-wrapping piece, in linear form -/
theorem mem_nowrap (w : Nat) (p : SI) (hp : WFw w p) (hle : p.lb ≤ p.ub) (x : Nat) (hx : p.mem x) :
    p.lb ≤ x ∧ x ≤ p.ub ∧ p.stride ∣ x - p.lb := by
  obtain ⟨hw, hb⟩ := hp
  obtain ⟨_, hxl, h1, h2⟩ := mem_facts p x hw hx
  obtain ⟨_, hl, hu, _⟩ := hw
  have e1 : cd (2 ^ p.bits) p.lb p.ub = p.ub - p.lb := by unfold cd; split_ifs <;> omega
  rw [e1] at h1
  have hlx : p.lb ≤ x := by
    unfold cd at h1; split_ifs at h1 <;> omega
  have e2 : cd (2 ^ p.bits) p.lb x = x - p.lb := by unfold cd; split_ifs <;> omega
  rw [e2] at h1 h2
  exact ⟨hlx, by omega, h2⟩

theorem mod_of_dvd_sub (T l x : Nat) (hle : l ≤ x) (h : T ∣ x - l) : x % T = l % T := by
  obtain ⟨m, hm⟩ := h
  have : x = l + T * m := by omega
  rw [this, Nat.add_mul_mod_self_left]

/-- **one `(u, v)` iteration of `bitwise_or`** on non-wrapping pieces: closed and sound -/
theorem orPiece_spec (w : Nat) (u v : SI) (hu : WFw w u) (hv : WFw w v) (hw0 : 0 < w)
    (hule : u.lb ≤ u.ub) (hvle : v.lb ≤ v.ub) :
    WFw w (orPiece u v) ∧ ∀ x y, u.mem x → v.mem y → (orPiece u v).mem (x ||| y) := by
  obtain ⟨hT1, hT2⟩ := orSt_dvd u v hu.1 hv.1
  have hub := hu.2
  have hvb := hv.2
  obtain ⟨_, hul, huu, hust⟩ := hu.1
  obtain ⟨_, hvl, hvu, hvst⟩ := hv.1
  rw [hub] at hul huu
  rw [hvb] at hvl hvu
  rw [orPiece_eq, hub]
  generalize ht : orSt u v = t at *
  rw [clearLow_eq _ _ _ hul, clearLow_eq _ _ _ huu, clearLow_eq _ _ _ hvl, clearLow_eq _ _ _ hvu]
  have fle : ∀ p : Nat, p / 2 ^ t * 2 ^ t ≤ p := fun p => Nat.div_mul_le_self p _
  have hlolt := minOr_lt (u.lb / 2 ^ t * 2 ^ t) (u.ub / 2 ^ t * 2 ^ t) (v.lb / 2 ^ t * 2 ^ t) (v.ub / 2 ^ t * 2 ^ t) w
    (Nat.lt_of_le_of_lt (fle _) hul) (Nat.lt_of_le_of_lt (fle _) hvl)
  have hhilt := maxOr_lt (u.lb / 2 ^ t * 2 ^ t) (u.ub / 2 ^ t * 2 ^ t) (v.lb / 2 ^ t * 2 ^ t) (v.ub / 2 ^ t * 2 ^ t) w
    (Nat.lt_of_le_of_lt (fle _) huu) (Nat.lt_of_le_of_lt (fle _) hvu)
  rw [clearLow_eq _ _ _ hlolt, clearLow_eq _ _ _ hhilt]
  generalize hlo : minOr (u.lb / 2 ^ t * 2 ^ t) (u.ub / 2 ^ t * 2 ^ t) (v.lb / 2 ^ t * 2 ^ t) (v.ub / 2 ^ t * 2 ^ t) w = lo at *
  generalize hhi : maxOr (u.lb / 2 ^ t * 2 ^ t) (u.ub / 2 ^ t * 2 ^ t) (v.lb / 2 ^ t * 2 ^ t) (v.ub / 2 ^ t * 2 ^ t) w = hi at *
  -- the facts of the numeric core at the lower bounds themselves (they are members)
  have core := fun x y hx1 hx2 hy1 hy2 hxm hym =>
    or_core w t u.lb u.ub v.lb v.ub x y hx1 hx2 huu hy1 hy2 hvu hxm hym lo hi hlo.symm hhi.symm
  obtain ⟨cL1, cL2, _, cU, _⟩ := core u.lb v.lb (Nat.le_refl _) hule (Nat.le_refl _) hvle rfl rfl
  have hLlt : lo / 2 ^ t * 2 ^ t ||| (u.lb % 2 ^ t ||| v.lb % 2 ^ t) < 2 ^ w := by omega
  -- the degenerate boxes: `0 | v` and `u | 0`
  have hz1 : (u.isInteger && u.lb == 0) = true → lo = v.lb / 2 ^ t * 2 ^ t ∧ hi = v.ub / 2 ^ t * 2 ^ t ∧ u.lb = 0 ∧ u.ub = 0 := by
    intro h
    have h' : u.lb = u.ub ∧ u.lb = 0 := by simpa [SI.isInteger] using h
    have e0 : u.ub = 0 := by omega
    rw [← hlo, ← hhi, h'.2, e0]
    simp only [Nat.zero_div, Nat.zero_mul]
    exact ⟨minOrLoop_zero_left _ _ _, maxOrLoop_zero_left _ _ _, trivial, trivial⟩
  have hz2 : (v.isInteger && v.lb == 0) = true → lo = u.lb / 2 ^ t * 2 ^ t ∧ hi = u.ub / 2 ^ t * 2 ^ t ∧ v.lb = 0 ∧ v.ub = 0 := by
    intro h
    have h' : v.lb = v.ub ∧ v.lb = 0 := by simpa [SI.isInteger] using h
    have e0 : v.ub = 0 := by omega
    rw [← hlo, ← hhi, h'.2, e0]
    simp only [Nat.zero_div, Nat.zero_mul]
    exact ⟨minOrLoop_zero_right _ _ _, maxOrLoop_zero_right _ _ _, trivial, trivial⟩
  constructor
  · -- closure
    refine ⟨new_WF _ _ _ _ hw0 ?_, new_bits _ _ _ _⟩
    intro hns
    by_cases he : lo = hi
    · rw [he]
    · rw [if_neg he] at hns
      exfalso
      unfold orNs0 at hns
      rw [ht] at hns
      by_cases c1 : (u.isInteger && u.lb == 0) = true
      · rw [if_pos c1] at hns
        obtain ⟨e1, e2, _, _⟩ := hz1 c1
        have := hvst.1 hns
        apply he; rw [e1, e2, this]
      · rw [if_neg c1] at hns
        by_cases c2 : (v.isInteger && v.lb == 0) = true
        · rw [if_pos c2] at hns
          obtain ⟨e1, e2, _, _⟩ := hz2 c2
          have := hust.1 hns
          apply he; rw [e1, e2, this]
        · rw [if_neg c2] at hns
          have := two_pow_pos' t
          omega
  · intro x y hx hy
    obtain ⟨hx1, hx2, hx3⟩ := mem_nowrap w u hu hule x hx
    obtain ⟨hy1, hy2, hy3⟩ := mem_nowrap w v hv hvle y hy
    have hxm := mod_of_dvd_sub _ _ _ hx1 (Nat.dvd_trans hT1 hx3)
    have hym := mod_of_dvd_sub _ _ _ hy1 (Nat.dvd_trans hT2 hy3)
    obtain ⟨c1, c2, c3, c4, c5⟩ := core x y hx1 hx2 hy1 hy2 hxm hym
    have hxy : x ||| y < 2 ^ w := by omega
    generalize hL : lo / 2 ^ t * 2 ^ t ||| (u.lb % 2 ^ t ||| v.lb % 2 ^ t) = L at *
    generalize hU : hi / 2 ^ t * 2 ^ t ||| (u.lb % 2 ^ t ||| v.lb % 2 ^ t) = U at *
    have e1 : cd (2 ^ w) L (x ||| y) = (x ||| y) - L := by unfold cd; split_ifs <;> omega
    have e2 : cd (2 ^ w) L U = U - L := by unfold cd; split_ifs <;> omega
    apply mem_new_of w _ L U (x ||| y) hLlt c4 hxy
    · rw [e1, e2]; omega
    · rw [e1]
      by_cases he : lo = hi
      · rw [if_pos he, c5 he]; simp
      · rw [if_neg he]
        unfold orNs0
        rw [ht]
        by_cases d1 : (u.isInteger && u.lb == 0) = true
        · rw [if_pos d1]
          obtain ⟨f1, _, f3, f4⟩ := hz1 d1
          have hx0 : x = 0 := by omega
          have hLv : L = v.lb := by
            rw [← hL, f1, f3, Nat.mul_div_cancel _ (two_pow_pos' t)]
            simp only [Nat.zero_mod, Nat.zero_or]
            rw [mul_or_low _ _ _ (Nat.mod_lt _ (two_pow_pos' t)), Nat.mul_comm]
            exact Nat.div_add_mod _ _
          rw [hx0, Nat.zero_or, hLv]
          exact hy3
        · rw [if_neg d1]
          by_cases d2 : (v.isInteger && v.lb == 0) = true
          · rw [if_pos d2]
            obtain ⟨f1, _, f3, f4⟩ := hz2 d2
            have hy0 : y = 0 := by omega
            have hLu : L = u.lb := by
              rw [← hL, f1, f3, Nat.mul_div_cancel _ (two_pow_pos' t)]
              simp only [Nat.zero_mod, Nat.or_zero]
              rw [mul_or_low _ _ _ (Nat.mod_lt _ (two_pow_pos' t)), Nat.mul_comm]
              exact Nat.div_add_mod _ _
            rw [hy0, Nat.or_zero, hLu]
            exact hx3
          · rw [if_neg d2]; exact c3
    · intro hns
      rw [e1]
      by_cases he : lo = hi
      · rw [c5 he]; simp
      · -- a zero stride with `lo ≠ hi` is excluded by closure (shown above); here: stride 0 divides the distance
        rw [if_neg he] at hns
        unfold orNs0 at hns
        rw [ht] at hns
        by_cases d1 : (u.isInteger && u.lb == 0) = true
        · rw [if_pos d1] at hns
          obtain ⟨f1, f2, _, _⟩ := hz1 d1
          exact absurd (by rw [f1, f2, hvst.1 hns]) he
        · rw [if_neg d1] at hns
          by_cases d2 : (v.isInteger && v.lb == 0) = true
          · rw [if_pos d2] at hns
            obtain ⟨f1, f2, _, _⟩ := hz2 d2
            exact absurd (by rw [f1, f2, hust.1 hns]) he
          · rw [if_neg d2] at hns
            have := two_pow_pos' t
            omega

/-- **`bitwise_or` is sound and closed** (all widths, wrapping and unaligned operands included) -/
theorem or_sound (s t r : SI) (hs : s.WF) (ht : t.WF) (hbits : s.bits = t.bits) (hsb : s.bottom = false)
    (htb : t.bottom = false) (h : s.bitwiseOr t = .ok r) :
    WFw s.bits r ∧ ∀ x y, s.mem x → t.mem y → r.mem (x ||| y) := by
  obtain ⟨us, hus, hup, hucov, _⟩ := ssplit_spec s hs hsb
  obtain ⟨vs, hvs, hvp, hvcov, _⟩ := ssplit_spec t ht htb
  unfold SI.bitwiseOr at h
  rw [hus, hvs] at h
  simp only [bind, Except.bind, pure, Except.pure] at h
  generalize hrs : (us.map fun u => vs.map fun v => orPiece u v).flatten = rs at h
  cases hl : leastUpperBound rs with
  | error e => rw [hl] at h; cases h
  | ok m =>
    rw [hl] at h
    have hr : r = m.renorm := by cases h; rfl
    subst hr
    have hmemrs : ∀ u v, u ∈ us → v ∈ vs → orPiece u v ∈ rs := by
      intro u v hu hv
      rw [← hrs]
      exact List.mem_flatten.2 ⟨_, List.mem_map.2 ⟨u, hu, rfl⟩, List.mem_map.2 ⟨v, hv, rfl⟩⟩
    have hP : ∀ p, p ∈ rs → WFw s.bits p := by
      intro p hp
      rw [← hrs] at hp
      obtain ⟨l, hl1, hl2⟩ := List.mem_flatten.1 hp
      obtain ⟨u, hu, hul⟩ := List.mem_map.1 hl1
      subst hul
      obtain ⟨v, hv, hvp'⟩ := List.mem_map.1 hl2
      subst hvp'
      obtain ⟨wu, _, ule, _⟩ := hup u hu
      obtain ⟨wv, _, vle, _⟩ := hvp v hv
      rw [← hbits] at wv
      exact (orPiece_spec s.bits u v wu wv hs.1 ule vle).1
    obtain ⟨hm1, hm2⟩ := lub_sup s.bits rs m hP hl
    refine ⟨renorm_WFw _ m hm1, ?_⟩
    intro x y hx hy
    obtain ⟨u, hu, hux⟩ := hucov x hx
    obtain ⟨v, hv, hvy⟩ := hvcov y hy
    obtain ⟨wu, _, ule, _⟩ := hup u hu
    obtain ⟨wv, _, vle, _⟩ := hvp v hv
    rw [← hbits] at wv
    apply (renorm_mem m hm1.1 _).2
    apply hm2
    exact ⟨_, hmemrs u v hu hv, (orPiece_spec s.bits u v wu wv hs.1 ule vle).2 x y hux hvy⟩

end Claripy.VSA
