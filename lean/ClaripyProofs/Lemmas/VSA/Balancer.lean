import ClaripyProofs.Lemmas.VSA.AddSub
import Claripy.VSA.Balancer
/-!
Arithmetic core of the balancer (`balancer.py`): a recorded (lower, upper) pair denotes the *wrapped* interval
`W[lo, hi]`; moving a constant across a modular addition rotates wrapped intervals (a bijection of the circle), which is
why a truism and its implicit assumption must be read as a pair; the arms that drop bits (Extract, left shift) are
pre-images only for `≥`, `>` and `≠`.
-/
namespace Claripy.VSA

/-- `x ∈ W[lo, hi]` on the circle of size `m` -/
def Win (m lo hi x : Nat) : Prop := cd m lo x ≤ cd m lo hi

instance (m lo hi x : Nat) : Decidable (Win m lo hi x) := by unfold Win; infer_instance

/-- circular distance is invariant under rotation -/
theorem cd_rot (m a b c : Nat) (ha : a < m) (hb : b < m) (hc : c < m) :
    cd m ((a + c) % m) ((b + c) % m) = cd m a b := by
  rw [add_mod_cases _ _ _ ha hc, add_mod_cases _ _ _ hb hc]
  unfold cd
  split_ifs <;> omega

/-- rotation of wrapped intervals: `x + c ∈ W[lo + c, hi + c] ↔ x ∈ W[lo, hi]` -/
theorem Win_rot (m lo hi x c : Nat) (hlo : lo < m) (hhi : hi < m) (hx : x < m) (hc : c < m) :
    Win m ((lo + c) % m) ((hi + c) % m) ((x + c) % m) ↔ Win m lo hi x := by
  unfold Win
  rw [cd_rot m lo x c hlo hx hc, cd_rot m lo hi c hlo hhi hc]

theorem sub_add_mod (m a c : Nat) (ha : a < m) (hc : c < m) : ((a + m - c) % m + c) % m = a := by
  have h1 : (a + m - c) % m = if c ≤ a then a - c else a + m - c := by
    split_ifs with h
    · have : a + m - c = (a - c) + m := by omega
      rw [this, Nat.add_mod_right, Nat.mod_eq_of_lt (by omega)]
    · exact Nat.mod_eq_of_lt (by omega)
  rw [h1]
  split_ifs with h
  · have : a - c + c = a := by omega
    rw [this, Nat.mod_eq_of_lt ha]
  · have : a + m - c + c = a + m := by omega
    rw [this, Nat.add_mod_right, Nat.mod_eq_of_lt ha]

/-- **pre-image under adding a constant**: `x + c ∈ W[lo, hi] ↔ x ∈ W[lo − c, hi − c]` (all modulo `m`) -/
theorem Win_preimage_add (m lo hi x c : Nat) (hlo : lo < m) (hhi : hi < m) (hx : x < m) (hc : c < m) :
    Win m lo hi ((x + c) % m) ↔ Win m ((lo + m - c) % m) ((hi + m - c) % m) x := by
  have hm : 0 < m := by omega
  have h := Win_rot m ((lo + m - c) % m) ((hi + m - c) % m) x c (Nat.mod_lt _ hm) (Nat.mod_lt _ hm) hx hc
  rw [sub_add_mod m lo c hlo hc, sub_add_mod m hi c hhi hc] at h
  exact h

theorem ule_iff_Win (m x d : Nat) (hx : x < m) (hd : d < m) : x ≤ d ↔ Win m 0 d x := by
  unfold Win; rw [cd_zero, cd_zero]

theorem uge_iff_Win (m x d : Nat) (hx : x < m) (hd : d < m) : d ≤ x ↔ Win m d (m - 1) x := by
  unfold Win cd
  split_ifs <;> omega

/-- `x + c ≤ d` (unsigned, modulo `m`): the upper bound `d − c` from the truism and the lower bound `0 − c` from the
implicit assumption `x + c ≥ 0` form exactly the pre-image, read as a wrapped interval. -/
theorem add_ule_pair (m x c d : Nat) (hx : x < m) (hc : c < m) (hd : d < m) :
    (x + c) % m ≤ d ↔ Win m ((m - c) % m) ((d + m - c) % m) x := by
  have hm : 0 < m := by omega
  rw [ule_iff_Win m _ d (Nat.mod_lt _ hm) hd, Win_preimage_add m 0 d x c hm hd hx hc]
  simp

/-- `x + c ≥ d`: lower bound `d − c` from the truism, upper bound `(m − 1) − c` from the assumption `x + c ≤ m − 1`. -/
theorem add_uge_pair (m x c d : Nat) (hx : x < m) (hc : c < m) (hd : d < m) :
    d ≤ (x + c) % m ↔ Win m ((d + m - c) % m) ((m - 1 + m - c) % m) x := by
  have hm : 0 < m := by omega
  rw [uge_iff_Win m _ d (Nat.mod_lt _ hm) hd, Win_preimage_add m d (m - 1) x c hd (by omega) hx hc]

def ucmpHolds (op : UCmp) (a d : Nat) : Prop :=
  match op with | .ule => a ≤ d | .ult => a < d | .uge => d ≤ a | .ugt => d < a

/-- **the pair computed by the balancer is exactly the pre-image** (model `balAddPair`, tied to the real
`constraint_to_si` by the correspondence of the C25 check): `(x + c) mod 2^w OP d` holds iff `x ∈ W[lo, hi]`;
`none` iff no `x` satisfies it. -/
theorem balAddPair_exact (w : Nat) (op : UCmp) (x c d : Nat) (hx : x < 2 ^ w) (hc : c < 2 ^ w) (hd : d < 2 ^ w) :
    match balAddPair w op c d with
    | some (lo, hi) => (ucmpHolds op ((x + c) % 2 ^ w) d ↔ Win (2 ^ w) lo hi x)
    | none => ¬ ucmpHolds op ((x + c) % 2 ^ w) d := by
  have hm := two_pow_pos' w
  have hlt := Nat.mod_lt (x + c) hm
  cases op with
  | ule => simp only [balAddPair, ucmpHolds]; exact add_ule_pair _ x c d hx hc hd
  | uge => simp only [balAddPair, ucmpHolds]; exact add_uge_pair _ x c d hx hc hd
  | ult =>
    simp only [balAddPair, ucmpHolds]
    by_cases h0 : d = 0
    · simp only [h0, if_true]; omega
    · simp only [h0, if_false]
      have := add_ule_pair (2 ^ w) x c (d - 1) hx hc (by omega)
      rw [← this]; omega
  | ugt =>
    simp only [balAddPair, ucmpHolds]
    by_cases h0 : d = 2 ^ w - 1
    · simp only [h0, if_true]; omega
    · simp only [h0, if_false]
      have := add_uge_pair (2 ^ w) x c (d + 1) hx hc (by omega)
      rw [← this]; omega

/-- a lone bound moved across a modular addition is NOT a consequence (the partner bound is needed) -/
theorem lone_bound_not_a_preimage :
    ¬ ∀ (x c d : Nat), x < 16 → c < 16 → d < 16 → d ≤ (x + c) % 16 → (d + 16 - c) % 16 ≤ x := by
  intro h
  have := h 0 2 0 (by omega) (by omega) (by omega) (by decide)
  revert this
  decide

/-! ### arms that drop bits -/

/-- `Extract(k, 0, x) ≥ c ⇒ x ≥ c` (the arm kept for UGE/UGT) -/
theorem extract_uge_pre (x k c : Nat) (h : c ≤ x % 2 ^ k) : c ≤ x :=
  Nat.le_trans h (Nat.mod_le _ _)

/-- `Extract(k, 0, x) ≠ c ⇒ x ≠ ZeroExt(c)` (the arm kept for `!=`) -/
theorem extract_ne_pre (x k c : Nat) (hc : c < 2 ^ k) (h : x % 2 ^ k ≠ c) : x ≠ c := by
  intro hx
  subst hx
  exact h (Nat.mod_eq_of_lt hc)

/-- … but not for `==`, `≤`, `<` (the arms removed by the repair): `x[1:0] = 2` also holds for `x = 6` -/
theorem extract_eq_not_pre : ¬ ∀ x : Nat, x < 8 → x % 4 = 2 → x = 2 := by
  intro h
  have := h 6 (by omega) (by decide)
  omega

theorem extract_ule_not_pre : ¬ ∀ x : Nat, x < 32 → x % 16 ≤ 15 → x ≤ 15 := by
  intro h
  have := h 19 (by omega) (by omega)
  omega

/-- `x << n ≥ c·2^n ⇒ x ≥ c` (the arm kept for UGE/UGT; `x << n` is `(x·2^n) mod m`) -/
theorem shl_uge_pre (m x n c : Nat) (h : c * 2 ^ n ≤ (x * 2 ^ n) % m) : c ≤ x := by
  have h1 : (x * 2 ^ n) % m ≤ x * 2 ^ n := Nat.mod_le _ _
  have h2 : c * 2 ^ n ≤ x * 2 ^ n := Nat.le_trans h h1
  exact Nat.le_of_mul_le_mul_right h2 (two_pow_pos' n)

/-- … but not for `≤`: `y << 1 ≤ 0` at 3 bits also holds for `y = 4` -/
theorem shl_ule_not_pre : ¬ ∀ y : Nat, y < 8 → (y * 2) % 8 ≤ 0 → y ≤ 0 := by
  intro h
  have := h 4 (by omega) (by decide)
  omega

/-- bounds collected from different truisms for the same expression (non-wrapping): the maximum of the lower and the
minimum of the upper bounds still contain the value -/
theorem combine_bounds (x l1 u1 l2 u2 : Nat) (h1 : l1 ≤ x ∧ x ≤ u1) (h2 : l2 ≤ x ∧ x ≤ u2) :
    Nat.max l1 l2 ≤ x ∧ x ≤ Nat.min u1 u2 := by
  constructor
  · exact Nat.max_le.2 ⟨h1.1, h2.1⟩
  · exact Nat.le_min.2 ⟨h1.2, h2.2⟩

end Claripy.VSA
