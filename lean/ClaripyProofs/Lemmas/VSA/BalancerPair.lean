import ClaripyProofs.Lemmas.VSA.BalancerFinal
/-!
The pair of bounds a truism and its implicit assumption record when both are only moved across `+` / `-`:
together they are the wrapped interval that is the exact pre-image (restricted by the hull of the operand).
-/
set_option linter.unusedSectionVars false
namespace Claripy.VSA.Bal
open Claripy.VSA

/-- `_min` / `_max` of a literal are its value -/
theorem const_siMin (w r : Nat) (m : Int) (hw : 0 < w) (hr : r < 2 ^ w) (h : siMin (SI.new w 0 (r : Int) (r : Int)) false = .ok m) :
    m = r := by
  have h := siMin_spec _ m h
  rw [nrm_new _ _ _ _ hw] at h
  obtain ⟨x, hx, hxm⟩ := min_attained _ m (const_WF r w hw) (new_bottom _ _ _ _) h
  have hlu : (SI.new w 0 (r : Int) (r : Int)).lb = (SI.new w 0 (r : Int) (r : Int)).ub ∧ (SI.new w 0 (r : Int) (r : Int)).lb = r := by
    rw [new_eq]; simp [imod_of_lt r w hr]
  have := mem_integer _ x (const_WF r w hw) hlu.1 hx
  rw [hlu.2] at this
  omega

theorem const_siMax (w r : Nat) (m : Int) (hw : 0 < w) (hr : r < 2 ^ w) (h : siMax (SI.new w 0 (r : Int) (r : Int)) false = .ok m) :
    m = r := by
  have h := siMax_spec _ m h
  rw [nrm_new _ _ _ _ hw] at h
  have hst : (SI.new w 0 (r : Int) (r : Int)).stride = 0 := by rw [new_eq]; simp
  obtain ⟨x, hx, hxm⟩ := max_attained _ m (const_WF r w hw) (new_bottom _ _ _ _) (Or.inl hst) h
  have hlu : (SI.new w 0 (r : Int) (r : Int)).lb = (SI.new w 0 (r : Int) (r : Int)).ub ∧ (SI.new w 0 (r : Int) (r : Int)).lb = r := by
    rw [new_eq]; simp [imod_of_lt r w hr]
  have := mem_integer _ x (const_WF r w hw) hlu.1 hx
  rw [hlu.2] at this
  omega

/-- two rotations of the same value by constants below `m` that give the same result use the same constant -/
theorem rot_const_unique (w v c c' : Nat) (hv : v < 2 ^ w) (hc : c < 2 ^ w) (hc' : c' < 2 ^ w)
    (h : Conc.add w v c = Conc.add w v c') : c = c' := by
  unfold Conc.add at h
  rw [add_mod_cases v c _ hv hc, add_mod_cases v c' _ hv hc'] at h
  split_ifs at h <;> omega


theorem imod_neg_one (w : Nat) : imod (-1) w = 2 ^ w - 1 := by
  unfold imod
  have hp : ((2 ^ w : Nat) : Int) = (2 : Int) ^ w := by push_cast; rfl
  have hm : (0 : Int) < (2 : Int) ^ w := by positivity
  have : (-1 : Int) % ((2 ^ w : Nat) : Int) = (2 : Int) ^ w - 1 := by
    rw [hp]
    have e : (-1 : Int) = ((2 : Int) ^ w - 1) + (2 : Int) ^ w * (-1) := by ring
    rw [e, Int.add_mul_emod_self_left, Int.emod_eq_of_lt (by omega) (by omega)]
  rw [this]
  have h2 : ((2 : Int) ^ w - 1).toNat = 2 ^ w - 1 := by
    have : ((2 ^ w - 1 : Nat) : Int) = (2 : Int) ^ w - 1 := by
      have := two_pow_pos' w
      push_cast [Nat.cast_sub this]; rfl
    rw [← this]; exact Int.toNat_natCast _
  exact h2

theorem imod_pow (w : Nat) : imod ((2 : Int) ^ w) w = 0 := by
  unfold imod
  have hp : ((2 ^ w : Nat) : Int) = (2 : Int) ^ w := by push_cast; rfl
  rw [hp, Int.emod_self]; rfl

/-- the recorded pair, read as `_replacements_iter` reads it, contains `x` when the exact wrapped pre-image `W[l0, u0]`
does and the hull `[a, b]` of the operand does; `L` / `U` are the bounds moved across the addition (possibly `2^w`, `-1`
for the strict comparisons) -/
theorem InB_of_Win (w l0 u0 x : Nat) (a b L U intMin : Int) (hmin : intMin < 0)
    (hl0 : l0 < 2 ^ w) (hu0 : u0 < 2 ^ w) (hx : x < 2 ^ w) (ha0 : 0 ≤ a) (hax : a ≤ x) (hxb : (x : Int) ≤ b)
    (hL : (L = l0) ∨ (L = (2 : Int) ^ w ∧ l0 = 0)) (hU : (U = u0) ∨ (U = -1 ∧ u0 = 2 ^ w - 1))
    (hW : Win (2 ^ w) l0 u0 x) :
    InB w (some (max intMin (max a L))) (some (min ((2 : Int) ^ w - 1) (min b U))) x := by
  unfold InB
  simp only [Option.getD_some]
  have hp : ((2 ^ w : Nat) : Int) = (2 : Int) ^ w := by push_cast; rfl
  have hm := two_pow_pos' w
  obtain ⟨a', rfl⟩ := Int.eq_ofNat_of_zero_le ha0
  obtain ⟨b', rfl⟩ := Int.eq_ofNat_of_zero_le (show 0 ≤ b by omega)
  have hax' : a' ≤ x := by omega
  have hxb' : x ≤ b' := by omega
  -- the lower bound
  have lowE : imod (max intMin (max (a' : Int) L)) w = if L = (2 : Int) ^ w then 0 else max a' l0 := by
    rcases hL with h | ⟨h, _⟩
    · subst h
      have hne : ((l0 : Nat) : Int) ≠ (2 : Int) ^ w := by rw [← hp]; omega
      rw [if_neg hne]
      have : max intMin (max (a' : Int) (l0 : Int)) = ((max a' l0 : Nat) : Int) := by
        rw [Nat.cast_max]; omega
      rw [this, imod_of_lt _ _ (by rw [Nat.max_def]; split_ifs <;> omega)]
    · rw [if_pos h, h]
      have : max intMin (max (a' : Int) ((2 : Int) ^ w)) = (2 : Int) ^ w := by
        have : (a' : Int) < (2 : Int) ^ w := by rw [← hp]; omega
        omega
      rw [this, imod_pow]
  have upE : imod (min ((2 : Int) ^ w - 1) (min (b' : Int) U)) w = if U = -1 then 2 ^ w - 1 else min b' u0 := by
    rcases hU with h | ⟨h, _⟩
    · subst h
      have hne : ((u0 : Nat) : Int) ≠ -1 := by omega
      rw [if_neg hne]
      have : min ((2 : Int) ^ w - 1) (min (b' : Int) (u0 : Int)) = ((min b' u0 : Nat) : Int) := by
        rw [Nat.cast_min]
        have : (u0 : Int) < (2 : Int) ^ w := by rw [← hp]; omega
        omega
      rw [this, imod_of_lt _ _ (by rw [Nat.min_def]; split_ifs <;> omega)]
    · rw [if_pos h, h]
      have : min ((2 : Int) ^ w - 1) (min (b' : Int) (-1)) = -1 := by
        have : (0 : Int) < (2 : Int) ^ w := by positivity
        omega
      rw [this, imod_neg_one]
  rw [lowE, upE]
  by_cases hLs : L = (2 : Int) ^ w <;> by_cases hUs : U = -1
  · rw [if_pos hLs, if_pos hUs]
    have hl00 : l0 = 0 := by
      rcases hL with h | ⟨_, h⟩
      · rw [h, ← hp] at hLs; omega
      · exact h
    have hu00 : u0 = 2 ^ w - 1 := by
      rcases hU with h | ⟨_, h⟩
      · rw [h] at hUs; omega
      · exact h
    subst hl00; subst hu00
    exact hW
  · rw [if_pos hLs, if_neg hUs]
    have hl00 : l0 = 0 := by
      rcases hL with h | ⟨_, h⟩
      · rw [h, ← hp] at hLs; omega
      · exact h
    subst hl00
    have := Win_hull (2 ^ w) 0 u0 0 b' x hm hu0 hx hW (Nat.zero_le _) hxb'
    simpa using this
  · rw [if_neg hLs, if_pos hUs]
    have hu00 : u0 = 2 ^ w - 1 := by
      rcases hU with h | ⟨_, h⟩
      · rw [h] at hUs; omega
      · exact h
    subst hu00
    have := Win_hull (2 ^ w) l0 (2 ^ w - 1) a' (2 ^ w - 1) x hl0 (by omega) hx hW hax' (by omega)
    simpa using this
  · rw [if_neg hLs, if_neg hUs]
    exact Win_hull (2 ^ w) l0 u0 a' b' x hl0 hu0 hx hW hax' hxb'


section
variable (anno : Nat → SI) (env : Nat → Nat) (hctx : ∀ i, (anno i).WF ∧ (anno i).mem (env i)) (hnrm : ∀ i, Nrm (anno i))
include hctx hnrm

/-- what `_handle_comparison` records for an unsigned ordering against a literal, given the unsigned minimum / maximum
of the left side -/
def cmpRes (t : Tru) (bs : Bounds) (lmin lmax : Int) : Bounds :=
  match t.op with
  | .ult => addUpper bs t.lhs (min ((2 : Int) ^ wd t.lhs - 1) (min lmax ((t.r : Int) - 1)))
  | .ule => addUpper bs t.lhs (min ((2 : Int) ^ wd t.lhs - 1) (min lmax (t.r : Int)))
  | .ugt => addLower bs t.lhs (max (-((2 : Int) ^ (wd t.lhs - 1))) (max lmin ((t.r : Int) + 1)))
  | .uge => addLower bs t.lhs (max (-((2 : Int) ^ (wd t.lhs - 1))) (max lmin (t.r : Int)))
  | _ => bs

theorem handleCmp_char (t : Tru) (bs bs' : Bounds) (hok : TruOK anno env t) (hop : uOrd t.op)
    (h : handleCmp anno t bs = .ok bs') :
    ∃ pl lmin lmax, convBV anno t.lhs [] = .ok pl ∧ siMin pl.1.si false = .ok lmin ∧ siMax pl.1.si false = .ok lmax ∧
      bs' = cmpRes t bs lmin lmax := by
  have hwpos : 0 < t.w := by rw [← hok.wd_eq]; exact wd_pos anno env (fun i => (hctx i).1) _ hok.ok.1
  unfold handleCmp at h
  dsimp only at h
  obtain ⟨pl, hpl, h⟩ := bindM_ok h
  have hpl := liftR_ok hpl
  have huns : (cmpInfo t.op).2.2 = true := by rcases hop with h | h | h | h <;> rw [h] <;> rfl
  rw [huns] at h
  simp only [Bool.not_true, if_true] at h
  obtain ⟨leftMin, hlmin, h⟩ := bindM_ok h
  obtain ⟨leftMax, hlmax, h⟩ := bindM_ok h
  obtain ⟨rightMin, hrmin, h⟩ := bindM_ok h
  obtain ⟨rightMax, hrmax, h⟩ := bindM_ok h
  have e1 := const_siMin t.w t.r rightMin hwpos hok.r_lt hrmin
  have e2 := const_siMax t.w t.r rightMax hwpos hok.r_lt hrmax
  subst e1; subst e2
  refine ⟨pl, leftMin, leftMax, hpl, hlmin, hlmax, ?_⟩
  unfold cmpRes
  rcases hop with ho | ho | ho | ho <;> rw [ho] at h ⊢ <;>
    simp only [cmpInfo, if_true, if_false, Bool.false_eq_true] at h <;> exact (pureM_ok h)

theorem handle_uOrd (t : Tru) (bs bs' : Bounds) (c : Nat) (hop : uOrd t.op)
    (h : (match t.op with
      | .eq => (pure (addLower (addUpper bs t.lhs t.r) t.lhs t.r) : M Bounds)
      | .ne =>
        if t.r = 0 then pure (addLower bs t.lhs 1)
        else if t.r = 2 ^ t.w - 1 then pure (addUpper bs t.lhs ((2 : Int) ^ t.w - 1 - 1))
        else pure bs
      | _ => handleCmp anno t bs) = .ok bs') : handleCmp anno t bs = .ok bs' := by
  rcases hop with ho | ho | ho | ho <;> rw [ho] at h <;> exact h

/-- **the pair of a truism and its implicit assumption, both only moved across `+` / `-`, is sound** (unsigned orderings):
the two recorded bounds, read as the wrapped interval `_replacements_iter` builds, contain the value -/
theorem pair_sound (T0 A0 : Tru) (oT oA : BalOut) (bs1 bs2 : Bounds) (hokT : TruOK anno env T0) (hop : uOrd T0.op)
    (hmod : isModLhs T0.lhs = true) (hconv : ∃ o p, convBV anno T0.lhs o = .ok p) (hhT : T0.holds env)
    (hA : assumption T0 = some (.tru A0)) (hbT : balance1 anno T0 = .ok oT) (hbA : balance1 anno A0 = .ok oA)
    (hptT : oT.usedPt = false) (hptA : oA.usedPt = false) (hsame : oT.t.lhs = oA.t.lhs)
    (h1 : handle anno oT.t [] = .ok bs1) (h2 : handle anno oA.t bs1 = .ok bs2) : Sound env bs2 := by
  obtain ⟨hokA, _, _, hrgA, _, hfacts⟩ := assumption_spec anno env hctx hnrm T0 hokT hop hconv _ hA A0 rfl
  obtain ⟨hAl, hAw, hAlo, hAhi⟩ := hfacts hmod
  by_cases hs : symBV oT.t.lhs = true
  · have hsA : symBV oA.t.lhs = true := by rw [← hsame]; exact hs
    obtain ⟨v0, hv0⟩ := exprOK_val anno env _ hokT.ok
    have hv0lt : v0 < 2 ^ T0.w := by
      obtain ⟨o, p, hp⟩ := hconv
      have := (conv_val anno env hctx hnrm _ hokT.ok o p hp v0 hv0).2.2.2.1
      rwa [hokT.wd_eq] at this
    have hrgT : ∀ v, evalBV env T0.lhs = some v → v < 2 ^ T0.w := fun v hv => by rw [hv0] at hv; cases hv; exact hv0lt
    obtain ⟨hokT', ⟨hopT, hwT, CT, hCT, hrT, heT⟩, hrgT'⟩ := balance1_rot anno env hctx hnrm T0 oT hokT hrgT hbT hs hptT
    obtain ⟨hokA', ⟨hopA, hwA, CA, hCA, hrA, heA⟩, hrgA'⟩ := balance1_rot anno env hctx hnrm A0 oA hokA
      (fun v hv => hrgA v hv) hbA hsA hptA
    obtain ⟨vf, hvf⟩ := exprOK_val anno env _ hokT'.ok
    have hvflt := hrgT' vf hvf
    have hvfA : evalBV env oA.t.lhs = some vf := by rw [← hsame]; exact hvf
    have h0T := heT vf hvf hvflt
    have h0A := heA vf hvfA (by rw [hAw]; exact hvflt)
    rw [hAl, hAw, hv0] at h0A
    rw [hv0] at h0T
    have hCeq : CT = CA := by
      rw [hAw] at hCA
      have : Conc.add T0.w vf CT = Conc.add T0.w vf CA := by
        have a := Option.some.inj h0T; have b := Option.some.inj h0A; rw [← a, b]
      exact rot_const_unique T0.w vf CT CA hvflt hCT hCA this
    subst hCeq
    have hv0' : v0 = Conc.add T0.w vf CT := Option.some.inj h0T
    rw [hAw] at hrA
    -- the handlers
    unfold handle at h1 h2
    obtain ⟨c1, hc1, h1⟩ := bindM_ok h1
    obtain ⟨c2, hc2, h2⟩ := bindM_ok h2
    rw [← hsame, hc1] at hc2
    cases hc2
    by_cases hc : c1 = 1
    · rw [if_pos hc] at h1 h2
      have := pureM_ok h1; subst this
      have := pureM_ok h2; subst this
      intro e lo hi hm; cases hm
    · rw [if_neg hc] at h1 h2
      obtain ⟨vT, hcmp0, hcmpv⟩ := hhT
      rw [hv0] at hcmp0; cases hcmp0
      have hwd : wd oT.t.lhs = T0.w := by rw [hokT'.wd_eq, hwT]
      have hwdA : wd oA.t.lhs = T0.w := by rw [← hsame]; exact hwd
      have hwpos : 0 < T0.w := by rw [← hokT.wd_eq]; exact wd_pos anno env (fun i => (hctx i).1) _ hokT.ok.1
      have hm := two_pow_pos' T0.w
      have hrlt := hokT.r_lt
      -- the one entry the two handlers leave
      have final : ∀ (lo hi : Int), bs2 = [(oT.t.lhs, some lo, some hi)] → InB T0.w (some lo) (some hi) vf → Sound env bs2 := by
        intro lo hi hb hin e l u hmem
        rw [hb] at hmem
        simp only [List.mem_singleton, Prod.mk.injEq] at hmem
        obtain ⟨rfl, rfl, rfl⟩ := hmem
        exact ⟨vf, hvf, by rw [hwd]; exact hvflt, by rw [hwd]; exact hin⟩
      have hmin : -((2 : Int) ^ (T0.w - 1)) < 0 := by
        have : (0 : Int) < (2 : Int) ^ (T0.w - 1) := by positivity
        omega
      have hpw : ((2 ^ T0.w : Nat) : Int) = (2 : Int) ^ T0.w := by push_cast; rfl
      have hopT' : uOrd oT.t.op := by rw [hopT]; exact hop
      have hopA' : uOrd oA.t.op := by
        rw [hopA]
        rcases hop with ho | ho | ho | ho
        · rw [(hAlo (Or.inr ho)).1]; exact Or.inr (Or.inr (Or.inr rfl))
        · rw [(hAlo (Or.inl ho)).1]; exact Or.inr (Or.inr (Or.inr rfl))
        · rw [(hAhi (Or.inr ho)).1]; exact Or.inr (Or.inl rfl)
        · rw [(hAhi (Or.inl ho)).1]; exact Or.inr (Or.inl rfl)
      have h1' := handle_uOrd anno env hctx hnrm oT.t [] bs1 c1 hopT' h1
      have h2' := handle_uOrd anno env hctx hnrm oA.t bs1 bs2 c1 hopA' h2
      obtain ⟨pl, lmin, lmax, hpl, hlmin, hlmax, hb1⟩ := handleCmp_char anno env hctx hnrm oT.t [] bs1 hokT' hopT' h1'
      obtain ⟨pl', lmin', lmax', hpl', hlmin', hlmax', hb2⟩ := handleCmp_char anno env hctx hnrm oA.t bs1 bs2 hokA' hopA' h2'
      rw [← hsame, hpl] at hpl'
      cases hpl'
      rw [hlmin] at hlmin'; cases hlmin'
      rw [hlmax] at hlmax'; cases hlmax'
      obtain ⟨⟨⟨hwf, hbits⟩, hmm⟩, hnr⟩ := conv_good anno env hctx hnrm oT.t.lhs hokT'.ok [] pl.2 pl.1 hpl
      have hmem := (hmm vf hvf).1
      obtain ⟨ha0, hax⟩ := siMin_le pl.1.si lmin vf hwf hnr hmem hlmin
      have hxb := le_siMax pl.1.si lmax vf hwf hnr hmem hlmax
      have el : (2 ^ T0.w - CT) % 2 ^ T0.w = Conc.sub T0.w 0 CT := by unfold Conc.sub; rw [Nat.mod_eq_of_lt hCT, Nat.zero_add]
      have eu : ∀ d, d < 2 ^ T0.w → (d + 2 ^ T0.w - CT) % 2 ^ T0.w = Conc.sub T0.w d CT := by
        intro d _; unfold Conc.sub; rw [Nat.mod_eq_of_lt hCT]; congr 1; omega
      rw [hv0'] at hcmpv
      unfold cmpRes at hb1 hb2
      rcases hop with ho | ho | ho | ho
      · -- ult, assumption uge 0
        obtain ⟨hAop, hAr⟩ := hAlo (Or.inr ho)
        rw [hopT, ho] at hb1
        rw [hopA, hAop] at hb2
        dsimp only at hb1 hb2
        rw [hb1, ← hsame] at hb2
        simp only [addUpper, addLower, if_true] at hb2
        rw [hwd, hrA, hAr, hrT] at hb2
        rw [ho] at hcmpv
        simp only [concCmp, decide_eq_true_eq] at hcmpv
        refine final _ _ hb2 ?_
        have hr1 : 1 ≤ T0.r := by omega
        have hW := (add_ule_pair (2 ^ T0.w) vf CT (T0.r - 1) hvflt hCT (by omega)).1 (by unfold Conc.add at hcmpv; omega)
        rw [el, eu _ (by omega)] at hW
        refine InB_of_Win T0.w _ _ vf lmin lmax _ _ _ hmin (conc_sub_lt _ _ _) (conc_sub_lt _ _ _) hvflt ha0 hax hxb (Or.inl rfl) ?_ hW
        -- (r - C) - 1 against (r - 1 - C)
        unfold Conc.sub
        rw [Nat.mod_eq_of_lt hCT]
        by_cases hC0 : CT = 0
        · subst hC0
          simp only [Nat.sub_zero, Nat.add_mod_right, Nat.mod_eq_of_lt hrlt, Nat.mod_eq_of_lt (show T0.r - 1 < 2 ^ T0.w by omega)]
          left; omega
        · rw [add_mod_cases T0.r (2 ^ T0.w - CT) _ hrlt (by omega), add_mod_cases (T0.r - 1) (2 ^ T0.w - CT) _ (by omega) (by omega)]
          by_cases hz : T0.r = CT
          · right; subst hz
            rw [if_neg (by omega), if_pos (by omega)]
            constructor <;> omega
          · left; split_ifs <;> omega
      · -- ule, assumption uge 0
        obtain ⟨hAop, hAr⟩ := hAlo (Or.inl ho)
        rw [hopT, ho] at hb1
        rw [hopA, hAop] at hb2
        dsimp only at hb1 hb2
        rw [hb1, ← hsame] at hb2
        simp only [addUpper, addLower, if_true] at hb2
        rw [hwd, hrA, hAr, hrT] at hb2
        rw [ho] at hcmpv
        simp only [concCmp, decide_eq_true_eq] at hcmpv
        refine final _ _ hb2 ?_
        have hW := (add_ule_pair (2 ^ T0.w) vf CT T0.r hvflt hCT hrlt).1 (by unfold Conc.add at hcmpv; omega)
        rw [el, eu _ hrlt] at hW
        exact InB_of_Win T0.w _ _ vf lmin lmax _ _ _ hmin (conc_sub_lt _ _ _) (conc_sub_lt _ _ _) hvflt ha0 hax hxb (Or.inl rfl)
          (Or.inl rfl) hW
      · -- ugt, assumption ule max
        obtain ⟨hAop, hAr⟩ := hAhi (Or.inr ho)
        rw [hopT, ho] at hb1
        rw [hopA, hAop] at hb2
        dsimp only at hb1 hb2
        rw [hb1, ← hsame] at hb2
        simp only [addUpper, addLower, if_true] at hb2
        rw [hwd, hrA, hAr, hrT] at hb2
        rw [ho] at hcmpv
        simp only [concCmp, decide_eq_true_eq] at hcmpv
        refine final _ _ hb2 ?_
        have hr1 : T0.r + 1 < 2 ^ T0.w := by unfold Conc.add at hcmpv; have := Nat.mod_lt (vf + CT) hm; omega
        have hW := (add_uge_pair (2 ^ T0.w) vf CT (T0.r + 1) hvflt hCT hr1).1 (by unfold Conc.add at hcmpv; omega)
        rw [eu _ hr1, eu _ (by omega)] at hW
        refine InB_of_Win T0.w _ _ vf lmin lmax _ _ _ hmin (conc_sub_lt _ _ _) (conc_sub_lt _ _ _) hvflt ha0 hax hxb ?_ (Or.inl rfl) hW
        unfold Conc.sub
        rw [Nat.mod_eq_of_lt hCT]
        by_cases hC0 : CT = 0
        · subst hC0
          simp only [Nat.sub_zero, Nat.add_mod_right, Nat.mod_eq_of_lt hrlt, Nat.mod_eq_of_lt hr1]
          left; omega
        · rw [add_mod_cases T0.r (2 ^ T0.w - CT) _ hrlt (by omega), add_mod_cases (T0.r + 1) (2 ^ T0.w - CT) _ hr1 (by omega)]
          by_cases hz : T0.r + 1 = CT
          · right
            rw [if_pos (by omega), if_neg (by omega)]
            constructor
            · rw [← hpw]; omega
            · omega
          · left; split_ifs <;> omega
      · -- uge, assumption ule max
        obtain ⟨hAop, hAr⟩ := hAhi (Or.inl ho)
        rw [hopT, ho] at hb1
        rw [hopA, hAop] at hb2
        dsimp only at hb1 hb2
        rw [hb1, ← hsame] at hb2
        simp only [addUpper, addLower, if_true] at hb2
        rw [hwd, hrA, hAr, hrT] at hb2
        rw [ho] at hcmpv
        simp only [concCmp, decide_eq_true_eq] at hcmpv
        refine final _ _ hb2 ?_
        have hW := (add_uge_pair (2 ^ T0.w) vf CT T0.r hvflt hCT hrlt).1 (by unfold Conc.add at hcmpv; omega)
        rw [eu _ hrlt, eu _ (by omega)] at hW
        exact InB_of_Win T0.w _ _ vf lmin lmax _ _ _ hmin (conc_sub_lt _ _ _) (conc_sub_lt _ _ _) hvflt ha0 hax hxb (Or.inl rfl)
          (Or.inl rfl) hW
  · have hs' : symBV oT.t.lhs = false := by simpa using hs
    have hsA' : symBV oA.t.lhs = false := by rw [← hsame]; exact hs'
    unfold handle at h1 h2
    rw [card_nonsym anno oT.t.lhs hs'] at h1
    rw [card_nonsym anno oA.t.lhs hsA'] at h2
    obtain ⟨c1, hc1, h1⟩ := bindM_ok h1
    obtain ⟨c2, hc2, h2⟩ := bindM_ok h2
    have := pureM_ok hc1; subst this
    have := pureM_ok hc2; subst this
    simp only [if_true] at h1 h2
    have := pureM_ok h1; subst this
    have := pureM_ok h2; subst this
    intro e lo hi hm; cases hm

end

end Claripy.VSA.Bal
