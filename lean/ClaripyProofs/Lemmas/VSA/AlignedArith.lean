import ClaripyProofs.Lemmas.VSA.AlignedBasic
/-! `add`, `sub`, `neg` keep alignment: the upper bound of the result is the image of members of the operands
(`a.ub + b.ub`, `a.ub − b.lb`), so alignment is soundness at that point. -/
namespace Claripy.VSA

theorem lb_mem (a : SI) (ha : a.WF) (hnb : a.bottom = false) : a.mem a.lb := by
  obtain ⟨_, hl, hu, _⟩ := ha
  rw [mem_iff _ _ hl hu, cd_self]
  refine ⟨hnb, hl, Nat.zero_le _, ?_⟩
  split <;> simp

/-- **`add` of aligned operands is aligned** -/
theorem add_aligned (a b : SI) (ha : a.WF) (hb : b.WF) (hbits : a.bits = b.bits) (hab : a.bottom = false)
    (hbb : b.bottom = false) (ala : a.Aligned) (alb : b.Aligned) : (a.add b).Aligned := by
  have hm := add_sound a b a.ub b.ub hbits ha hb (mem_ub_of_aligned a ha hab ala) (mem_ub_of_aligned b hb hbb alb)
  unfold SI.add at hm ⊢
  by_cases ov : wrappedOverflowAdd a b = true
  · simp only [ov, if_true]; exact top_aligned _
  · have ov' : wrappedOverflowAdd a b = false := by simpa using ov
    simp only [ov', Bool.false_eq_true, if_false, ← hbits, Nat.max_self] at hm ⊢
    apply new_aligned_of_mem
    simp only [modAdd_nat] at hm ⊢
    rw [imod_of_lt _ _ (Nat.mod_lt _ (two_pow_pos' _))]
    exact hm

/-- **`sub` keeps alignment of the minuend** (the subtrahend may be unaligned: the result is anchored at its last
member and ends at `a.ub − b.lb`) -/
theorem sub_aligned (a b : SI) (ha : a.WF) (hb : b.WF) (hbits : a.bits = b.bits) (hab : a.bottom = false)
    (hbb : b.bottom = false) (ala : a.Aligned) : (a.sub b).Aligned := by
  have hm := sub_sound a b a.ub b.lb hbits ha hb (mem_ub_of_aligned a ha hab ala) (lb_mem b hb hbb)
  have hbl : b.lb < 2 ^ a.bits := by rw [hbits]; exact hb.2.1
  unfold SI.sub at hm ⊢
  by_cases ov : wrappedOverflowAdd a b = true
  · simp only [ov, if_true]; exact top_aligned _
  · have ov' : wrappedOverflowAdd a b = false := by simpa using ov
    simp only [ov', Bool.false_eq_true, if_false, ← hbits, Nat.max_self] at hm ⊢
    apply new_aligned_of_mem
    rw [modSub_nat' _ _ _ ha.2.2.1 hbl, imod_of_lt _ _ (Nat.mod_lt _ (two_pow_pos' _))]
    rw [modSub_nat' _ _ _ ha.2.2.1 hbl] at hm
    exact hm

/-- **`neg` is always aligned** (`0 − a`, the minuend is a singleton) -/
theorem neg_aligned (a : SI) (ha : a.WF) (hab : a.bottom = false) : a.neg.Aligned := by
  unfold SI.neg
  have hz : (SI.new a.bits 0 0 0).WF := new_WF _ _ _ _ ha.1 (fun _ => rfl)
  exact sub_aligned _ a hz ha (new_bits _ _ _ _) (new_bottom _ _ _ _) hab
    (by left; rw [new_eq]; simp)

end Claripy.VSA
