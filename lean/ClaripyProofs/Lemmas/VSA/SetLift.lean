import ClaripyProofs.Lemmas.VSA.Lift
import ClaripyProofs.Lemmas.VSA.Lub
/-! Lifting of interval operations given by a SPECIFICATION of the shape all C21 theorems have
(`op s t = ok r → closed ∧ ∀ members, side condition → sound`) to sets of intervals, with the join obligation discharged
(`joinOK`).  The side condition `C` carries "divisor ≠ 0"; `Q1`/`Q2` carry what the interval theorem asks of its operands
(well formed, width, non-empty, constructor-normal, aligned). -/
namespace Claripy.VSA

theorem lift2_spec (wr : Nat) (op : SI → SI → R SI) (f : Nat → Nat → Nat) (C : Nat → Nat → Prop) (Q1 Q2 : SI → Prop)
    (a : DSIS) (bs : List SI) (order : List Nat) (v : Val)
    (hspec : ∀ s t r, Q1 s → Q2 t → op s t = .ok r → WFw wr r ∧ ∀ x y, s.mem x → t.mem y → C x y → r.mem (f x y))
    (ha : ∀ s, s ∈ a.sis → Q1 s) (hb : ∀ t, t ∈ bs → Q2 t) (h : a.lift2 op bs order = .ok v)
    (x y : Nat) (hx : a.mem x) (hy : memL bs y) (hc : C x y) : v.mem (f x y) := by
  unfold DSIS.lift2 at h
  cases hr : applyEach2 op a.sis bs with
  | error e => rw [hr] at h; cases h
  | ok L =>
    rw [hr] at h
    obtain ⟨s, hs, hsx⟩ := hx
    obtain ⟨t, ht, hty⟩ := hy
    obtain ⟨r, hrL, hor⟩ := applyEach2_mem op a.sis bs L hr s t hs ht
    have hmem : memL L (f x y) := ⟨r, hrL, (hspec s t r (ha s hs) (hb t ht) hor).2 x y hsx hty hc⟩
    have hPL : ∀ r, r ∈ L → WFw wr r := by
      intro r hrL
      unfold applyEach2 at hr
      obtain ⟨p, hp, hpr⟩ : ∃ p, p ∈ (a.sis.flatMap fun a => bs.map fun b => (a, b)) ∧ op p.1 p.2 = .ok r :=
        mapM_ok_mem_rev _ _ _ hr r hrL
      obtain ⟨s', hs', hp2⟩ := List.mem_flatMap.1 hp
      obtain ⟨t', ht', hpe⟩ := List.mem_map.1 hp2
      subst hpe
      exact (hspec s' t' r (ha s' hs') (hb t' ht') hpr).1
    exact finishSet_sound (WFw wr) (joinOK wr) a.bits L order v hPL h (f x y) hmem

theorem lift1_spec (wr : Nat) (op : SI → R SI) (f : Nat → Nat) (Q : SI → Prop)
    (a : DSIS) (order : List Nat) (v : Val)
    (hspec : ∀ s r, Q s → op s = .ok r → WFw wr r ∧ ∀ x, s.mem x → r.mem (f x))
    (ha : ∀ s, s ∈ a.sis → Q s) (h : a.lift1 op order = .ok v) (x : Nat) (hx : a.mem x) : v.mem (f x) := by
  unfold DSIS.lift1 at h
  cases hr : applyEach1 op a.sis with
  | error e => rw [hr] at h; cases h
  | ok L =>
    rw [hr] at h
    obtain ⟨s, hs, hsx⟩ := hx
    obtain ⟨r, hrL, hor⟩ := applyEach1_mem op a.sis L hr s hs
    have hmem : memL L (f x) := ⟨r, hrL, (hspec s r (ha s hs) hor).2 x hsx⟩
    have hPL : ∀ r, r ∈ L → WFw wr r := by
      intro r hrL
      obtain ⟨s', hs', hsr⟩ := mapM_ok_mem_rev _ _ _ hr r hrL
      exact (hspec s' r (ha s' hs') hsr).1
    exact finishSet_sound (WFw wr) (joinOK wr) a.bits L order v hPL h (f x) hmem

/-- a property closed under the join and held by the empty interval is inherited by `collapse()` -/
theorem collapse_prop (P : SI → Prop) (d : DSIS) (r : SI) (hE : P (SI.empty d.bits))
    (hJ : ∀ a b, P a → P b → P (pseudoJoin a b true)) (hP : ∀ s, s ∈ d.sis → P s) (h : d.collapse = .ok r) : P r := by
  unfold DSIS.collapse at h
  cases hc : d.cardinality with
  | error e => rw [hc] at h; cases h
  | ok c =>
    rw [hc] at h
    simp only [] at h
    by_cases hc0 : c = 0
    · rw [if_pos hc0] at h
      have : r = SI.empty d.bits := by injection h with h3; exact h3.symm
      rw [this]; exact hE
    · rw [if_neg hc0] at h
      cases hsis : d.sis with
      | nil =>
        rw [hsis] at h
        have : r = SI.empty d.bits := by injection h with h3; exact h3.symm
        rw [this]; exact hE
      | cons y ys =>
        rw [hsis] at h
        simp only [] at h
        have hr : r = ys.foldl (fun r s => pseudoJoin r s true) y := by injection h with h3; exact h3.symm
        subst hr
        have hy : P y := hP y (by rw [hsis]; exact List.mem_cons_self)
        have hys : ∀ s, s ∈ ys → P s := fun s hs => hP s (by rw [hsis]; exact List.mem_cons_of_mem _ hs)
        clear hsis hc h
        induction ys generalizing y with
        | nil => exact hy
        | cons z zs ih =>
          rw [List.foldl_cons]
          exact ih (pseudoJoin y z true) (hJ y z hy (hys z List.mem_cons_self))
            (fun s hs => hys s (List.mem_cons_of_mem _ hs))

end Claripy.VSA
