import ClaripyProofs.Lemmas.VSA.MeetCases
/-! **The meet is sound on aligned operands in constructor-normal form**: `_multi_valued_intersection` and `intersection`
contain every common member. -/
namespace Claripy.VSA

theorem top_nrm (b : SI) (hb : b.WF) (hbb : b.bottom = false) (nb : Nrm b) (ht : b.isTop = true) :
    b.stride = 1 ∧ b.lb = 0 ∧ b.ub = 2 ^ b.bits - 1 := by
  have h1 := (isTop_facts b hb ht).1
  unfold SI.isTop at ht
  simp only [Bool.and_eq_true, beq_iff_eq] at ht
  have h3 : b.lb = (b.ub + 1) % 2 ^ b.bits := by
    rw [ht.2]
    have : ((b.ub : Int) + 1) = ((b.ub + 1 : Nat) : Int) := by push_cast; rfl
    unfold modAdd
    rw [this, imod_nat]
  have hu := nrm_full b nb hb hbb h1 h3
  refine ⟨h1, ?_, hu⟩
  rw [h3, hu]
  have := two_pow_pos' b.bits
  rw [show 2 ^ b.bits - 1 + 1 = 2 ^ b.bits by omega, Nat.mod_self]

theorem arc_facts (w : Nat) (p : SI) (z : Nat) (hp : WFw w p) (hz : p.mem z) :
    z < 2 ^ w ∧ cd (2 ^ w) p.lb z ≤ cd (2 ^ w) p.lb p.ub ∧ p.stride ∣ cd (2 ^ w) p.lb z := by
  obtain ⟨_, h1, h2, h3⟩ := mem_facts p z hp.1 hz
  rw [hp.2] at h1 h2 h3
  exact ⟨h1, h2, h3⟩

theorem new_arc_facts (w st l u z : Nat) (hl : l < 2 ^ w) (hu : u < 2 ^ w) (hz : (SI.new w st (l : Int) (u : Int)).mem z) :
    z < 2 ^ w ∧ cd (2 ^ w) l z ≤ cd (2 ^ w) l u ∧ st ∣ cd (2 ^ w) l z := by
  rw [mem_new, imod_of_lt _ _ hl, imod_of_lt _ _ hu] at hz
  obtain ⟨h1, h2, h3⟩ := hz
  refine ⟨h1, h2, ?_⟩
  split at h3
  · rw [h3]; exact Nat.dvd_zero _
  · exact Nat.dvd_of_mod_eq_zero h3

/-- two points on an arc, the first before the second: the second lies between the first and the end -/
theorem arc_tail (N l u n x : Nat) (_hl : l < N) (_hu : u < N) (_hn : n < N) (_hx : x < N)
    (h1 : cd N l n ≤ cd N l x) (h2 : cd N l x ≤ cd N l u) : cd N n x ≤ cd N n u := by
  have c1 := cd_cases N l n
  have c2 := cd_cases N l x
  have c3 := cd_cases N l u
  have c4 := cd_cases N n x
  have c5 := cd_cases N n u
  generalize cd N l n = d1 at *
  generalize cd N l x = d2 at *
  generalize cd N l u = d3 at *
  generalize cd N n x = d4 at *
  generalize cd N n u = d5 at *
  omega

/-- two wrapping arcs with a point of mixed kind overlap at both ends and have different bounds -/
theorem num_nc (N sl su bl bu : Nat) (_h1 : sl < N) (_h2 : su < N) (_h3 : bl < N) (_h4 : bu < N)
    (h : su < sl ∧ bu < bl ∧ (sl ≤ bu ∨ bl ≤ su)) :
    cd N sl bl ≤ cd N sl su ∧ cd N sl bu ≤ cd N sl su ∧ cd N bl sl ≤ cd N bl bu ∧ cd N bl su ≤ cd N bl bu ∧
      ¬ (bl = sl ∧ bu = su) := by
  have c1 := cd_cases N sl su
  have c2 := cd_cases N sl bl
  have c3 := cd_cases N sl bu
  have c4 := cd_cases N bl bu
  have c5 := cd_cases N bl sl
  have c6 := cd_cases N bl su
  generalize cd N sl su = d1 at *
  generalize cd N sl bl = d2 at *
  generalize cd N sl bu = d3 at *
  generalize cd N bl bu = d4 at *
  generalize cd N bl sl = d5 at *
  generalize cd N bl su = d6 at *
  omega

theorem nocross_of_G (w : Nat) (s b : SI) (hs : WFw w s) (hb : WFw w b) (hG : G s b ∨ G b s) : NoCross s b := by
  intro hc
  have hsl := hs.1.2.1; have hsu := hs.1.2.2.1; have hbl := hb.1.2.1; have hbu := hb.1.2.2.1
  rw [hs.2] at hsl hsu
  rw [hb.2] at hbl hbu
  obtain ⟨a1, a2, a3, a4, a5⟩ := num_nc (2 ^ w) s.lb s.ub b.lb b.ub hsl hsu hbl hbu hc
  unfold G sur at hG
  rw [hs.2, hb.2] at hG
  rcases hG with ⟨_, _, g⟩ | ⟨_, _, g⟩
  · rcases g with g | g | g
    · exact a5 g
    · exact g a1
    · exact g a2
  · rcases g with g | g | g
    · exact a5 ⟨g.1.symm, g.2.symm⟩
    · exact g a3
    · exact g a4

theorem nocross_of_not4 (w : Nat) (s b : SI) (hs : WFw w s) (hb : WFw w b)
    (h4 : ¬ (sur s b.lb ∧ sur s b.ub ∧ sur b s.lb ∧ sur b s.ub)) : NoCross s b := by
  intro hc
  have hsl := hs.1.2.1; have hsu := hs.1.2.2.1; have hbl := hb.1.2.1; have hbu := hb.1.2.2.1
  rw [hs.2] at hsl hsu
  rw [hb.2] at hbl hbu
  obtain ⟨a1, a2, a3, a4, _⟩ := num_nc (2 ^ w) s.lb s.ub b.lb b.ub hsl hsu hbl hbu hc
  apply h4
  unfold sur
  rw [hs.2, hb.2]
  exact ⟨a1, a2, a3, a4⟩

theorem nocross_symm (X Y : SI) (h : NoCross X Y) : NoCross Y X := by
  unfold NoCross at *
  omega

/-! ### the facts about a pair of operands, in coordinates relative to `s.lb` -/

theorem sur_rot_b (w : Nat) (s b : SI) (hs : WFw w s) (hb : WFw w b) (z : Nat) (hz : z < 2 ^ w) :
    sur b z ↔ cd (2 ^ w) (cd (2 ^ w) s.lb b.lb) (cd (2 ^ w) s.lb z) ≤ cd (2 ^ w) (cd (2 ^ w) s.lb b.lb) (cd (2 ^ w) s.lb b.ub) := by
  have hsl := hs.1.2.1; have hbl := hb.1.2.1; have hbu := hb.1.2.2.1
  rw [hs.2] at hsl
  rw [hb.2] at hbl hbu
  unfold sur
  rw [hb.2]
  exact le_rot _ s.lb b.lb b.ub z hsl hbl hbu hz

theorem sur_b_sl (w : Nat) (s b : SI) (hs : WFw w s) (hb : WFw w b) :
    sur b s.lb ↔ cd (2 ^ w) (cd (2 ^ w) s.lb b.lb) 0 ≤ cd (2 ^ w) (cd (2 ^ w) s.lb b.lb) (cd (2 ^ w) s.lb b.ub) := by
  have hsl := hs.1.2.1
  rw [hs.2] at hsl
  rw [sur_rot_b w s b hs hb s.lb hsl, cd_self]

theorem sur_s_iff (w : Nat) (s : SI) (hs : WFw w s) (z : Nat) : sur s z ↔ cd (2 ^ w) s.lb z ≤ cd (2 ^ w) s.lb s.ub := by
  unfold sur; rw [hs.2]

/-- a configuration with a single result `[fin(mci(X, Y), U)]`, `{X, Y} = {s, b}` -/
theorem meet_single (w : Nat) (s b X Y : SI) (U : Nat) (hs : WFw w s) (hb : WFw w b) (hsb : s.bottom = false)
    (hbb : b.bottom = false) (hsA : s.Aligned) (hbA : b.Aligned) (hss : s.stride ≠ 0) (hbs : b.stride ≠ 0)
    (hXY : (X = s ∧ Y = b) ∨ (X = b ∧ Y = s)) (hU : U < 2 ^ w) (hnc : NoCross s b)
    (hgeoR : ∀ x n, s.mem x → b.mem x → s.mem n → b.mem n →
      ((s.ub < s.lb ∨ ¬ b.ub < b.lb) → cd (2 ^ w) s.lb n ≤ cd (2 ^ w) s.lb x) →
      ((b.ub < b.lb ∨ ¬ s.ub < s.lb) → cd (2 ^ w) b.lb n ≤ cd (2 ^ w) b.lb x) →
      s.stride ∣ cd (2 ^ w) n x ∧ b.stride ∣ cd (2 ^ w) n x ∧ cd (2 ^ w) n x ≤ cd (2 ^ w) n U)
    (o : Option Int) (r : SI) (hm : minimalCommonInteger X Y = .ok o)
    (hf : meetFin w (Nat.lcm s.stride b.stride) o U = .ok r) (x : Nat) (hx : s.mem x) (hy : b.mem x) : r.mem x := by
  have Hs : s.ub < s.lb → TwoPieces s := aligned_two s hs.1 hsA
  have Hb : b.ub < b.lb → TwoPieces b := aligned_two b hb.1 hbA
  rcases hXY with ⟨e1, e2⟩ | ⟨e1, e2⟩
  · subst e1; subst e2
    exact meet_call w X Y X Y U x o r hss hbs hs hb hsb hbb (fun h => Or.inl (Hs h)) (fun h => Or.inl (Hb h)) hnc hm hf hU
      hx hy (fun n mx my _ f1 f2 => hgeoR x n hx hy mx my f1 f2)
  · subst e1; subst e2
    exact meet_call w Y X X Y U x o r hss hbs hb hs hbb hsb (fun h => Or.inl (Hb h)) (fun h => Or.inl (Hs h))
      (nocross_symm _ _ hnc) hm hf hU hy hx (fun n mx my _ f1 f2 => hgeoR x n hx hy my mx f2 f1)

/-- the hypotheses of a geometry lemma about `x` and `n`, in rotated form, and the way back -/
theorem geo_apply (w : Nat) (s b : SI) (hs : WFw w s) (hb : WFw w b) (x n U : Nat) (hx : s.mem x) (hy : b.mem x)
    (hU : U < 2 ^ w) (hnl : n < 2 ^ w)
    (hns : cd (2 ^ w) s.lb n ≤ cd (2 ^ w) s.lb s.ub) (hnsd : s.stride ∣ cd (2 ^ w) s.lb n)
    (hnb : cd (2 ^ w) b.lb n ≤ cd (2 ^ w) b.lb b.ub) (hnbd : b.stride ∣ cd (2 ^ w) b.lb n)
    (hord : cd (2 ^ w) s.lb n ≤ cd (2 ^ w) s.lb x ∨ cd (2 ^ w) b.lb n ≤ cd (2 ^ w) b.lb x)
    (hgeo : cd (2 ^ w) s.lb x ≤ cd (2 ^ w) s.lb s.ub → cd (2 ^ w) s.lb n ≤ cd (2 ^ w) s.lb s.ub →
      cd (2 ^ w) (cd (2 ^ w) s.lb b.lb) (cd (2 ^ w) s.lb x) ≤ cd (2 ^ w) (cd (2 ^ w) s.lb b.lb) (cd (2 ^ w) s.lb b.ub) →
      cd (2 ^ w) (cd (2 ^ w) s.lb b.lb) (cd (2 ^ w) s.lb n) ≤ cd (2 ^ w) (cd (2 ^ w) s.lb b.lb) (cd (2 ^ w) s.lb b.ub) →
      (cd (2 ^ w) s.lb n ≤ cd (2 ^ w) s.lb x ∨
        cd (2 ^ w) (cd (2 ^ w) s.lb b.lb) (cd (2 ^ w) s.lb n) ≤ cd (2 ^ w) (cd (2 ^ w) s.lb b.lb) (cd (2 ^ w) s.lb x)) →
      cd (2 ^ w) s.lb n ≤ cd (2 ^ w) s.lb x ∧
        cd (2 ^ w) (cd (2 ^ w) s.lb b.lb) (cd (2 ^ w) s.lb n) ≤ cd (2 ^ w) (cd (2 ^ w) s.lb b.lb) (cd (2 ^ w) s.lb x) ∧
        cd (2 ^ w) (cd (2 ^ w) s.lb n) (cd (2 ^ w) s.lb x) ≤ cd (2 ^ w) (cd (2 ^ w) s.lb n) (cd (2 ^ w) s.lb U)) :
    s.stride ∣ cd (2 ^ w) n x ∧ b.stride ∣ cd (2 ^ w) n x ∧ cd (2 ^ w) n x ≤ cd (2 ^ w) n U := by
  obtain ⟨hxl, hxs, _⟩ := arc_facts w s x hs hx
  obtain ⟨_, hxb, _⟩ := arc_facts w b x hb hy
  have hsl := hs.1.2.1; have hbl := hb.1.2.1; have hbu := hb.1.2.2.1
  rw [hs.2] at hsl
  rw [hb.2] at hbl hbu
  have rx := (le_rot _ s.lb b.lb b.ub x hsl hbl hbu hxl).1 hxb
  have rn := (le_rot _ s.lb b.lb b.ub n hsl hbl hbu hnl).1 hnb
  have hord' : cd (2 ^ w) s.lb n ≤ cd (2 ^ w) s.lb x ∨
      cd (2 ^ w) (cd (2 ^ w) s.lb b.lb) (cd (2 ^ w) s.lb n) ≤ cd (2 ^ w) (cd (2 ^ w) s.lb b.lb) (cd (2 ^ w) s.lb x) := by
    rcases hord with h | h
    · exact Or.inl h
    · exact Or.inr ((le_rot _ s.lb b.lb x n hsl hbl hxl hnl).1 h)
  exact lock_step w s b hs hb x n U hx hy hnl hU hnsd hnbd (hgeo hxs hns rx rn hord')

/-- the order disjunction from the two implications of `mci_order` -/
theorem ord_of (P Q : Prop) (A B : Prop) (f1 : (P ∨ ¬ Q) → A) (f2 : (Q ∨ ¬ P) → B) : A ∨ B := by
  by_cases hc : P ∨ ¬ Q
  · exact Or.inl (f1 hc)
  · refine Or.inr (f2 ?_)
    by_cases hq : Q
    · exact Or.inl hq
    · exact absurd (Or.inr hq) hc

end Claripy.VSA
