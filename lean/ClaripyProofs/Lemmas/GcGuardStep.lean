import ClaripyProofs.Lemmas.GcGuard
/-! Preservation of the GC-guard invariant by every step, and the invariant implies safety. -/
namespace Claripy.GcGuard

macro "finish" : tactic => `(tactic| (
  first
  | (simp_all [localOk, inCrit, Assert, Cons]; done)
  | (simp_all [localOk, inCrit, Assert, Cons] <;> omega)))

theorem assert_of_crit (s : State) (i : Nat) (t : Thread) (hI : Inv s) (ht : s.threads[i]? = some t)
    (hc : inCrit t) : Assert t s := by
  have hl := (hI.crit i t ht).mp hc
  have := hI.shared
  rw [hl] at this
  obtain ⟨u, hu, ha⟩ := this
  rw [ht] at hu; cases hu; exact ha

theorem held_le_active (s : State) (i : Nat) (t : Thread) (hI : Inv s) (ht : s.threads[i]? = some t) :
    (t.held : Int) ≤ s.active := by
  rw [hI.sum]
  have : t.held ≤ heldSum s.threads := by
    have h := heldSum_set s.threads i t { t with held := 0 } ht
    simp at h; omega
  omega


set_option hygiene false in
macro "upd" : tactic => `(tactic| (refine inv_update s _ i _ _ hI ht rfl ?_ ?_ ?_ ?_ ?_ ?_ ?_ <;> finish))

set_option hygiene false in
macro "case_step" : tactic => `(tactic| (
  simp [stdProgs, Progs.get, enterProg, exitProg, setThread] at hs
  first
  | (obtain ⟨hl, hs⟩ := hs; subst hs; upd)
  | (subst hs; upd)
  | (split at hs <;> (simp at hs; subst hs; upd))))

theorem step_run_inv (s s' : State) (i : Nat) (hI : Inv s) (hs : step stdProgs s i .run = some s') : Inv s' := by
  unfold step at hs
  simp only at hs
  cases ht : s.threads[i]? with
  | none => simp [ht] at hs
  | some t =>
    simp only [ht] at hs
    have hloc := hI.loc i t ht
    have hle := held_le_active s i t hI ht
    have hcr := hI.crit i t ht
    have hfree := hI.shared
    have hass := assert_of_crit s i t hI ht
    obtain ⟨fn, pc, held, depth⟩ := t
    simp only [localOk] at hloc
    have hcases : (fn = 0) ∨ (fn = 1 ∧ (pc = 0 ∨ pc = 1 ∨ pc = 2 ∨ pc = 3 ∨ pc = 4 ∨ pc = 5 ∨ pc = 6 ∨ pc = 7)) ∨
        (fn = 2 ∧ (pc = 0 ∨ pc = 1 ∨ pc = 6 ∨ pc = 7 ∨ pc = 8 ∨ pc = 9 ∨ pc = 10 ∨ pc = 11 ∨ pc = 12)) := by omega
    rcases hcases with h | ⟨h, hp⟩ | ⟨h, hp⟩
    · subst h; simp at hs
    · subst h
      rcases hp with hp | hp | hp | hp | hp | hp | hp | hp <;> subst hp <;> case_step
    · subst h
      rcases hp with hp | hp | hp | hp | hp | hp | hp | hp | hp <;> subst hp <;> case_step


theorem step_callEnter_inv (s s' : State) (i : Nat) (hI : Inv s) (hs : step stdProgs s i .callEnter = some s') : Inv s' := by
  unfold step at hs
  simp only at hs
  cases ht : s.threads[i]? with
  | none => simp [ht] at hs
  | some t =>
    simp only [ht] at hs
    have hloc := hI.loc i t ht
    have hcr := hI.crit i t ht
    obtain ⟨fn, pc, held, depth⟩ := t
    by_cases h : fn = 0
    · subst h
      simp [setThread] at hs
      subst hs
      refine inv_update s _ i _ _ hI ht rfl ?_ ?_ ?_ ?_ ?_ ?_ ?_ <;> finish
    · simp [h] at hs

theorem step_callExit_inv (s s' : State) (i : Nat) (hI : Inv s) (hs : step stdProgs s i .callExit = some s') : Inv s' := by
  unfold step at hs
  simp only at hs
  cases ht : s.threads[i]? with
  | none => simp [ht] at hs
  | some t =>
    simp only [ht] at hs
    have hloc := hI.loc i t ht
    have hcr := hI.crit i t ht
    obtain ⟨fn, pc, held, depth⟩ := t
    by_cases h : fn = 0 ∧ 0 < depth
    · obtain ⟨h, hd⟩ := h
      subst h
      simp [setThread, hd] at hs
      subst hs
      refine inv_update s _ i _ _ hI ht rfl ?_ ?_ ?_ ?_ ?_ ?_ ?_ <;> finish
    · simp [h] at hs

theorem quiescent_idle (s : State) (hq : quiescent s = true) (i : Nat) (t : Thread)
    (ht : s.threads[i]? = some t) : t.fn = 0 ∧ t.depth = 0 := by
  simp [quiescent] at hq
  exact hq t (List.mem_of_getElem? ht)

theorem heldSum_eq_zero (l : List Thread) (h : ∀ t ∈ l, t.held = 0) : heldSum l = 0 := by
  induction l with
  | nil => rfl
  | cons a l ih =>
    simp [heldSum] at *
    exact ⟨h.1, ih h.2⟩

theorem quiescent_facts (s : State) (hI : Inv s) (hq : quiescent s = true) :
    s.lock = none ∧ s.active = 0 := by
  constructor
  · cases hl : s.lock with
    | none => rfl
    | some j =>
      have := hI.shared; rw [hl] at this
      obtain ⟨u, hu, _⟩ := this
      have hc := (hI.crit j u hu).mpr hl
      have := quiescent_idle s hq j u hu
      simp [inCrit, this.1] at hc
  · rw [hI.sum]
    have : heldSum s.threads = 0 := by
      apply heldSum_eq_zero
      intro t ht
      obtain ⟨i, hi⟩ := List.getElem?_of_mem ht
      have := quiescent_idle s hq i t hi
      have hl := hI.loc i t hi
      simp [localOk, this.1] at hl
      omega
    omega

theorem step_envFlip_inv (s s' : State) (i : Nat) (hI : Inv s) (hs : step stdProgs s i .envFlip = some s') : Inv s' := by
  unfold step at hs
  simp only at hs
  by_cases hq : quiescent s = true
  · simp [hq] at hs
    subst hs
    obtain ⟨hl, ha⟩ := quiescent_facts s hI hq
    have hc := hI.shared
    rw [hl] at hc
    refine ⟨hI.sum, hI.loc, hI.crit, ?_⟩
    simp only [hl]
    simp [Cons, ha] at hc ⊢
    simp [hc]
  · simp [hq] at hs

theorem step_inv (s s' : State) (i : Nat) (a : Act) (hI : Inv s) (hs : step stdProgs s i a = some s') : Inv s' := by
  cases a with
  | callEnter => exact step_callEnter_inv s s' i hI hs
  | callExit => exact step_callExit_inv s s' i hI hs
  | run => exact step_run_inv s s' i hI hs
  | envFlip => exact step_envFlip_inv s s' i hI hs

theorem depthSum_pos_exists (l : List Thread) (h : 0 < depthSum l) : ∃ t ∈ l, 0 < t.depth := by
  induction l with
  | nil => simp [depthSum] at h
  | cons a l ih =>
    simp [depthSum] at h ⊢
    by_cases ha : 0 < a.depth
    · exact Or.inl ha
    · right
      have : 0 < depthSum l := by simp [depthSum]; omega
      exact ih this

/-- The invariant implies the three claims of the property. -/
theorem inv_safe (s : State) (hI : Inv s) : Safe s := by
  have hnonneg : 0 ≤ s.active := by rw [hI.sum]; omega
  refine ⟨?_, ?_, hnonneg⟩
  · intro hp
    obtain ⟨t, htm, hd⟩ := depthSum_pos_exists s.threads hp
    obtain ⟨i, hi⟩ := List.getElem?_of_mem htm
    have hle := held_le_active s i t hI hi
    have hl := hI.loc i t hi
    have hact : s.active ≠ 0 := by
      simp [localOk] at hl
      omega
    have hsh := hI.shared
    cases hlk : s.lock with
    | none => rw [hlk] at hsh; exact (hsh.2 hact).1
    | some j =>
      rw [hlk] at hsh
      obtain ⟨u, _, ha⟩ := hsh
      unfold Assert Cons at ha
      grind
  · intro hq
    obtain ⟨hl, ha⟩ := quiescent_facts s hI hq
    have hc := hI.shared
    rw [hl] at hc
    exact hc.1 ha

end Claripy.GcGuard
