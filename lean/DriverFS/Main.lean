import DriverFS.Str
import DriverFS.FP
import DriverFS.Extract
/-! Line-protocol driver for the FS family (strings, floating point, model-value extraction): one request per line,
first token selects the handler.  Imports only core-Lean model files under Claripy/ (never Mathlib). -/

def dispatch (line : String) : String :=
  match (line.trimAscii.toString.splitOn " ").filter (· ≠ "") with
  | "str" :: args => DriverFS.Str.handleModel args
  | "spec" :: args => DriverFS.Str.handleSpec args
  | "codec" :: args => DriverFS.Str.handleCodec args
  | "fp" :: args => DriverFS.FP.handleFold args
  | "fpspec" :: args => DriverFS.FP.handleSpec args
  | "ext" :: args => DriverFS.Extract.handle args
  | _ => "bad-op"

partial def loop (h : IO.FS.Stream) (out : IO.FS.Stream) : IO Unit := do
  let line ← h.getLine
  if line.isEmpty then return ()
  out.putStrLn (dispatch line)
  loop h out

def main : IO Unit := do
  let out ← IO.getStdout
  loop (← IO.getStdin) out
  out.flush
