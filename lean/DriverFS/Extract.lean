import Claripy.Str.Numeral
import Claripy.FP.Extract
import DriverFS.Str
import DriverFS.FP
/-! `ext <what> args` — model-value extraction (C26). -/
namespace DriverFS.Extract
open Claripy.Str Claripy.FP

def parsePart (t : String) : Option Numeral.Part :=
  match (t.splitOn ":").map String.toNat? with
  | [some size, some val, some neg] => some ⟨size, val, neg != 0⟩
  | _ => none

def handle (args : List String) : String :=
  match args with
  | ["bv", chunk, v] => match chunk.toNat?, v.toNat? with
    | some c, some v => s!"i:{Numeral.abstractBvVal c v}" | _, _ => "bad-arg"
  | ["str2int", chunk, s] => match chunk.toNat?, DriverFS.Str.parseS s with
    | some c, some s => s!"i:{Numeral.strToIntUnlimited c s}" | _, _ => "bad-arg"
  | "concat" :: parts => match parts.mapM parsePart with
    | some ps => s!"i:{Numeral.concatQuirk ps}" | none => "bad-arg"
  | ["fp", f, b] => match DriverFS.FP.parseFmt f, b.toNat? with
    | some f, some b => DriverFS.FP.rf Claripy.FP.binary64 (Extract.abstractFpVal f b) | _, _ => "bad-arg"
  | ["fpenc", f, b] => match DriverFS.FP.parseFmt f, b.toNat? with
    | some f, some b => s!"i:{Extract.abstractFpEncodedVal f b}" | _, _ => "bad-arg"
  | _ => "bad-op"

end DriverFS.Extract
