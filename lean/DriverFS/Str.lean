import Claripy.Str.Model
import Claripy.Str.Codec
/-! Line protocol for the string family.  Strings: comma separated code points, `-` for the empty string. -/
namespace DriverFS.Str
open Claripy.Str

def parseS (t : String) : Option S :=
  if t == "-" then some [] else (t.splitOn ",").mapM String.toNat?

def showS (s : S) : String := if s.isEmpty then "-" else ",".intercalate (s.map toString)

def rs (s : S) : String := "s:" ++ showS s
def ri (n : Nat) : String := "i:" ++ toString n
def rb (b : Bool) : String := if b then "b:1" else "b:0"

/-- `str <Op> args` — the model of backend_concrete/strings.py -/
def handleModel (args : List String) : String :=
  match args with
  | ["StrConcat", a, b] => match parseS a, parseS b with
    | some a, some b => rs (Model.StrConcat [a, b]) | _, _ => "bad-arg"
  | ["StrConcat3", a, b, c] => match parseS a, parseS b, parseS c with
    | some a, some b, some c => rs (Model.StrConcat [a, b, c]) | _, _, _ => "bad-arg"
  | ["StrSubstr", i, n, s] => match i.toNat?, n.toNat?, parseS s with
    | some i, some n, some s => rs (Model.StrSubstr i n s) | _, _, _ => "bad-arg"
  | ["StrReplace", s, t, r] => match parseS s, parseS t, parseS r with
    | some s, some t, some r => rs (Model.StrReplace s t r) | _, _, _ => "bad-arg"
  | ["StrLen", s] => match parseS s with
    | some s => ri (Model.StrLen s) | _ => "bad-arg"
  | ["StrContains", s, t] => match parseS s, parseS t with
    | some s, some t => rb (Model.StrContains s t) | _, _ => "bad-arg"
  | ["StrPrefixOf", p, s] => match parseS p, parseS s with
    | some p, some s => rb (Model.StrPrefixOf p s) | _, _ => "bad-arg"
  | ["StrSuffixOf", p, s] => match parseS p, parseS s with
    | some p, some s => rb (Model.StrSuffixOf p s) | _, _ => "bad-arg"
  | ["StrIndexOf", s, t, i] => match parseS s, parseS t, i.toNat? with
    | some s, some t, some i => ri (Model.StrIndexOf s t i) | _, _, _ => "bad-arg"
  | ["StrToInt", s] => match parseS s with
    | some s => ri (Model.StrToInt s) | _ => "bad-arg"
  | ["IntToStr", n] => match n.toNat? with
    | some n => rs (Model.IntToStr n) | _ => "bad-arg"
  | ["__eq__", a, b] => match parseS a, parseS b with
    | some a, some b => rb (Model.eq a b) | _, _ => "bad-arg"
  | ["__ne__", a, b] => match parseS a, parseS b with
    | some a, some b => rb (Model.ne a b) | _, _ => "bad-arg"
  | _ => "bad-op"

/-- `spec <Op> args` — the SMT-LIB reference -/
def handleSpec (args : List String) : String :=
  match args with
  | ["StrConcat", a, b] => match parseS a, parseS b with
    | some a, some b => rs (Spec.concat a b) | _, _ => "bad-arg"
  | ["StrConcat3", a, b, c] => match parseS a, parseS b, parseS c with
    | some a, some b, some c => rs (Spec.concat a (Spec.concat b c)) | _, _, _ => "bad-arg"
  | ["StrSubstr", i, n, s] => match i.toNat?, n.toNat?, parseS s with
    | some i, some n, some s => rs (Spec.substr s i n) | _, _, _ => "bad-arg"
  | ["StrReplace", s, t, r] => match parseS s, parseS t, parseS r with
    | some s, some t, some r => rs (Spec.replace s t r) | _, _, _ => "bad-arg"
  | ["StrLen", s] => match parseS s with
    | some s => ri (Spec.len s) | _ => "bad-arg"
  | ["StrContains", s, t] => match parseS s, parseS t with
    | some s, some t => rb (Spec.contains s t) | _, _ => "bad-arg"
  | ["StrPrefixOf", p, s] => match parseS p, parseS s with
    | some p, some s => rb (Spec.prefixof p s) | _, _ => "bad-arg"
  | ["StrSuffixOf", p, s] => match parseS p, parseS s with
    | some p, some s => rb (Spec.suffixof p s) | _, _ => "bad-arg"
  | ["StrIndexOf", s, t, i] => match parseS s, parseS t, i.toNat? with
    | some s, some t, some i => ri (Spec.indexof s t i) | _, _, _ => "bad-arg"
  | ["StrToInt", s] => match parseS s with
    | some s => ri (Spec.toInt s) | _ => "bad-arg"
  | ["IntToStr", n] => match n.toNat? with
    | some n => rs (Spec.fromInt n) | _ => "bad-arg"
  | ["__eq__", a, b] => match parseS a, parseS b with
    | some a, some b => rb (Spec.eq a b) | _, _ => "bad-arg"
  | ["__ne__", a, b] => match parseS a, parseS b with
    | some a, some b => rb (!Spec.eq a b) | _, _ => "bad-arg"
  | _ => "bad-op"

/-- `codec <fn> <s>` -/
def handleCodec (args : List String) : String :=
  match args with
  | [fn, s] =>
    match parseS s with
    | none => "bad-arg"
    | some s =>
      match fn with
      | "z3py" => rs (Codec.z3pyEncode s)
      | "enc" => match Codec.claripyEncode s with | some r => rs r | none => "!BackendError"
      | "z3parse" => rs (Codec.z3Parse s)
      | "z3print" => rs (Codec.z3Print s)
      | "dec" => rs (Codec.claripyDecode s)
      | "in" => match Codec.claripyEncode s with
        | some r => rs (Codec.z3Parse (Codec.z3pyEncode r)) | none => "!BackendError"
      | "text" => match Codec.claripyEncode s with
        | some r => rs (Codec.z3pyEncode r) | none => "!BackendError"
      | "out" => rs (Codec.claripyDecode (Codec.z3Print s))
      | _ => "bad-op"
  | _ => "bad-op"

end DriverFS.Str
