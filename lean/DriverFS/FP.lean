import Claripy.FP.Fold
/-! Line protocol for floating point.  `fp <op> <F|D> <rm|-> args` = model of claripy's folding,
`fpspec <op> <F|D> <rm|-> args` = the soft-float specification.  Floats are bit patterns (decimal naturals). -/
namespace DriverFS.FP
open Claripy.FP

def parseFmt : String → Option Fmt
  | "F" => some binary32 | "D" => some binary64 | _ => none

def fmtName (f : Fmt) : String := if f = binary32 then "F" else "D"
def other (f : Fmt) : Fmt := if f = binary32 then binary64 else binary32

def parseRM : String → Option RM
  | "RNE" => some .RNE | "RNA" => some .RNA | "RTP" => some .RTP | "RTN" => some .RTN | "RTZ" => some .RTZ
  | "-" => some .RNE | _ => none

def rf (f : Fmt) (b : Nat) : String :=
  if isNaN f b then s!"f:{fmtName f}:nan" else s!"f:{fmtName f}:{b % 2 ^ f.width}"
def rbv (size v : Nat) : String := s!"bv:{size}:{v}"
def rb (b : Bool) : String := if b then "b:1" else "b:0"
def rres : Fold.Res → String
  | .fp f b => rf f b | .bv s v => rbv s v | .bool b => rb b | .err k => "!" ++ k

def nats (l : List String) : Option (List Nat) := l.mapM String.toNat?

def handleFold (args : List String) : String :=
  match args with
  | op :: f :: rm :: rest =>
    match parseFmt f, parseRM rm, nats rest with
    | some f, some rm, some xs =>
      match op, xs with
      | "fpAdd", [a, b] => rf f (Fold.fpAdd f rm a b)
      | "fpSub", [a, b] => rf f (Fold.fpSub f rm a b)
      | "fpMul", [a, b] => rf f (Fold.fpMul f rm a b)
      | "fpDiv", [a, b] => rf f (Fold.fpDiv f rm a b)
      | "fpSqrt", [a] => rf f (Fold.fpSqrt f rm a)
      | "fpAbs", [a] => rf f (Fold.fpAbs f a)
      | "fpNeg", [a] => rf f (Fold.fpNeg f a)
      | "fpIsNaN", [a] => rb (Fold.fpIsNaN f a)
      | "fpIsInf", [a] => rb (Fold.fpIsInf f a)
      | "fpToIEEEBV", [a] => if isNaN f a then "bv-nan" else rbv f.width (Fold.fpToIEEEBV f a)
      | "fpEQ", [a, b] => rb (Fold.fpEQ f a b)
      | "fpNEQ", [a, b] => rb (Fold.fpNEQ f a b)
      | "fpLT", [a, b] => rb (Fold.fpLT f a b)
      | "fpLEQ", [a, b] => rb (Fold.fpLEQ f a b)
      | "fpGT", [a, b] => rb (Fold.fpGT f a b)
      | "fpGEQ", [a, b] => rb (Fold.fpGEQ f a b)
      | "fpToFP_fp", [a] => rf f (Fold.fpToFP_fp (other f) f rm a)
      | "fpToFP_sbv", [v, w] => rres (Fold.fpToFP_sbv f rm w v)
      | "fpToFPUnsigned", [v, w] => rres (Fold.fpToFPUnsigned f rm w v)
      | "fpToFP_bv", [v] => rf f (Fold.fpToFP_bv f v)
      | "fpToSBV", [a, w] => rbv w (Fold.fpToBV f rm a w)
      | "fpToUBV", [a, w] => rbv w (Fold.fpToBV f rm a w)
      | "fpFP", [s, e, m] => rf f (Fold.fpFP f s e m)
      | _, _ => "bad-op"
    | _, _, _ => "bad-arg"
  | _ => "bad-op"

def ropt (size : Nat) : Option Nat → String
  | some v => rbv size v | none => "unspec"

def handleSpec (args : List String) : String :=
  match args with
  | op :: f :: rm :: rest =>
    match parseFmt f, parseRM rm, nats rest with
    | some f, some rm, some xs =>
      match op, xs with
      | "fpAdd", [a, b] => rf f (add f rm a b)
      | "fpSub", [a, b] => rf f (sub f rm a b)
      | "fpMul", [a, b] => rf f (mul f rm a b)
      | "fpDiv", [a, b] => rf f (div f rm a b)
      | "fpSqrt", [a] => rf f (sqrt f rm a)
      | "fpAbs", [a] => rf f (abs f a)
      | "fpNeg", [a] => rf f (neg f a)
      | "fpIsNaN", [a] => rb (isNaN f a)
      | "fpIsInf", [a] => rb (isInf f a)
      | "fpToIEEEBV", [a] => ropt f.width (toIEEE f a)
      | "fpEQ", [a, b] => rb (feq f a b)
      | "fpNEQ", [a, b] => rb (fneq f a b)
      | "fpLT", [a, b] => rb (flt f a b)
      | "fpLEQ", [a, b] => rb (fleq f a b)
      | "fpGT", [a, b] => rb (fgt f a b)
      | "fpGEQ", [a, b] => rb (fgeq f a b)
      | "fpToFP_fp", [a] => rf f (cvt (other f) f rm a)
      | "fpToFP_sbv", [v, w] => rf f (ofSBV f rm w v)
      | "fpToFPUnsigned", [v, w] => rf f (ofUBV f rm w v)
      | "fpToFP_bv", [v] => rf f (v % 2 ^ f.width)
      | "fpToSBV", [a, w] => ropt w (toSBV f rm a w)
      | "fpToUBV", [a, w] => ropt w (toUBV f rm a w)
      | "fpFP", [s, e, m] => rf f (ofFields f s e m)
      | _, _ => "bad-op"
    | _, _, _ => "bad-arg"
  | _ => "bad-op"

end DriverFS.FP
