#!/bin/sh
# Build the framework offline from files on disk: regenerate lean/Claripy/Gen from /repo, then build every
# property module and driver.  Families are built separately so that one broken family cannot block the others
# (each check rebuilds what it needs anyway and reports its own failures).
cd "$(dirname "$0")"
/venv/bin/python harness/gen_all.py
for exe in driver driver_vsa driver_solver driver_fs; do bin/lk build $exe 2>&1 | tail -1; done
for f in lean/ClaripyProofs/Props/C*.lean; do
  m=$(basename "$f" .lean)
  bin/lk build ClaripyProofs.Props.$m 2>&1 | tail -1
done
exit 0
