#!/bin/sh
# Build the framework offline from files on disk: regenerate lean/Claripy/Gen from /repo, build proofs + driver.
set -e
cd "$(dirname "$0")"
/venv/bin/python harness/gen_all.py
cd lean
lake build Claripy ClaripyProofs driver
